(* Model of the selection state machine of the terminal UI (C17).

   crates/trippy-tui/src/frontend/tui_app.rs   TuiApp and all its methods (one definition per method, same names)
   crates/trippy-tui/src/frontend.rs           run_app: the per-frame prologue and the key dispatch table
   crates/trippy-tui/src/frontend/columns.rs   Columns::toggle / move_down / move_up
   crates/trippy-tui/src/frontend/render/settings.rs  settings_tabs(), SETTINGS_TAB_COLUMNS
   crates/trippy-core/src/state.rs             the State accessors indexed by flow id (`self.state[&flow_id]`)

   The trace data is abstracted to its SHAPE: which flow ids the State map has, how many rounds and
   hops each flow has, how many addresses each hop has, the registered flows and max_flows.  The
   model is of the code AFTER the repairs docs/integration/C17_fix_1..4.patch:
     1 snapshot_trace_data falls back to the default flow when the selected flow is gone,
     2 clamp_selected_hop copes with a trace without hops and clamps the hop address,
     3 toggle_flows / next_flow / previous_flow clamp the selected hop,
     4 next_hop_address does not compute `addr_count() - 1`.
   Faults are values: a missing map key, an index out of bounds, a `usize` subtraction below zero,
   `.unwrap()` on None. *)
From TV Require Import Base.Result Tui.Privacy.
Import TuiPrivacy.

(* a module, so that the extracted OCaml names (run, step, clear, hops, ...) live in Model.TuiApp *)
Module TuiApp.

(* ------------------------------------------------------------------ the shape of a State *)

Record hop_shape := mk_hop { hs_addrs : Z; hs_ttl : Z }.
Record flow_shape := mk_flow { fs_id : Z; fs_rounds : Z; fs_hops : list hop_shape }.
Record shape := mk_shape {
  sh_max_flows : Z;               (* state_config.max_flows *)
  sh_error : bool;                (* error.is_some() *)
  sh_registry : list Z;           (* registry.flows(): the registered flow ids, in order *)
  sh_flows : list flow_shape      (* the `state` map, as an association list on fs_id *)
}.

(* State::default(): an EMPTY map (what TuiApp::new starts with) *)
Definition default_shape : shape := mk_shape 0 false [] [].
(* State::new(cfg): the default flow only (Tracer::clear) *)
Definition clear_shape (s : shape) : shape := mk_shape (sh_max_flows s) false [] [mk_flow 0 0 []].

(* self.state[&flow_id] *)
Fixpoint find_flow (fl : list flow_shape) (f : Z) : result flow_shape :=
  match fl with
  | [] => Fault MissingKey
  | x :: t => if fs_id x =? f then Ok x else find_flow t f
  end.
Definition hops_for_flow (s : shape) (f : Z) : result (list hop_shape) :=
  let* x := find_flow (sh_flows s) f in Ok (fs_hops x).
Definition hops (s : shape) : result (list hop_shape) := hops_for_flow s 0.
Definition round_count (s : shape) (f : Z) : result Z :=
  let* x := find_flow (sh_flows s) f in Ok (fs_rounds x).
(* target_hop / is_target / is_in_round / round: same lookup, then an index inside a 254-entry vector *)
Definition flow_lookup (s : shape) (f : Z) : result unit :=
  let* _ := find_flow (sh_flows s) f in Ok tt.
Definition flows (s : shape) : list Z := sh_registry s.
Definition max_flows (s : shape) : Z := sh_max_flows s.

(* v[i] with a usize index *)
Definition zindex {A} (i : Z) (l : list A) : result A :=
  if 0 <=? i then index (Z.to_nat i) l else Fault OutOfBounds.
Definition zlen {A} (l : list A) : Z := Z.of_nat (length l).

(* ------------------------------------------------------------------ TuiApp *)

(* selection into the trace data *)
Record sel := mk_sel {
  trace_selected : Z;
  table_sel : option Z;          (* table_state.selected() *)
  hop_addr : Z;                  (* selected_hop_address *)
  sel_flow : Z;                  (* selected_flow *)
  flow_counts : list (Z * Z);    (* (flow id, round count) *)
  show_flows : bool
}.
(* settings dialog *)
Record sett := mk_sett {
  settings_tab : Z;              (* settings_tab_selected *)
  setting_sel : option Z;        (* setting_table_state.selected() *)
  columns : list (Z * bool)      (* tui_config.tui_columns: (column char, shown) *)
}.
(* everything else the commands change *)
Record uiview := mk_view {
  show_help : bool; show_settings : bool; show_details : bool; show_chart : bool; show_map : bool;
  frozen : bool;                 (* frozen_start.is_some() *)
  zoom : Z;
  privacy : option Z;            (* tui_config.privacy_max_ttl *)
  max_addrs : option Z;          (* tui_config.max_addrs *)
  addr_mode : Z;                 (* 0 Ip, 1 Host, 2 Both *)
  as_info : bool;                (* tui_config.lookup_as_info *)
  resolver_system : bool         (* resolver.config().resolve_method == System *)
}.
Record app := mk_app { data : shape; a_sel : sel; a_sett : sett; a_view : uiview }.

(* the tracers behind trace_info: one shape per trace *)
Definition traces := list shape.

Definition with_sel (a : app) (s : sel) : app := mk_app (data a) s (a_sett a) (a_view a).
Definition with_sett (a : app) (s : sett) : app := mk_app (data a) (a_sel a) s (a_view a).
Definition with_view (a : app) (v : uiview) : app := mk_app (data a) (a_sel a) (a_sett a) v.
Definition with_data (a : app) (d : shape) : app := mk_app d (a_sel a) (a_sett a) (a_view a).

Definition set_trace_selected (s : sel) v := mk_sel v (table_sel s) (hop_addr s) (sel_flow s) (flow_counts s) (show_flows s).
Definition set_table_sel (s : sel) v := mk_sel (trace_selected s) v (hop_addr s) (sel_flow s) (flow_counts s) (show_flows s).
Definition set_hop_addr (s : sel) v := mk_sel (trace_selected s) (table_sel s) v (sel_flow s) (flow_counts s) (show_flows s).
Definition set_sel_flow (s : sel) v := mk_sel (trace_selected s) (table_sel s) (hop_addr s) v (flow_counts s) (show_flows s).
Definition set_flow_counts (s : sel) v := mk_sel (trace_selected s) (table_sel s) (hop_addr s) (sel_flow s) v (show_flows s).
Definition set_show_flows (s : sel) v := mk_sel (trace_selected s) (table_sel s) (hop_addr s) (sel_flow s) (flow_counts s) v.

Definition set_settings_tab (s : sett) v := mk_sett v (setting_sel s) (columns s).
Definition set_setting_sel (s : sett) v := mk_sett (settings_tab s) v (columns s).
Definition set_columns (s : sett) v := mk_sett (settings_tab s) (setting_sel s) v.

Definition set_show_help (v : uiview) x := mk_view x (show_settings v) (show_details v) (show_chart v) (show_map v) (frozen v) (zoom v) (privacy v) (max_addrs v) (addr_mode v) (as_info v) (resolver_system v).
Definition set_show_settings (v : uiview) x := mk_view (show_help v) x (show_details v) (show_chart v) (show_map v) (frozen v) (zoom v) (privacy v) (max_addrs v) (addr_mode v) (as_info v) (resolver_system v).
Definition set_show_details (v : uiview) x := mk_view (show_help v) (show_settings v) x (show_chart v) (show_map v) (frozen v) (zoom v) (privacy v) (max_addrs v) (addr_mode v) (as_info v) (resolver_system v).
Definition set_chart_map (v : uiview) c m := mk_view (show_help v) (show_settings v) (show_details v) c m (frozen v) (zoom v) (privacy v) (max_addrs v) (addr_mode v) (as_info v) (resolver_system v).
Definition set_frozen (v : uiview) x := mk_view (show_help v) (show_settings v) (show_details v) (show_chart v) (show_map v) x (zoom v) (privacy v) (max_addrs v) (addr_mode v) (as_info v) (resolver_system v).
Definition set_zoom (v : uiview) x := mk_view (show_help v) (show_settings v) (show_details v) (show_chart v) (show_map v) (frozen v) x (privacy v) (max_addrs v) (addr_mode v) (as_info v) (resolver_system v).
Definition set_privacy (v : uiview) x := mk_view (show_help v) (show_settings v) (show_details v) (show_chart v) (show_map v) (frozen v) (zoom v) x (max_addrs v) (addr_mode v) (as_info v) (resolver_system v).
Definition set_max_addrs (v : uiview) x := mk_view (show_help v) (show_settings v) (show_details v) (show_chart v) (show_map v) (frozen v) (zoom v) (privacy v) x (addr_mode v) (as_info v) (resolver_system v).
Definition set_addr_mode (v : uiview) x := mk_view (show_help v) (show_settings v) (show_details v) (show_chart v) (show_map v) (frozen v) (zoom v) (privacy v) (max_addrs v) x (as_info v) (resolver_system v).
Definition set_as_info (v : uiview) x := mk_view (show_help v) (show_settings v) (show_details v) (show_chart v) (show_map v) (frozen v) (zoom v) (privacy v) (max_addrs v) (addr_mode v) x (resolver_system v).

(* TuiApp::new: selected_tracer_data = State::default() *)
Definition tui_new (cols : list (Z * bool)) (priv maxa : option Z) (mode : Z) (asinfo sys : bool) : app :=
  mk_app default_shape
    (mk_sel 0 None 0 0 [] false)
    (mk_sett 0 None cols)
    (mk_view false false false false false false 1 priv maxa mode asinfo sys).

(* ------------------------------------------------------------------ accessors of TuiApp *)

(* selected_hop(): table_state.selected().map(|s| &hops_for_flow(selected_flow)[s]) *)
Definition selected_hop (a : app) : result (option hop_shape) :=
  match table_sel (a_sel a) with
  | None => Ok None
  | Some s =>
    let* hs := hops_for_flow (data a) (sel_flow (a_sel a)) in
    let* h := zindex s hs in Ok (Some h)
  end.

(* selected_hop_or_target() *)
Definition selected_hop_or_target (a : app) : result unit :=
  match table_sel (a_sel a) with
  | None => flow_lookup (data a) (sel_flow (a_sel a))
  | Some s =>
    let* hs := hops_for_flow (data a) (sel_flow (a_sel a)) in
    let* _ := zindex s hs in Ok tt
  end.

(* tracer_config(): &self.trace_info[self.trace_selected] *)
Definition tracer_config (w : traces) (a : app) : result shape := zindex (trace_selected (a_sel a)) w.

(* ------------------------------------------------------------------ the frame prologue *)

(* snapshot_trace_data (repair 1: + clamp_selected_flow) *)
Definition clamp_selected_flow (a : app) : app :=
  let s := a_sel a in
  if negb (sel_flow s =? 0) && negb (existsb (fun id => id =? sel_flow s) (flows (data a))) then
    with_sel a (set_hop_addr (set_show_flows (set_sel_flow s 0) false) 0)
  else a.
Definition snapshot_trace_data (w : traces) (a : app) : result app :=
  let* d := tracer_config w a in
  Ok (clamp_selected_flow (with_data a d)).

(* clamp_selected_hop (repair 2) *)
Definition clamp_selected_hop (a : app) : result app :=
  let* hs := hops_for_flow (data a) (sel_flow (a_sel a)) in
  let hop_count := zlen hs in
  let* a1 :=
    match table_sel (a_sel a) with
    | Some selected =>
      if hop_count =? 0 then Ok (with_sel a (set_table_sel (a_sel a) None))
      else
        let* m := sub_w hop_count 1 in
        if selected >? m then Ok (with_sel a (set_table_sel (a_sel a) (Some m))) else Ok a
    | None => Ok a
    end in
  let* sh := selected_hop a1 in
  let max_hop_address := match sh with Some h => Z.max 0 (hs_addrs h - 1) | None => 0 end in
  Ok (with_sel a1 (set_hop_addr (a_sel a1) (Z.min (hop_addr (a_sel a1)) max_hop_address))).

(* order_flows: by count, ties by flow id reversed; sorted_by(..).rev().take(max_flows) *)
Definition order_flows_le (x y : Z * Z) : bool :=
  if snd x <? snd y then true else if snd y <? snd x then false else fst y <=? fst x.
Fixpoint insert_flow (x : Z * Z) (l : list (Z * Z)) : list (Z * Z) :=
  match l with
  | [] => [x]
  | y :: t => if order_flows_le x y then x :: y :: t else y :: insert_flow x t
  end.
Definition sort_flows (l : list (Z * Z)) : list (Z * Z) := fold_right insert_flow [] l.
Fixpoint map_r {A B} (f : A -> result B) (l : list A) : result (list B) :=
  match l with
  | [] => Ok []
  | x :: t => let* y := f x in let* r := map_r f t in Ok (y :: r)
  end.
Definition update_order_flow_counts (a : app) : result app :=
  let* l := map_r (fun id => let* c := round_count (data a) id in Ok (id, c)) (flows (data a)) in
  Ok (with_sel a (set_flow_counts (a_sel a) (firstn (Z.to_nat (max_flows (data a))) (rev (sort_flows l))))).

Definition prologue (w : traces) (a : app) : result app :=
  let* a1 := snapshot_trace_data w a in
  let* a2 := clamp_selected_hop a1 in
  update_order_flow_counts a2.

(* ------------------------------------------------------------------ commands *)

Definition clear (a : app) : app := with_sel a (set_hop_addr (set_table_sel (a_sel a) None) 0).

Definition next_hop (a : app) : result app :=
  let* hs := hops_for_flow (data a) (sel_flow (a_sel a)) in
  let hop_count := zlen hs in
  if hop_count =? 0 then Ok a else
  let max_index := Z.max 0 (Z.max 0 (hop_count - 1)) in
  let i := match table_sel (a_sel a) with
           | Some i => if i <? max_index then i + 1 else i
           | None => 0 end in
  Ok (with_sel a (set_hop_addr (set_table_sel (a_sel a) (Some i)) 0)).

Definition previous_hop (a : app) : result app :=
  let* hs := hops_for_flow (data a) (sel_flow (a_sel a)) in
  let hop_count := zlen hs in
  if hop_count =? 0 then Ok a else
  let i := match table_sel (a_sel a) with
           | Some i => if i >? 0 then i - 1 else i
           | None => Z.max 0 (Z.max 0 (hop_count - 1)) end in
  Ok (with_sel a (set_hop_addr (set_table_sel (a_sel a) (Some i)) 0)).

Definition next_trace (w : traces) (a : app) : result app :=
  let n := zlen w in
  if (1 <? n) then
    let* m := sub_w n 1 in
    if trace_selected (a_sel a) <? m
    then Ok (clear (with_sel a (set_trace_selected (a_sel a) (trace_selected (a_sel a) + 1))))
    else Ok a
  else Ok a.

Definition previous_trace (w : traces) (a : app) : result app :=
  let n := zlen w in
  if (1 <? n) && (trace_selected (a_sel a) >? 0) then
    let* t := sub_w (trace_selected (a_sel a)) 1 in
    Ok (clear (with_sel a (set_trace_selected (a_sel a) t)))
  else Ok a.

(* repair 4: `selected_hop_address + 1 < hop.addr_count()` *)
Definition next_hop_address (a : app) : result app :=
  let* sh := selected_hop a in
  match sh with
  | Some h => if hop_addr (a_sel a) + 1 <? hs_addrs h
              then Ok (with_sel a (set_hop_addr (a_sel a) (hop_addr (a_sel a) + 1))) else Ok a
  | None => Ok a
  end.

Definition previous_hop_address (a : app) : result app :=
  let* sh := selected_hop a in
  match sh with
  | Some _ => if hop_addr (a_sel a) >? 0
              then let* x := sub_w (hop_addr (a_sel a)) 1 in Ok (with_sel a (set_hop_addr (a_sel a) x)) else Ok a
  | None => Ok a
  end.

(* flow_counts.iter().find_position(|(id, _)| *id == selected_flow).unwrap() *)
Fixpoint find_position (l : list (Z * Z)) (f : Z) (i : Z) : result Z :=
  match l with
  | [] => Fault MissingKey
  | x :: t => if fst x =? f then Ok i else find_position t f (i + 1)
  end.

(* repair 3: clamp after the flow changed *)
Definition next_flow (a : app) : result app :=
  if show_flows (a_sel a) then
    let* cur := find_position (flow_counts (a_sel a)) (sel_flow (a_sel a)) 0 in
    let* m := sub_w (zlen (flow_counts (a_sel a))) 1 in
    if cur <? m then
      let* e := zindex (cur + 1) (flow_counts (a_sel a)) in
      clamp_selected_hop (with_sel a (set_sel_flow (a_sel a) (fst e)))
    else Ok a
  else Ok a.

Definition previous_flow (a : app) : result app :=
  if show_flows (a_sel a) then
    let* cur := find_position (flow_counts (a_sel a)) (sel_flow (a_sel a)) 0 in
    if cur >? 0 then
      let* i := sub_w cur 1 in
      let* e := zindex i (flow_counts (a_sel a)) in
      clamp_selected_hop (with_sel a (set_sel_flow (a_sel a) (fst e)))
    else Ok a
  else Ok a.

Definition flow_count (a : app) : Z := zlen (flows (data a)).

Definition toggle_flows (w : traces) (a : app) : result app :=
  if (zlen w =? 1) && (1 <? max_flows (data a)) then
    if show_flows (a_sel a) then
      clamp_selected_hop (with_sel a (set_hop_addr (set_show_flows (set_sel_flow (a_sel a) 0) false) 0))
    else if flow_count a >? 0 then
      clamp_selected_hop (with_sel a (set_hop_addr (set_show_flows (set_sel_flow (a_sel a) 1) true) 0))
    else Ok a
  else Ok a.

(* --- settings dialog --- *)

(* settings_tabs(): number of items per tab *)
Definition settings_tabs : list Z := [10; 18; 5; 1; 37; 33; 0].
Definition SETTINGS_TAB_COLUMNS := 6.

Definition next_settings_tab (a : app) : result app :=
  let* m := sub_w (zlen settings_tabs) 1 in
  let st := a_sett a in
  let st1 := if settings_tab st <? m then set_settings_tab st (settings_tab st + 1) else st in
  Ok (with_sett a (set_setting_sel st1 (Some 0))).

Definition previous_settings_tab (a : app) : result app :=
  let st := a_sett a in
  let* st1 := if settings_tab st >? 0 then let* t := sub_w (settings_tab st) 1 in Ok (set_settings_tab st t) else Ok st in
  Ok (with_sett a (set_setting_sel st1 (Some 0))).

Definition get_settings_items_count (a : app) : result Z :=
  if settings_tab (a_sett a) =? SETTINGS_TAB_COLUMNS then Ok (zlen (columns (a_sett a)))
  else zindex (settings_tab (a_sett a)) settings_tabs.

Definition next_settings_item (a : app) : result app :=
  let* count := get_settings_items_count a in
  let max_index := Z.max 0 (Z.max 0 (count - 1)) in
  let i := match setting_sel (a_sett a) with
           | Some i => if i <? max_index then i + 1 else i
           | None => 0 end in
  Ok (with_sett a (set_setting_sel (a_sett a) (Some i))).

Definition previous_settings_item (a : app) : result app :=
  let* count := get_settings_items_count a in
  let i := match setting_sel (a_sett a) with
           | Some i => if i >? 0 then i - 1 else i
           | None => Z.max 0 (Z.max 0 (count - 1)) end in
  Ok (with_sett a (set_setting_sel (a_sett a) (Some i))).

(* Vec::remove / Vec::insert *)
Definition vec_remove {A} (i : Z) (l : list A) : result (A * list A) :=
  let* x := zindex i l in Ok (x, firstn (Z.to_nat i) l ++ skipn (S (Z.to_nat i)) l).
Definition vec_insert {A} (i : Z) (x : A) (l : list A) : result (list A) :=
  if (0 <=? i) && (i <=? zlen l) then Ok (firstn (Z.to_nat i) l ++ x :: skipn (Z.to_nat i) l)
  else Fault OutOfBounds.

(* Columns::toggle: self.0[index].status = flipped *)
Definition columns_toggle (cols : list (Z * bool)) (i : Z) : result (list (Z * bool)) :=
  let* c := zindex i cols in
  Ok (firstn (Z.to_nat i) cols ++ (fst c, negb (snd c)) :: skipn (S (Z.to_nat i)) cols).
(* Columns::move_down *)
Definition columns_move_down (cols : list (Z * bool)) (i : Z) : result (list (Z * bool)) :=
  if i <? zlen cols then
    let* r := vec_remove i cols in vec_insert (i + 1) (fst r) (snd r)
  else Ok cols.
(* Columns::move_up *)
Definition columns_move_up (cols : list (Z * bool)) (i : Z) : result (list (Z * bool)) :=
  if i >? 0 then
    let* r := vec_remove i cols in
    let* j := sub_w i 1 in vec_insert j (fst r) (snd r)
  else Ok cols.

Definition toggle_column_visibility (a : app) : result app :=
  if settings_tab (a_sett a) =? SETTINGS_TAB_COLUMNS then
    match setting_sel (a_sett a) with
    | Some s => let* c := columns_toggle (columns (a_sett a)) s in Ok (with_sett a (set_columns (a_sett a) c))
    | None => Ok a
    end
  else Ok a.

Definition move_column_down (a : app) : result app :=
  if settings_tab (a_sett a) =? SETTINGS_TAB_COLUMNS then
    let count := zlen (columns (a_sett a)) in
    match setting_sel (a_sett a) with
    | Some s =>
      let* m := sub_w count 1 in
      if s <? m then
        let* c := columns_move_down (columns (a_sett a)) s in
        Ok (with_sett a (set_setting_sel (set_columns (a_sett a) c) (Some (s + 1))))
      else Ok a
    | None => Ok a
    end
  else Ok a.

Definition move_column_up (a : app) : result app :=
  if settings_tab (a_sett a) =? SETTINGS_TAB_COLUMNS then
    match setting_sel (a_sett a) with
    | Some s =>
      if s >? 0 then
        let* c := columns_move_up (columns (a_sett a)) s in
        let* j := sub_w s 1 in
        Ok (with_sett a (set_setting_sel (set_columns (a_sett a) c) (Some j)))
      else Ok a
    | None => Ok a
    end
  else Ok a.

Definition toggle_help (a : app) : app := with_view a (set_show_help (a_view a) (negb (show_help (a_view a)))).
Definition toggle_settings (a : app) : app := with_view a (set_show_settings (a_view a) (negb (show_settings (a_view a)))).

Definition show_settings_columns (i : Z) (a : app) : app :=
  let a1 := with_view a (set_show_settings (a_view a) true) in
  if negb (settings_tab (a_sett a1) =? i)
  then with_sett a1 (set_setting_sel (set_settings_tab (a_sett a1) i) (Some 0))
  else a1.

Definition toggle_hop_details (a : app) : app :=
  let v := a_view a in
  let v1 := if show_details v then set_max_addrs v None else set_max_addrs v (Some 1) in
  with_view a (set_show_details v1 (negb (show_details v))).

Definition toggle_freeze (a : app) : app := with_view a (set_frozen (a_view a) (negb (frozen (a_view a)))).
Definition toggle_chart (a : app) : app := with_view a (set_chart_map (a_view a) (negb (show_chart (a_view a))) false).
Definition toggle_map (a : app) : app := with_view a (set_chart_map (a_view a) false (negb (show_map (a_view a)))).

(* --- privacy (the step functions are in Tui/Privacy.v) --- *)
Definition expand_privacy (a : app) : result app :=
  let* hs := hops_for_flow (data a) (sel_flow (a_sel a)) in
  let* p := expand_privacy_step (zlen hs) (privacy (a_view a)) in
  Ok (with_view a (set_privacy (a_view a) p)).
Definition contract_privacy (a : app) : app :=
  with_view a (set_privacy (a_view a) (contract_privacy_step (privacy (a_view a)))).

Definition toggle_asinfo (a : app) : app :=
  if resolver_system (a_view a) then a else with_view a (set_as_info (a_view a) (negb (as_info (a_view a)))).

(* max_hosts(): hops.iter().map(|h| h.addrs().count()).max().and_then(|i| u8::try_from(i).ok()).filter(|i| *i > 0)
   (zero is no maximum: repaired, F21) *)
Definition max_hosts (a : app) : result (option Z) :=
  let* hs := hops_for_flow (data a) (sel_flow (a_sel a)) in
  match hs with
  | [] => Ok None
  | _ => let m := fold_right (fun h acc => Z.max (hs_addrs h) acc) 0 hs in
         Ok (if (m <=? 255) && (0 <? m) then Some m else None)
  end.

Definition expand_hosts (a : app) : result app :=
  let v := a_view a in
  let* n := match max_addrs v with
            | None => Ok (Some 1)
            | Some i =>
              let* mh := max_hosts a in
              if opt_lt (Some i) mh then let* j := add8 i 1 in Ok (Some j) else Ok (Some i)
            end in
  Ok (with_view a (set_max_addrs v n)).

Definition contract_hosts (a : app) : app :=
  let v := a_view a in
  with_view a (set_max_addrs v (match max_addrs v with
                                | Some i => if i >? 1 then Some (i - 1) else None
                                | None => None end)).

Definition MAX_ZOOM_FACTOR := 16.
Definition zoom_in (a : app) : app :=
  if zoom (a_view a) <? MAX_ZOOM_FACTOR then with_view a (set_zoom (a_view a) (zoom (a_view a) + 1)) else a.
Definition zoom_out (a : app) : app :=
  if zoom (a_view a) >? 1 then with_view a (set_zoom (a_view a) (zoom (a_view a) - 1)) else a.

Definition expand_hosts_max (a : app) : result app :=
  let* mh := max_hosts a in Ok (with_view a (set_max_addrs (a_view a) mh)).
Definition contract_hosts_min (a : app) : app := with_view a (set_max_addrs (a_view a) (Some 1)).

(* list update w[i] := v *)
Fixpoint upd_nth {A} (i : nat) (v : A) (l : list A) : list A :=
  match l, i with
  | [], _ => []
  | _ :: t, O => v :: t
  | x :: t, S i' => x :: upd_nth i' v t
  end.

(* clear_trace_data(): self.trace_info[self.trace_selected].data.clear() *)
Definition clear_trace_data (w : traces) (a : app) : result traces :=
  let* s := tracer_config w a in
  Ok (upd_nth (Z.to_nat (trace_selected (a_sel a))) (clear_shape s) w).

(* ------------------------------------------------------------------ the methods, by name *)

Inductive method :=
| MNextHop | MPreviousHop | MNextTrace | MPreviousTrace | MNextHopAddress | MPreviousHopAddress
| MNextFlow | MPreviousFlow | MNextSettingsTab | MPreviousSettingsTab | MNextSettingsItem
| MPreviousSettingsItem | MToggleColumnVisibility | MMoveColumnDown | MMoveColumnUp | MClear
| MToggleHelp | MToggleSettings | MShowSettingsColumns (i : Z) | MToggleHopDetails | MToggleFreeze
| MToggleChart | MToggleMap | MToggleFlows | MExpandPrivacy | MContractPrivacy | MToggleAsinfo
| MExpandHosts | MContractHosts | MZoomIn | MZoomOut | MExpandHostsMax | MContractHostsMin
| MClearTraceData
| MAddressMode (m : Z).   (* app.tui_config.address_mode = m (written by the dispatch directly) *)

Definition exec_method (m : method) (w : traces) (a : app) : result (traces * app) :=
  let keep (r : result app) := let* a' := r in Ok (w, a') in
  match m with
  | MNextHop => keep (next_hop a)
  | MPreviousHop => keep (previous_hop a)
  | MNextTrace => keep (next_trace w a)
  | MPreviousTrace => keep (previous_trace w a)
  | MNextHopAddress => keep (next_hop_address a)
  | MPreviousHopAddress => keep (previous_hop_address a)
  | MNextFlow => keep (next_flow a)
  | MPreviousFlow => keep (previous_flow a)
  | MNextSettingsTab => keep (next_settings_tab a)
  | MPreviousSettingsTab => keep (previous_settings_tab a)
  | MNextSettingsItem => keep (next_settings_item a)
  | MPreviousSettingsItem => keep (previous_settings_item a)
  | MToggleColumnVisibility => keep (toggle_column_visibility a)
  | MMoveColumnDown => keep (move_column_down a)
  | MMoveColumnUp => keep (move_column_up a)
  | MClear => Ok (w, clear a)
  | MToggleHelp => Ok (w, toggle_help a)
  | MToggleSettings => Ok (w, toggle_settings a)
  | MShowSettingsColumns i => Ok (w, show_settings_columns i a)
  | MToggleHopDetails => Ok (w, toggle_hop_details a)
  | MToggleFreeze => Ok (w, toggle_freeze a)
  | MToggleChart => Ok (w, toggle_chart a)
  | MToggleMap => Ok (w, toggle_map a)
  | MToggleFlows => keep (toggle_flows w a)
  | MExpandPrivacy => keep (expand_privacy a)
  | MContractPrivacy => Ok (w, contract_privacy a)
  | MToggleAsinfo => Ok (w, toggle_asinfo a)
  | MExpandHosts => keep (expand_hosts a)
  | MContractHosts => Ok (w, contract_hosts a)
  | MZoomIn => Ok (w, zoom_in a)
  | MZoomOut => Ok (w, zoom_out a)
  | MExpandHostsMax => keep (expand_hosts_max a)
  | MContractHostsMin => Ok (w, contract_hosts_min a)
  | MClearTraceData => let* w' := clear_trace_data w a in Ok (w', a)
  | MAddressMode m => Ok (w, with_view a (set_addr_mode (a_view a) m))
  end.

(* ------------------------------------------------------------------ run_app: key dispatch *)

(* the bindings of frontend/binding.rs, in the order of the struct *)
Inductive key :=
| KToggleHelp | KToggleHelpAlt | KToggleSettings | KToggleSettingsTab (i : Z)
| KPreviousHop | KNextHop | KPreviousTrace | KNextTrace | KPreviousHopAddress | KNextHopAddress
| KAddressMode (m : Z) | KToggleFreeze | KToggleChart | KToggleMap | KToggleFlows | KExpandPrivacy
| KContractPrivacy | KExpandHosts | KContractHosts | KExpandHostsMax | KContractHostsMin
| KChartZoomIn | KChartZoomOut | KClearTraceData | KClearDnsCache | KClearSelection | KToggleAsInfo
| KToggleHopDetails | KQuit | KQuitPreserveScreen.

(* the method calls run_app makes for a key (frontend.rs 83-235), given the dialog that is open *)
Definition dispatch (k : key) (a : app) : list method :=
  if show_help (a_view a) then
    match k with
    | KToggleHelp | KToggleHelpAlt | KClearSelection | KQuit => [MToggleHelp]
    | KToggleSettings => [MToggleHelp; MToggleSettings]
    | KToggleSettingsTab i => [MToggleHelp; MShowSettingsColumns i]
    | _ => []
    end
  else if show_settings (a_view a) then
    match k with
    | KToggleSettings | KClearSelection | KQuit => [MToggleSettings]
    | KToggleSettingsTab i => [MShowSettingsColumns i]
    | KPreviousTrace => [MPreviousSettingsTab]
    | KNextTrace => [MNextSettingsTab]
    | KNextHop => [MNextSettingsItem]
    | KPreviousHop => [MPreviousSettingsItem]
    | KToggleChart => [MToggleColumnVisibility]
    | KNextHopAddress => [MMoveColumnDown]
    | KPreviousHopAddress => [MMoveColumnUp]
    | _ => []
    end
  else
    match k with
    | KToggleHelp | KToggleHelpAlt => [MToggleHelp]
    | KToggleSettings => [MToggleSettings]
    | KToggleSettingsTab i => [MShowSettingsColumns i]
    | KNextHop => [MNextHop]
    | KPreviousHop => [MPreviousHop]
    | KPreviousTrace => if show_flows (a_sel a) then [MPreviousFlow] else [MPreviousTrace]
    | KNextTrace => if show_flows (a_sel a) then [MNextFlow] else [MNextTrace]
    | KNextHopAddress => [MNextHopAddress]
    | KPreviousHopAddress => [MPreviousHopAddress]
    | KAddressMode m => [MAddressMode m]
    | KToggleFreeze => [MToggleFreeze]
    | KToggleChart => [MToggleChart]
    | KToggleMap => [MToggleMap]
    | KToggleFlows => [MToggleFlows]
    | KExpandPrivacy => [MExpandPrivacy]
    | KContractPrivacy => [MContractPrivacy]
    | KContractHostsMin => [MContractHostsMin]
    | KExpandHostsMax => [MExpandHostsMax]
    | KContractHosts => [MContractHosts]
    | KExpandHosts => [MExpandHosts]
    | KChartZoomIn => [MZoomIn]
    | KChartZoomOut => [MZoomOut]
    | KClearTraceData => [MClear; MClearTraceData]
    | KClearDnsCache => []
    | KClearSelection => [MClear]
    | KToggleAsInfo => [MToggleAsinfo]
    | KToggleHopDetails => [MToggleHopDetails]
    | KQuit | KQuitPreserveScreen => []
    end.

Fixpoint exec_methods (ms : list method) (w : traces) (a : app) : result (traces * app) :=
  match ms with
  | [] => Ok (w, a)
  | m :: t => let* r := exec_method m w a in exec_methods t (fst r) (snd r)
  end.

Definition handle_key (k : key) (w : traces) (a : app) : result (traces * app) :=
  exec_methods (dispatch k a) w a.

(* ------------------------------------------------------------------ drawing: the accessors the views use *)

(* Which State / TuiApp accessors `render::app::render` evaluates for a frame (header.rs, tabs.rs,
   body.rs -> splash | bsod | chart | traces | table, footer.rs -> history + histogram, bar.rs,
   settings.rs `all_settings[settings_tab_selected]`).  The layout and the widgets themselves are
   not modelled: width and height do not appear. *)
Definition draw (w : traces) (a : app) : result unit :=
  let* _ := hops_for_flow (data a) (sel_flow (a_sel a)) in        (* header: hop count, status *)
  let* _ := tracer_config w a in                                  (* header, bar: tracer_config() *)
  let* _ := if sh_error (data a) then Ok tt                       (* body: bsod *)
            else let* _ := hops (data a) in Ok tt in              (* body: hops().is_empty() *)
  let* _ := selected_hop a in                                     (* table rows / chart / map *)
  let* _ := selected_hop_or_target a in                           (* footer: history, histogram *)
  let* _ := if show_settings (a_view a)
            then let* _ := zindex (settings_tab (a_sett a)) settings_tabs in Ok tt
            else Ok tt in
  Ok tt.

(* one iteration of the run_app loop up to the draw *)
Definition frame (w : traces) (a : app) : result app :=
  let* a1 := if frozen (a_view a) then Ok a else prologue w a in
  let* _ := draw w a1 in
  Ok a1.

(* ------------------------------------------------------------------ histories *)

Inductive op :=
| OData (t : Z) (s : shape)      (* tracer t published a round / was cleared / failed: its state now has shape s *)
| OMethod (m : method)           (* a TuiApp method is called *)
| OKey (k : key)                 (* a key event is dispatched *)
| OFrame.                        (* a frame: prologue unless frozen, then draw *)

Definition step (o : op) (w : traces) (a : app) : result (traces * app) :=
  match o with
  | OData t s => Ok (if (0 <=? t) && (t <? zlen w) then upd_nth (Z.to_nat t) s w else w, a)
  | OMethod m => exec_method m w a
  | OKey k => handle_key k w a
  | OFrame => let* a' := frame w a in Ok (w, a')
  end.

Fixpoint run (ops : list op) (w : traces) (a : app) : result (traces * app) :=
  match ops with
  | [] => Ok (w, a)
  | o :: t => let* r := step o w a in run t (fst r) (snd r)
  end.

(* the same, keeping the state after every step (for the correspondence); stops at the first fault *)
Fixpoint run_trace (ops : list op) (w : traces) (a : app) : list (result app) :=
  match ops with
  | [] => []
  | o :: t =>
    match step o w a with
    | Ok r => Ok (snd r) :: run_trace t (fst r) (snd r)
    | Err e => [Err e]
    | Fault f => [Fault f]
    end
  end.

(* ------------------------------------------------------------------ the pinned (unrepaired) functions
   Kept only for the refutation examples of Props/C17.v: what the code did before
   docs/integration/C17_fix_1..4.patch. *)

(* snapshot_trace_data without clamp_selected_flow *)
Definition snapshot_trace_data_pinned (w : traces) (a : app) : result app :=
  let* d := tracer_config w a in Ok (with_data a d).

(* `if selected > hop_count - 1 { select(Some(hop_count - 1)) }` *)
Definition clamp_selected_hop_pinned (a : app) : result app :=
  let* hs := hops_for_flow (data a) (sel_flow (a_sel a)) in
  match table_sel (a_sel a) with
  | Some selected =>
    let* m := sub_w (zlen hs) 1 in
    if selected >? m then Ok (with_sel a (set_table_sel (a_sel a) (Some m))) else Ok a
  | None => Ok a
  end.

(* `if self.selected_hop_address < hop.addr_count() - 1` *)
Definition next_hop_address_pinned (a : app) : result app :=
  let* sh := selected_hop a in
  match sh with
  | Some h => let* m := sub_w (hs_addrs h) 1 in
              if hop_addr (a_sel a) <? m
              then Ok (with_sel a (set_hop_addr (a_sel a) (hop_addr (a_sel a) + 1))) else Ok a
  | None => Ok a
  end.

(* toggle_flows without the clamp *)
Definition toggle_flows_pinned (w : traces) (a : app) : result app :=
  if (zlen w =? 1) && (1 <? max_flows (data a)) then
    if show_flows (a_sel a) then
      Ok (with_sel a (set_hop_addr (set_show_flows (set_sel_flow (a_sel a) 0) false) 0))
    else if flow_count a >? 0 then
      Ok (with_sel a (set_hop_addr (set_show_flows (set_sel_flow (a_sel a) 1) true) 0))
    else Ok a
  else Ok a.

Definition prologue_pinned (w : traces) (a : app) : result app :=
  let* a1 := snapshot_trace_data_pinned w a in
  let* a2 := clamp_selected_hop_pinned a1 in
  update_order_flow_counts a2.

End TuiApp.
