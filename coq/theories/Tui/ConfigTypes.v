(* trippy-tui configuration types: transcription of config.rs (enums, TrippyConfig), config/cmd.rs (Args),
   config/file.rs (ConfigFile and its sections, with their `Default` impls), config/constants.rs and
   trippy_core::defaults, config/theme.rs and config/binding.rs (default tables).

   Conventions: durations are Z nanoseconds; strings are byte lists (opaque to the layering, only
   tui-custom-columns is inspected); an IP address is its octet list (Core.Types.addr);
   enums that are only passed through (AddressMode, AsMode, IcmpExtensionMode, LogFormat, LogSpanEvents)
   are the index of the variant; a theme colour is an opaque colour id, a key binding is the id
   code * 64 + modifier bits (injective in (KeyCode, KeyModifiers)); theme items and commands are
   numbered in the field order of TuiTheme / TuiBindings. *)
From TV Require Import Base.Result Core.Types.
From TV Require Export Packet.IcmpExt.   (* IcmpExtensionParseMode := ExtEnabled | ExtDisabled (trippy_core) *)

Definition str := list Z.

Inductive Mode := MTui | MStream | MPretty | MMarkdown | MCsv | MJson | MDot | MFlows | MSilent.
Inductive ProtocolConfig := PcIcmp | PcUdp | PcTcp.
Inductive AddressFamilyConfig := AfIpv4 | AfIpv6 | AfIpv6ThenIpv4 | AfIpv4ThenIpv6 | AfSystem.
Inductive MultipathStrategyConfig := MsClassic | MsParis | MsDublin.
Inductive GeoIpMode := GeoOff | GeoShort | GeoLong | GeoLocation.
Inductive DnsResolveMethodConfig := DrSystem | DrResolv | DrGoogle | DrCloudflare.
(* trippy_dns *)
Inductive IpAddrFamily := Ipv4Only | Ipv6Only | Ipv6thenIpv4 | Ipv4thenIpv6 | FamSystem.
Inductive ResolveMethod := RmSystem | RmResolv | RmGoogle | RmCloudflare.
(* trippy_core *)
Inductive PrivilegeMode := PmPrivileged | PmUnprivileged.

(* trippy_privilege::Privilege: has / needs elevated privileges on this platform *)
Record PlatformPrivilege := { has_privileges : bool; needs_privileges : bool }.

(* ---------------------------------------------------------------- config/cmd.rs : Args *)
Record Args := {
  a_targets : list str;
  a_mode : option Mode;
  a_unprivileged : bool;
  a_protocol : option ProtocolConfig;
  a_udp : bool; a_tcp : bool; a_icmp : bool;
  a_addr_family : option AddressFamilyConfig;
  a_ipv4 : bool; a_ipv6 : bool;
  a_target_port : option Z;
  a_source_port : option Z;
  a_source_address : option addr;
  a_interface : option str;
  a_min_round_duration : option Z;
  a_max_round_duration : option Z;
  a_grace_duration : option Z;
  a_initial_sequence : option Z;
  a_multipath_strategy : option MultipathStrategyConfig;
  a_max_inflight : option Z;
  a_first_ttl : option Z;
  a_max_ttl : option Z;
  a_packet_size : option Z;
  a_payload_pattern : option Z;
  a_tos : option Z;
  a_icmp_extensions : bool;
  a_read_timeout : option Z;
  a_dns_resolve_method : option DnsResolveMethodConfig;
  a_dns_resolve_all : bool;
  a_dns_timeout : option Z;
  a_dns_ttl : option Z;
  a_dns_lookup_as_info : bool;
  a_max_samples : option Z;
  a_max_flows : option Z;
  a_tui_address_mode : option Z;
  a_tui_as_mode : option Z;
  a_tui_custom_columns : option str;
  a_tui_icmp_extension_mode : option Z;
  a_tui_geoip_mode : option GeoIpMode;
  a_tui_max_addrs : option Z;
  a_tui_preserve_screen : bool;
  a_tui_refresh_rate : option Z;
  a_tui_privacy_max_ttl : option Z;
  a_tui_locale : option str;
  a_tui_timezone : option str;
  a_tui_theme_colors : list (Z * Z);      (* (item, colour) in command-line order *)
  a_tui_key_bindings : list (Z * Z);      (* (command, key) in command-line order *)
  a_report_cycles : option Z;
  a_geoip_mmdb_file : option str;
  a_log_format : option Z;
  a_log_filter : option str;
  a_log_span_events : option Z;
  a_verbose : bool;
}.

(* ---------------------------------------------------------------- config/file.rs *)
Record ConfigTrippy := {
  ct_mode : option Mode;
  ct_unprivileged : option bool;
  ct_log_format : option Z;
  ct_log_filter : option str;
  ct_log_span_events : option Z;
}.

Record ConfigStrategy := {
  cs_protocol : option ProtocolConfig;
  cs_addr_family : option AddressFamilyConfig;
  cs_target_port : option Z;
  cs_source_port : option Z;
  cs_source_address : option addr;
  cs_interface : option str;
  cs_min_round_duration : option Z;
  cs_max_round_duration : option Z;
  cs_initial_sequence : option Z;
  cs_multipath_strategy : option MultipathStrategyConfig;
  cs_grace_duration : option Z;
  cs_max_inflight : option Z;
  cs_first_ttl : option Z;
  cs_max_ttl : option Z;
  cs_packet_size : option Z;
  cs_payload_pattern : option Z;
  cs_tos : option Z;
  cs_icmp_extensions : option bool;
  cs_read_timeout : option Z;
  cs_max_samples : option Z;
  cs_max_flows : option Z;
}.

Record ConfigDns := {
  cd_dns_resolve_method : option DnsResolveMethodConfig;
  cd_dns_resolve_all : option bool;
  cd_dns_lookup_as_info : option bool;
  cd_dns_timeout : option Z;
  cd_dns_ttl : option Z;
}.

Record ConfigReport := { cr_report_cycles : option Z }.

Record ConfigTui := {
  cu_tui_preserve_screen : option bool;
  cu_tui_refresh_rate : option Z;
  cu_tui_privacy_max_ttl : option Z;
  cu_tui_address_mode : option Z;
  cu_tui_as_mode : option Z;
  cu_tui_icmp_extension_mode : option Z;
  cu_tui_geoip_mode : option GeoIpMode;
  cu_tui_max_addrs : option Z;
  cu_geoip_mmdb_file : option str;
  cu_tui_custom_columns : option str;
  cu_tui_locale : option str;
  cu_tui_timezone : option str;
  cu_deprecated_tui_max_samples : option Z;
  cu_deprecated_tui_max_flows : option Z;
}.

(* ConfigThemeColors: one Option<TuiColor> per theme item = a finite map item -> colour *)
Definition ConfigThemeColors := list (Z * Z).
(* ConfigBindings: one Option<TuiKeyBinding> per command + the deprecated `toggle-privacy` key *)
Record ConfigBindings := {
  cb_items : list (Z * Z);
  cb_deprecated_toggle_privacy : option Z;
}.

Record ConfigFile := {
  cf_trippy : option ConfigTrippy;
  cf_strategy : option ConfigStrategy;
  cf_theme_colors : option ConfigThemeColors;
  cf_bindings : option ConfigBindings;
  cf_tui : option ConfigTui;
  cf_dns : option ConfigDns;
  cf_report : option ConfigReport;
}.

(* ---------------------------------------------------------------- constants *)
Definition ms (n : Z) : Z := n * 1000000.

(* config/constants.rs *)
Definition DEFAULT_MODE := MTui.
Definition DEFAULT_DNS_RESOLVE_ALL := false.
Definition DEFAULT_LOG_FORMAT := 1.                 (* LogFormat::Pretty *)
Definition DEFAULT_LOG_SPAN_EVENTS := 0.            (* LogSpanEvents::Off *)
Definition DEFAULT_LOG_FILTER : str :=              (* "trippy=debug" *)
  [116; 114; 105; 112; 112; 121; 61; 100; 101; 98; 117; 103].
Definition DEFAULT_TUI_PRESERVE_SCREEN := false.
Definition DEFAULT_TUI_AS_MODE := 0.                (* AsMode::Asn *)
Definition DEFAULT_CUSTOM_COLUMNS : str :=          (* "holsravbwdt" *)
  [104; 111; 108; 115; 114; 97; 118; 98; 119; 100; 116].
Definition DEFAULT_TUI_ICMP_EXTENSION_MODE := 0.    (* IcmpExtensionMode::Off *)
Definition DEFAULT_TUI_GEOIP_MODE := GeoOff.
Definition DEFAULT_TUI_MAX_ADDRS := 0.
Definition DEFAULT_TUI_ADDRESS_MODE := 1.           (* AddressMode::Host *)
Definition DEFAULT_TUI_REFRESH_RATE := ms 100.
Definition DEFAULT_DNS_RESOLVE_METHOD := DrSystem.
Definition DEFAULT_ADDR_FAMILY := AfIpv4ThenIpv6.
Definition DEFAULT_DNS_LOOKUP_AS_INFO := false.
Definition DEFAULT_DNS_TIMEOUT := ms 5000.
Definition DEFAULT_DNS_TTL := ms 300000.
Definition DEFAULT_REPORT_CYCLES := 10.
Definition TUI_MIN_REFRESH_RATE_MS := ms 50.
Definition TUI_MAX_REFRESH_RATE_MS := ms 1000.
Definition MIN_READ_TIMEOUT_MS := ms 10.
Definition MAX_READ_TIMEOUT_MS := ms 100.
Definition MIN_GRACE_DURATION_MS := ms 10.
Definition MAX_GRACE_DURATION_MS := ms 1000.
Definition MIN_PACKET_SIZE_IPV4 := 28.
Definition MIN_PACKET_SIZE_IPV6 := 48.
Definition MAX_PACKET_SIZE := 1024.

(* trippy_core::defaults *)
Definition DEFAULT_PRIVILEGE_MODE := PmPrivileged.
Definition DEFAULT_STRATEGY_PROTOCOL := Icmp.
Definition DEFAULT_STRATEGY_MULTIPATH := Classic.
Definition DEFAULT_ICMP_EXTENSION_PARSE_MODE := ExtDisabled.
Definition DEFAULT_STRATEGY_MAX_INFLIGHT := 24.
Definition DEFAULT_STRATEGY_FIRST_TTL := 1.
Definition DEFAULT_STRATEGY_MAX_TTL := 64.
Definition DEFAULT_STRATEGY_PACKET_SIZE := 84.
Definition DEFAULT_STRATEGY_PAYLOAD_PATTERN := 0.
Definition DEFAULT_STRATEGY_MIN_ROUND_DURATION := ms 1000.
Definition DEFAULT_STRATEGY_MAX_ROUND_DURATION := ms 1000.
Definition DEFAULT_STRATEGY_INITIAL_SEQUENCE := 33434.
Definition DEFAULT_STRATEGY_TOS := 0.
Definition DEFAULT_STRATEGY_READ_TIMEOUT := ms 10.
Definition DEFAULT_STRATEGY_GRACE_DURATION := ms 100.
Definition DEFAULT_MAX_SAMPLES := 256.
Definition DEFAULT_MAX_FLOWS := 64.

Definition is_unprivileged (m : PrivilegeMode) : bool :=
  match m with PmUnprivileged => true | PmPrivileged => false end.
Definition is_enabled (m : IcmpExtensionParseMode) : bool :=
  match m with ExtEnabled => true | ExtDisabled => false end.

(* impl From<Protocol> for ProtocolConfig, From<MultipathStrategy> for MultipathStrategyConfig *)
Definition ProtocolConfig_from (p : protocol) : ProtocolConfig :=
  match p with Icmp => PcIcmp | Udp => PcUdp | Tcp => PcTcp end.
Definition MultipathStrategyConfig_from (m : mstrategy) : MultipathStrategyConfig :=
  match m with Classic => MsClassic | Paris => MsParis | Dublin => MsDublin end.

(* ---------------------------------------------------------------- theme.rs / binding.rs defaults *)
(* colour ids of the 16 ANSI colours = their position in `enum TuiColor` *)
Definition Black := 0. Definition Red := 1. Definition Green := 2. Definition Yellow := 3.
Definition Blue := 4. Definition Gray := 7. Definition DarkGray := 8. Definition LightGreen := 10.
Definition White := 15.

Definition N_THEME_ITEMS : nat := 34.
(* impl Default for TuiTheme, in field order *)
Definition TuiTheme_default : list Z := [
  Black;      (* bg *)
  Gray;       (* border *)
  Gray;       (* text *)
  Green;      (* tab_text *)
  White;      (* hops_table_header_bg *)
  Black;      (* hops_table_header_text *)
  Gray;       (* hops_table_row_active_text *)
  DarkGray;   (* hops_table_row_inactive_text *)
  Green;      (* hops_chart_selected *)
  Gray;       (* hops_chart_unselected *)
  DarkGray;   (* hops_chart_axis *)
  Green;      (* frequency_chart_bar *)
  Gray;       (* frequency_chart_text *)
  Green;      (* flows_chart_bar_selected *)
  DarkGray;   (* flows_chart_bar_unselected *)
  LightGreen; (* flows_chart_text_current *)
  White;      (* flows_chart_text_non_current *)
  Yellow;     (* samples_chart *)
  Red;        (* samples_chart_lost *)
  Blue;       (* help_dialog_bg *)
  Gray;       (* help_dialog_text *)
  Blue;       (* settings_dialog_bg *)
  Green;      (* settings_tab_text *)
  Black;      (* settings_table_header_text *)
  White;      (* settings_table_header_bg *)
  Gray;       (* settings_table_row_text *)
  White;      (* map_world *)
  Yellow;     (* map_radius *)
  Green;      (* map_selected *)
  Gray;       (* map_info_panel_border *)
  Black;      (* map_info_panel_bg *)
  Gray;       (* map_info_panel_text *)
  White;      (* info_bar_bg *)
  Black       (* info_bar_text *)
].

(* key id: KeyCode::Char(c) = code point, special keys = 2097152 + position in ALL_SPECIAL_KEYS;
   modifier bits as in crossterm (SHIFT 1, CONTROL 2, ALT 4, SUPER 8, HYPER 16, META 32) *)
Definition key (code modifier : Z) : Z := code * 64 + modifier.
Definition special (k : Z) : Z := 2097152 + k.
Definition KEY_LEFT := special 2. Definition KEY_RIGHT := special 3.
Definition KEY_UP := special 4. Definition KEY_DOWN := special 5. Definition KEY_ESC := special 15.
Definition SHIFT := 1. Definition CONTROL := 2.

Definition N_BINDING_ITEMS : nat := 38.
(* impl Default for TuiBindings, in field order *)
Definition TuiBindings_default : list Z := [
  key 104 0;          (* toggle_help 'h' *)
  key 63 0;           (* toggle_help_alt '?' *)
  key 115 0;          (* toggle_settings 's' *)
  key 49 0;           (* toggle_settings_tui '1' *)
  key 50 0;           (* toggle_settings_trace '2' *)
  key 51 0;           (* toggle_settings_dns '3' *)
  key 52 0;           (* toggle_settings_geoip '4' *)
  key 53 0;           (* toggle_settings_bindings '5' *)
  key 54 0;           (* toggle_settings_theme '6' *)
  key 55 0;           (* toggle_settings_columns '7' *)
  key KEY_UP 0;       (* previous_hop *)
  key KEY_DOWN 0;     (* next_hop *)
  key KEY_LEFT 0;     (* previous_trace *)
  key KEY_RIGHT 0;    (* next_trace *)
  key 44 0;           (* previous_hop_address ',' *)
  key 46 0;           (* next_hop_address '.' *)
  key 105 0;          (* address_mode_ip 'i' *)
  key 110 0;          (* address_mode_host 'n' *)
  key 98 0;           (* address_mode_both 'b' *)
  key 102 CONTROL;    (* toggle_freeze ctrl+f *)
  key 99 0;           (* toggle_chart 'c' *)
  key 109 0;          (* toggle_map 'm' *)
  key 102 0;          (* toggle_flows 'f' *)
  key 112 0;          (* expand_privacy 'p' *)
  key 111 0;          (* contract_privacy 'o' *)
  key 93 0;           (* expand_hosts ']' *)
  key 91 0;           (* contract_hosts '[' *)
  key 125 0;          (* expand_hosts_max '}' *)
  key 123 0;          (* contract_hosts_min '{' *)
  key 61 0;           (* chart_zoom_in '=' *)
  key 45 0;           (* chart_zoom_out '-' *)
  key 114 CONTROL;    (* clear_trace_data ctrl+r *)
  key 107 CONTROL;    (* clear_dns_cache ctrl+k *)
  key KEY_ESC 0;      (* clear_selection *)
  key 122 0;          (* toggle_as_info 'z' *)
  key 100 0;          (* toggle_hop_details 'd' *)
  key 113 0;          (* quit 'q' *)
  key 113 SHIFT       (* quit_preserve_screen shift+q *)
].

(* i-th item paired with its index: the association-list view of a full table *)
Fixpoint enumerate_from {A} (i : Z) (l : list A) : list (Z * A) :=
  match l with [] => [] | x :: t => (i, x) :: enumerate_from (i + 1) t end.
Definition enumerate {A} (l : list A) := enumerate_from 0 l.

(* ---------------------------------------------------------------- impl Default for the file sections *)
Definition ConfigTrippy_default : ConfigTrippy := {|
  ct_mode := Some DEFAULT_MODE;
  ct_unprivileged := Some (is_unprivileged DEFAULT_PRIVILEGE_MODE);
  ct_log_format := Some DEFAULT_LOG_FORMAT;
  ct_log_filter := Some DEFAULT_LOG_FILTER;
  ct_log_span_events := Some DEFAULT_LOG_SPAN_EVENTS;
|}.

Definition ConfigStrategy_default : ConfigStrategy := {|
  cs_protocol := Some (ProtocolConfig_from DEFAULT_STRATEGY_PROTOCOL);
  cs_addr_family := Some DEFAULT_ADDR_FAMILY;
  cs_target_port := None;
  cs_source_port := None;
  cs_source_address := None;
  cs_interface := None;
  cs_min_round_duration := Some DEFAULT_STRATEGY_MIN_ROUND_DURATION;
  cs_max_round_duration := Some DEFAULT_STRATEGY_MAX_ROUND_DURATION;
  cs_initial_sequence := Some DEFAULT_STRATEGY_INITIAL_SEQUENCE;
  cs_multipath_strategy := Some (MultipathStrategyConfig_from DEFAULT_STRATEGY_MULTIPATH);
  cs_grace_duration := Some DEFAULT_STRATEGY_GRACE_DURATION;
  cs_max_inflight := Some DEFAULT_STRATEGY_MAX_INFLIGHT;
  cs_first_ttl := Some DEFAULT_STRATEGY_FIRST_TTL;
  cs_max_ttl := Some DEFAULT_STRATEGY_MAX_TTL;
  cs_packet_size := Some DEFAULT_STRATEGY_PACKET_SIZE;
  cs_payload_pattern := Some DEFAULT_STRATEGY_PAYLOAD_PATTERN;
  cs_tos := Some DEFAULT_STRATEGY_TOS;
  cs_icmp_extensions := Some (is_enabled DEFAULT_ICMP_EXTENSION_PARSE_MODE);
  cs_read_timeout := Some DEFAULT_STRATEGY_READ_TIMEOUT;
  cs_max_samples := Some DEFAULT_MAX_SAMPLES;
  cs_max_flows := Some DEFAULT_MAX_FLOWS;
|}.

Definition ConfigDns_default : ConfigDns := {|
  cd_dns_resolve_method := Some DEFAULT_DNS_RESOLVE_METHOD;
  cd_dns_resolve_all := Some DEFAULT_DNS_RESOLVE_ALL;
  cd_dns_lookup_as_info := Some DEFAULT_DNS_LOOKUP_AS_INFO;
  cd_dns_timeout := Some DEFAULT_DNS_TIMEOUT;
  cd_dns_ttl := Some DEFAULT_DNS_TTL;
|}.

Definition ConfigReport_default : ConfigReport := {| cr_report_cycles := Some DEFAULT_REPORT_CYCLES |}.

Definition ConfigTui_default : ConfigTui := {|
  cu_tui_preserve_screen := Some DEFAULT_TUI_PRESERVE_SCREEN;
  cu_tui_refresh_rate := Some DEFAULT_TUI_REFRESH_RATE;
  cu_tui_privacy_max_ttl := None;
  cu_tui_address_mode := Some DEFAULT_TUI_ADDRESS_MODE;
  cu_tui_as_mode := Some DEFAULT_TUI_AS_MODE;
  cu_tui_icmp_extension_mode := Some DEFAULT_TUI_ICMP_EXTENSION_MODE;
  cu_tui_geoip_mode := Some DEFAULT_TUI_GEOIP_MODE;
  cu_tui_max_addrs := Some DEFAULT_TUI_MAX_ADDRS;
  cu_geoip_mmdb_file := None;
  cu_tui_custom_columns := Some DEFAULT_CUSTOM_COLUMNS;
  cu_tui_locale := None;
  cu_tui_timezone := None;
  cu_deprecated_tui_max_samples := None;
  cu_deprecated_tui_max_flows := None;
|}.

Definition ConfigThemeColors_default : ConfigThemeColors := enumerate TuiTheme_default.
Definition ConfigBindings_default : ConfigBindings := {|
  cb_items := enumerate TuiBindings_default;
  cb_deprecated_toggle_privacy := None;
|}.

(* impl Default for ConfigFile (used when no configuration file exists) *)
Definition ConfigFile_default : ConfigFile := {|
  cf_trippy := Some ConfigTrippy_default;
  cf_strategy := Some ConfigStrategy_default;
  cf_theme_colors := Some ConfigThemeColors_default;
  cf_bindings := Some ConfigBindings_default;
  cf_tui := Some ConfigTui_default;
  cf_dns := Some ConfigDns_default;
  cf_report := Some ConfigReport_default;
|}.

Definition unwrap_or {A} (o : option A) (d : A) : A := match o with Some x => x | None => d end.

(* ---------------------------------------------------------------- TrippyConfig *)
Record TrippyConfig := {
  tc_targets : list str;
  tc_protocol : protocol;
  tc_addr_family : IpAddrFamily;
  tc_first_ttl : Z;
  tc_max_ttl : Z;
  tc_min_round_duration : Z;
  tc_max_round_duration : Z;
  tc_grace_duration : Z;
  tc_max_inflight : Z;
  tc_initial_sequence : Z;
  tc_tos : Z;
  tc_icmp_extension_parse_mode : IcmpExtensionParseMode;
  tc_read_timeout : Z;
  tc_packet_size : Z;
  tc_payload_pattern : Z;
  tc_source_addr : option addr;
  tc_interface : option str;
  tc_multipath_strategy : mstrategy;
  tc_port_direction : portdir;
  tc_dns_timeout : Z;
  tc_dns_ttl : Z;
  tc_dns_resolve_method : ResolveMethod;
  tc_dns_lookup_as_info : bool;
  tc_max_samples : Z;
  tc_max_flows : Z;
  tc_tui_preserve_screen : bool;
  tc_tui_refresh_rate : Z;
  tc_tui_privacy_max_ttl : option Z;
  tc_tui_address_mode : Z;
  tc_tui_as_mode : Z;
  tc_tui_custom_columns : list Z;        (* TuiColumns: the column codes *)
  tc_tui_icmp_extension_mode : Z;
  tc_tui_geoip_mode : GeoIpMode;
  tc_tui_max_addrs : option Z;
  tc_tui_locale : option str;
  tc_tui_timezone : option str;          (* the name of the parsed chrono_tz::Tz *)
  tc_tui_theme : list Z;                 (* TuiTheme: colour per item *)
  tc_tui_bindings : list Z;              (* TuiBindings: key per command *)
  tc_mode : Mode;
  tc_privilege_mode : PrivilegeMode;
  tc_dns_resolve_all : bool;
  tc_report_cycles : Z;
  tc_geoip_mmdb_file : option str;
  tc_max_rounds : option Z;
  tc_verbose : bool;
  tc_log_format : Z;
  tc_log_filter : str;
  tc_log_span_events : Z;
}.

(* TrippyConfig::max_flows(): restricted to 1 for the classic strategy *)
Definition TrippyConfig_max_flows (c : TrippyConfig) : Z :=
  match tc_multipath_strategy c with Classic => 1 | _ => tc_max_flows c end.

(* anyhow errors of build_config, one tag per `Err(anyhow!(..))` site / validator *)
Inductive cfg_error :=
| EDeprecated | EColumnCode | ETimezone | ESourcePort | EPorts | EPrivilege | ELogging | EStrategy
| EProtocolStrategy | EMulti | EFlows | ETtl | EMaxInflight | EReadTimeout | ERoundDuration
| EGraceDuration | EPacketSize | ERefreshRate | EReportCycles | EDns | EGeoip | ECustomColumns | EBindings.

Inductive cres (A : Type) := COk (a : A) | CErr (e : cfg_error).
Arguments COk {A} a.
Arguments CErr {A} e.
Definition cbind {A B} (r : cres A) (f : A -> cres B) : cres B :=
  match r with COk a => f a | CErr e => CErr e end.
Notation "'let+' x ':=' r 'in' k" := (cbind r (fun x => k))
  (at level 200, x pattern, r at level 100, k at level 200).
(* `validate_x(..)?` : a boolean validator and the error it raises *)
Definition check (b : bool) (e : cfg_error) : cres unit := if b then COk tt else CErr e.
