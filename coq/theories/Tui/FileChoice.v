(* Tui/FileChoice.v - which configuration file TrippyConfig::from (crates/trippy-tui/src/config.rs) hands to build_config:

       let cfg_file = if let Some(cfg) = &args.config_file { file::read_config_file(cfg)? }
                      else { file::read_default_config_file()?.unwrap_or_default() };

   read_default_config_file (config/file.rs) tries, in this order, trippy.toml and .trippy.toml in the current directory,
   the home directory, the configuration directory and its trippy/ subdirectory, and takes the first that exists.
   A file is abstract here (type A); a location that holds no file is None.  Read / parse errors are outside this
   definition (they end the program). *)
From Coq Require Import List.
Import ListNotations.

Fixpoint first_present {A : Type} (locations : list (option A)) : option A :=
  match locations with
  | [] => None
  | Some f :: _ => Some f
  | None :: rest => first_present rest
  end.

Definition choose_file {A : Type} (dflt : A) (named : option A) (locations : list (option A)) : A :=
  match named with
  | Some f => f
  | None => match first_present locations with Some f => f | None => dflt end
  end.

(* the index of the chosen source, for the correspondence: 0 = the file named on the command line,
   i+1 = default location i, length+1 = the built-in default *)
Fixpoint first_present_index (locations : list bool) (i : nat) : nat :=
  match locations with
  | [] => i
  | true :: _ => i
  | false :: rest => first_present_index rest (S i)
  end.
Definition chosen_source (named : bool) (locations : list bool) : nat :=
  if named then 0 else S (first_present_index locations 0).
