(* From a state of the application model (Tui/App.v) to what the views (Tui/Views.v) draw: the piece that
   makes Views.v part of the EXTRACTED model.  The correspondence (harness mode c18, ocaml/d_tui.ml)
   calls `frame_body` after every frame op of a scenario, once per reference screen the harness draws
   of the real TuiApp, and compares the text of every Host cell / of the map's info panel.

   What Tui/App.v does not keep is supplied from outside (`oracle`, `hops`, `target`):
     - the answers of the resolver and of the GeoIP lookup, the GeoIP display mode, the order
       `sorted_unstable_by_key(count).rev()` puts a hop's addresses in;
     - the hops of the flow on display with their addresses and counts, and the target hop.
   The hop data must fit the shape the application model keeps (same ttls, same number of addresses
   per hop): otherwise `frame_body` refuses (`Err EOther`).

   A reference screen may override display settings (`draw`): the harness sets the same fields of the
   real TuiApp before it draws; a field left at None is taken from the application state, so that what
   the key commands did to it (address mode, AS info, max_addrs, hop details, selection, privacy) is
   part of what is compared. *)
From TV Require Import Base.Result Tui.Privacy Tui.App Tui.Views.
Import TuiPrivacy.

Module TuiFrames.
Import TuiViews.

Record oracle := mk_oracle {
  o_geo_mode : Z;                          (* tui_config.geoip_mode: 0 Off, 1 Short, 2 Long, 3 Location *)
  o_mmdb : bool;                           (* geoip_mmdb_file.is_some() *)
  o_dns : bool -> Z -> dns_entry;
  o_geo : Z -> option (Z * bool);
  o_order : list (Z * Z) -> list (Z * Z)
}.

Record draw := mk_draw {
  d_map : bool;                            (* the map is shown instead of the table (chart, help, settings closed) *)
  d_addr_mode : option Z;
  d_as_info : option bool;
  d_max_addrs : option (option Z);
  d_details : option bool;
  d_sel : option (option Z)                (* Some s: table_state.select(s), selected_hop_address = 0 *)
}.

Definition or_else {A} (o : option A) (d : A) : A := match o with Some x => x | None => d end.

Definition cfg_of_app (a : TuiApp.app) (o : oracle) (d : draw) : vcfg :=
  let v := TuiApp.a_view a in
  mk_vcfg (TuiApp.privacy v) (or_else (d_max_addrs d) (TuiApp.max_addrs v)) (or_else (d_addr_mode d) (TuiApp.addr_mode v))
          (or_else (d_as_info d) (TuiApp.as_info v)) (o_geo_mode o) (o_mmdb o) (o_dns o) (o_geo o) (o_order o).

(* the hop data fits the shape: same ttl, same number of addresses *)
Definition hop_agrees (s : TuiApp.hop_shape) (h : vhop) : bool :=
  (TuiApp.hs_ttl s =? h_ttl h) && (TuiApp.hs_addrs s =? zlen (h_info h)).

Fixpoint hops_agree (ss : list TuiApp.hop_shape) (hs : list vhop) : bool :=
  match ss, hs with
  | [], [] => true
  | s :: ss', h :: hs' => hop_agrees s h && hops_agree ss' hs'
  | _, _ => false
  end.

Definition vstate_of_app (a : TuiApp.app) (ntraces : Z) (o : oracle) (d : draw) (hops : list vhop) (target : vhop) : result vstate :=
  let s := TuiApp.a_sel a in
  let v := TuiApp.a_view a in
  let* shape_hops := TuiApp.hops_for_flow (TuiApp.data a) (TuiApp.sel_flow s) in
  let* all_hops := TuiApp.hops (TuiApp.data a) in
  if negb (hops_agree shape_hops hops) then Err EOther
  else Ok (mk_vstate (cfg_of_app a o d) [COL_HOST] hops
             (or_else (d_sel d) (TuiApp.table_sel s))
             (match d_sel d with Some _ => 0 | None => TuiApp.hop_addr s end)
             target
             (or_else (d_details d) (TuiApp.show_details v))
             false (d_map d) false false (TuiApp.show_flows s)
             (TuiApp.sh_error (TuiApp.data a))
             (match all_hops with [] => true | _ => false end)
             ntraces (TuiApp.trace_selected s) (TuiApp.flow_counts s)).

(* the body of one reference screen *)
Definition frame_body (a : TuiApp.app) (ntraces : Z) (o : oracle) (d : draw) (hops : list vhop) (target : vhop) : result body :=
  let* st := vstate_of_app a ntraces o d hops target in
  body_struct st.

(* the "Target: source -> destination" line of the header (drawn in every state of the application) *)
Definition frame_target_line (a : TuiApp.app) : list frag :=
  target_line (TuiApp.privacy (TuiApp.a_view a)) (TuiApp.trace_selected (TuiApp.a_sel a)).

End TuiFrames.
