(* trippy-tui config.rs: cfg_layer / cfg_layer_opt / cfg_layer_bool_flag and TrippyConfig::build_config;
   theme.rs / binding.rs: the item-by-item layering of colours and key bindings.
   `layer` is the block of `let x = cfg_layer(args.x, cfg_file_section.x, DEFAULT_X);` statements at the top of
   build_config (one record field per `let`), `build_config` the rest of the function in source order. *)
From TV Require Import Base.Result Core.Types Core.TracerState Tui.ConfigTypes Tui.Validate.

(* fn cfg_layer<T>(fst: Option<T>, snd: Option<T>, def: T) -> T *)
Definition cfg_layer {T} (fst snd : option T) (def : T) : T :=
  match fst, snd with
  | Some val, _ => val
  | None, Some val => val
  | None, None => def
  end.

(* fn cfg_layer_opt<T>(fst: Option<T>, snd: Option<T>) -> Option<T> *)
Definition cfg_layer_opt {T} (fst snd : option T) : option T :=
  match fst, snd with
  | Some val, _ => Some val
  | None, Some val => Some val
  | None, None => None
  end.

(* const fn cfg_layer_bool_flag(fst: bool, snd: Option<bool>, default: bool) -> bool *)
Definition cfg_layer_bool_flag (fst : bool) (snd : option bool) (default : bool) : bool :=
  match fst, snd with
  | true, _ => true
  | false, Some val => val
  | false, None => default
  end.

(* ---- theme.rs / binding.rs ---- *)
(* HashMap::get after `into_iter().collect::<HashMap<_,_>>()`: a later entry for the same key replaces an earlier one *)
Fixpoint map_get (k : Z) (m : list (Z * Z)) : option Z :=
  match m with
  | [] => None
  | (k', v) :: t => match map_get k t with Some v' => Some v' | None => if k =? k' then Some v else None end
  end.
(* one field of `impl From<(HashMap<Item, V>, ConfigSection)>`:
   *map.get(&Item).or(cfg.item.as_ref()).unwrap_or(&Self::default().item) *)
Definition layer_item (cmd_items cfg : list (Z * Z)) (def : Z) (item : Z) : Z :=
  match map_get item cmd_items with
  | Some v => v
  | None => match map_get item cfg with Some v => v | None => def end
  end.
Fixpoint layer_items_from (i : Z) (cmd_items cfg : list (Z * Z)) (defaults : list Z) : list Z :=
  match defaults with
  | [] => []
  | d :: t => layer_item cmd_items cfg d i :: layer_items_from (i + 1) cmd_items cfg t
  end.
(* TuiTheme::from((tui_theme_items, cfg_file_tui_theme_colors)) *)
Definition TuiTheme_from (color_map : list (Z * Z)) (cfg : ConfigThemeColors) : list Z :=
  layer_items_from 0 color_map cfg TuiTheme_default.
(* TuiBindings::from((tui_binding_items, cfg_file_tui_bindings)) *)
Definition TuiBindings_from (cmd_items : list (Z * Z)) (cfg : ConfigBindings) : list Z :=
  layer_items_from 0 cmd_items (cb_items cfg) TuiBindings_default.

(* ---- the layered values (the `let` block of build_config) ---- *)
Record Layered := {
  l_mode : Mode;
  l_unprivileged : bool;
  l_dns_resolve_all : bool;
  l_log_format : Z;
  l_log_filter : str;
  l_log_span_events : Z;
  l_protocol : ProtocolConfig;
  l_addr_family : AddressFamilyConfig;
  l_target_port : option Z;
  l_source_port : option Z;
  l_source_address : option addr;
  l_interface : option str;
  l_min_round_duration : Z;
  l_max_round_duration : Z;
  l_initial_sequence : Z;
  l_multipath_strategy : MultipathStrategyConfig;
  l_grace_duration : Z;
  l_max_inflight : Z;
  l_first_ttl : Z;
  l_max_ttl : Z;
  l_packet_size : Z;
  l_payload_pattern : Z;
  l_tos : Z;
  l_icmp_extensions : bool;
  l_read_timeout : Z;
  l_max_samples : Z;
  l_max_flows : Z;
  l_tui_preserve_screen : bool;
  l_tui_refresh_rate : Z;
  l_tui_privacy_max_ttl : option Z;
  l_tui_address_mode : Z;
  l_tui_as_mode : Z;
  l_tui_custom_columns : str;
  l_tui_icmp_extension_mode : Z;
  l_tui_geoip_mode : GeoIpMode;
  l_tui_max_addrs : option Z;
  l_dns_resolve_method : DnsResolveMethodConfig;
  l_tui_locale : option str;
  l_tui_timezone : option str;
  l_dns_lookup_as_info : bool;
  l_dns_timeout : Z;
  l_dns_ttl : Z;
  l_report_cycles : Z;
  l_geoip_mmdb_file : option str;
}.

Definition layer (args : Args) (cfg_file_trace : ConfigTrippy) (cfg_file_strategy : ConfigStrategy)
    (cfg_file_tui : ConfigTui) (cfg_file_dns : ConfigDns) (cfg_file_report : ConfigReport) : Layered := {|
  l_mode := cfg_layer (a_mode args) (ct_mode cfg_file_trace) DEFAULT_MODE;
  l_unprivileged := cfg_layer_bool_flag (a_unprivileged args) (ct_unprivileged cfg_file_trace)
                      (is_unprivileged DEFAULT_PRIVILEGE_MODE);
  l_dns_resolve_all := cfg_layer_bool_flag (a_dns_resolve_all args) (cd_dns_resolve_all cfg_file_dns)
                      DEFAULT_DNS_RESOLVE_ALL;
  l_log_format := cfg_layer (a_log_format args) (ct_log_format cfg_file_trace) DEFAULT_LOG_FORMAT;
  l_log_filter := cfg_layer (a_log_filter args) (ct_log_filter cfg_file_trace) DEFAULT_LOG_FILTER;
  l_log_span_events := cfg_layer (a_log_span_events args) (ct_log_span_events cfg_file_trace) DEFAULT_LOG_SPAN_EVENTS;
  l_protocol := cfg_layer (a_protocol args) (cs_protocol cfg_file_strategy)
                      (ProtocolConfig_from DEFAULT_STRATEGY_PROTOCOL);
  l_addr_family := cfg_layer (a_addr_family args) (cs_addr_family cfg_file_strategy) DEFAULT_ADDR_FAMILY;
  l_target_port := cfg_layer_opt (a_target_port args) (cs_target_port cfg_file_strategy);
  l_source_port := cfg_layer_opt (a_source_port args) (cs_source_port cfg_file_strategy);
  l_source_address := cfg_layer_opt (a_source_address args) (cs_source_address cfg_file_strategy);
  l_interface := cfg_layer_opt (a_interface args) (cs_interface cfg_file_strategy);
  l_min_round_duration := cfg_layer (a_min_round_duration args) (cs_min_round_duration cfg_file_strategy)
                      DEFAULT_STRATEGY_MIN_ROUND_DURATION;
  l_max_round_duration := cfg_layer (a_max_round_duration args) (cs_max_round_duration cfg_file_strategy)
                      DEFAULT_STRATEGY_MAX_ROUND_DURATION;
  l_initial_sequence := cfg_layer (a_initial_sequence args) (cs_initial_sequence cfg_file_strategy)
                      DEFAULT_STRATEGY_INITIAL_SEQUENCE;
  l_multipath_strategy := cfg_layer (a_multipath_strategy args) (cs_multipath_strategy cfg_file_strategy)
                      (MultipathStrategyConfig_from DEFAULT_STRATEGY_MULTIPATH);
  l_grace_duration := cfg_layer (a_grace_duration args) (cs_grace_duration cfg_file_strategy)
                      DEFAULT_STRATEGY_GRACE_DURATION;
  l_max_inflight := cfg_layer (a_max_inflight args) (cs_max_inflight cfg_file_strategy) DEFAULT_STRATEGY_MAX_INFLIGHT;
  l_first_ttl := cfg_layer (a_first_ttl args) (cs_first_ttl cfg_file_strategy) DEFAULT_STRATEGY_FIRST_TTL;
  l_max_ttl := cfg_layer (a_max_ttl args) (cs_max_ttl cfg_file_strategy) DEFAULT_STRATEGY_MAX_TTL;
  l_packet_size := cfg_layer (a_packet_size args) (cs_packet_size cfg_file_strategy) DEFAULT_STRATEGY_PACKET_SIZE;
  l_payload_pattern := cfg_layer (a_payload_pattern args) (cs_payload_pattern cfg_file_strategy)
                      DEFAULT_STRATEGY_PAYLOAD_PATTERN;
  l_tos := cfg_layer (a_tos args) (cs_tos cfg_file_strategy) DEFAULT_STRATEGY_TOS;
  l_icmp_extensions := cfg_layer_bool_flag (a_icmp_extensions args) (cs_icmp_extensions cfg_file_strategy)
                      (is_enabled DEFAULT_ICMP_EXTENSION_PARSE_MODE);
  l_read_timeout := cfg_layer (a_read_timeout args) (cs_read_timeout cfg_file_strategy) DEFAULT_STRATEGY_READ_TIMEOUT;
  l_max_samples := cfg_layer (a_max_samples args) (cs_max_samples cfg_file_strategy) DEFAULT_MAX_SAMPLES;
  l_max_flows := cfg_layer (a_max_flows args) (cs_max_flows cfg_file_strategy) DEFAULT_MAX_FLOWS;
  l_tui_preserve_screen := cfg_layer_bool_flag (a_tui_preserve_screen args) (cu_tui_preserve_screen cfg_file_tui)
                      DEFAULT_TUI_PRESERVE_SCREEN;
  l_tui_refresh_rate := cfg_layer (a_tui_refresh_rate args) (cu_tui_refresh_rate cfg_file_tui) DEFAULT_TUI_REFRESH_RATE;
  l_tui_privacy_max_ttl := cfg_layer_opt (a_tui_privacy_max_ttl args) (cu_tui_privacy_max_ttl cfg_file_tui);
  l_tui_address_mode := cfg_layer (a_tui_address_mode args) (cu_tui_address_mode cfg_file_tui) DEFAULT_TUI_ADDRESS_MODE;
  l_tui_as_mode := cfg_layer (a_tui_as_mode args) (cu_tui_as_mode cfg_file_tui) DEFAULT_TUI_AS_MODE;
  l_tui_custom_columns := cfg_layer (a_tui_custom_columns args) (cu_tui_custom_columns cfg_file_tui)
                      DEFAULT_CUSTOM_COLUMNS;
  l_tui_icmp_extension_mode := cfg_layer (a_tui_icmp_extension_mode args) (cu_tui_icmp_extension_mode cfg_file_tui)
                      DEFAULT_TUI_ICMP_EXTENSION_MODE;
  l_tui_geoip_mode := cfg_layer (a_tui_geoip_mode args) (cu_tui_geoip_mode cfg_file_tui) DEFAULT_TUI_GEOIP_MODE;
  l_tui_max_addrs := cfg_layer_opt (a_tui_max_addrs args) (cu_tui_max_addrs cfg_file_tui);
  l_dns_resolve_method := cfg_layer (a_dns_resolve_method args) (cd_dns_resolve_method cfg_file_dns)
                      DEFAULT_DNS_RESOLVE_METHOD;
  l_tui_locale := cfg_layer_opt (a_tui_locale args) (cu_tui_locale cfg_file_tui);
  l_tui_timezone := cfg_layer_opt (a_tui_timezone args) (cu_tui_timezone cfg_file_tui);
  l_dns_lookup_as_info := cfg_layer_bool_flag (a_dns_lookup_as_info args) (cd_dns_lookup_as_info cfg_file_dns)
                      DEFAULT_DNS_LOOKUP_AS_INFO;
  l_dns_timeout := cfg_layer (a_dns_timeout args) (cd_dns_timeout cfg_file_dns) DEFAULT_DNS_TIMEOUT;
  l_dns_ttl := cfg_layer (a_dns_ttl args) (cd_dns_ttl cfg_file_dns) DEFAULT_DNS_TTL;
  l_report_cycles := cfg_layer (a_report_cycles args) (cr_report_cycles cfg_file_report) DEFAULT_REPORT_CYCLES;
  l_geoip_mmdb_file := cfg_layer_opt (a_geoip_mmdb_file args) (cu_geoip_mmdb_file cfg_file_tui);
|}.

(* `cfg_file.section.unwrap_or_default()` for the five scalar sections *)
Definition layer_cfg (args : Args) (cfg_file : ConfigFile) : Layered :=
  layer args
    (unwrap_or (cf_trippy cfg_file) ConfigTrippy_default)
    (unwrap_or (cf_strategy cfg_file) ConfigStrategy_default)
    (unwrap_or (cf_tui cfg_file) ConfigTui_default)
    (unwrap_or (cf_dns cfg_file) ConfigDns_default)
    (unwrap_or (cf_report cfg_file) ConfigReport_default).

(* ---- the derived values ---- *)
(* match (args.udp, args.tcp, args.icmp, protocol) *)
Definition derive_protocol (udp tcp icmp : bool) (protocol_cfg : ProtocolConfig) : protocol :=
  match udp, tcp, icmp, protocol_cfg with
  | false, false, false, PcUdp | true, _, _, _ => Udp
  | false, false, false, PcTcp | _, true, _, _ => Tcp
  | false, false, false, PcIcmp | _, _, true, _ => Icmp
  end.

(* match (args.ipv4, args.ipv6, addr_family_cfg, multipath_strategy_cfg) *)
Definition derive_addr_family (ipv4 ipv6 : bool) (addr_family_cfg : AddressFamilyConfig) : IpAddrFamily :=
  match ipv4, ipv6, addr_family_cfg with
  | false, false, AfIpv4 => Ipv4Only
  | false, false, AfIpv6 => Ipv6Only
  | false, false, AfIpv4ThenIpv6 => Ipv4thenIpv6
  | false, false, AfIpv6ThenIpv4 => Ipv6thenIpv4
  | false, false, AfSystem => FamSystem
  | true, _, _ => Ipv4Only
  | _, true, _ => Ipv6Only
  end.

Definition derive_multipath_strategy (c : MultipathStrategyConfig) : mstrategy :=
  match c with MsClassic => Classic | MsParis => Paris | MsDublin => Dublin end.

(* match (protocol, source_port, target_port, multipath_strategy_cfg) *)
Definition derive_port_direction (protocol : protocol) (source_port target_port : option Z)
    (multipath_strategy_cfg : MultipathStrategyConfig) (pid : Z) : cres portdir :=
  match protocol, source_port, target_port, multipath_strategy_cfg with
  | Icmp, _, _, _ => COk PdNone
  | Udp, None, None, _ => COk (FixedSrc (Z.max pid 1024))
  | Udp, Some src, None, _ =>
      let+ _ := check (validate_source_port src) ESourcePort in COk (FixedSrc src)
  | Tcp, None, None, _ => COk (FixedDest 80)
  | Tcp, Some src, None, _ => COk (FixedSrc src)
  | _, None, Some dest, _ => COk (FixedDest dest)
  | Udp, Some src, Some dest, MsDublin | Udp, Some src, Some dest, MsParis =>
      let+ _ := check (validate_source_port src) ESourcePort in COk (FixedBoth src dest)
  | _, Some _, Some _, _ => CErr EPorts
  end.

Definition derive_dns_resolve_method (c : DnsResolveMethodConfig) : ResolveMethod :=
  match c with DrSystem => RmSystem | DrResolv => RmResolv | DrGoogle => RmGoogle | DrCloudflare => RmCloudflare end.

Definition derive_max_rounds (mode : Mode) (report_cycles : Z) : option Z :=
  match mode with
  | MStream | MTui => None
  | MPretty | MMarkdown | MCsv | MJson | MDot | MFlows | MSilent => Some report_cycles
  end.

Definition derive_tui_max_addrs (tui_max_addrs : option Z) : option Z :=
  match tui_max_addrs with
  | Some n => if 0 <? n then Some n else None
  | None => None
  end.

(* TrippyConfig::build_config(args, cfg_file, privilege, pid).
   `tz_valid` stands for chrono_tz::Tz::from_str(..).is_ok() (an external table, recorded by the harness). *)
Definition build_config (tz_valid : str -> bool) (args : Args) (cfg_file : ConfigFile)
    (privilege : PlatformPrivilege) (pid : Z) : cres TrippyConfig :=
  let cfg_file_tui_bindings := unwrap_or (cf_bindings cfg_file) ConfigBindings_default in
  let cfg_file_tui_theme_colors := unwrap_or (cf_theme_colors cfg_file) ConfigThemeColors_default in
  let cfg_file_tui := unwrap_or (cf_tui cfg_file) ConfigTui_default in
  let+ _ := check (validate_deprecated cfg_file_tui cfg_file_tui_bindings) EDeprecated in
  let L := layer_cfg args cfg_file in
  let privilege_mode := if l_unprivileged L then PmUnprivileged else PmPrivileged in
  let verbose := a_verbose args in
  let+ tui_custom_columns :=
    match TuiColumns_try_from (l_tui_custom_columns L) with Some c => COk c | None => CErr EColumnCode end in
  let+ tui_timezone :=
    match l_tui_timezone L with
    | None => COk None
    | Some tz => if tz_valid tz then COk (Some tz) else CErr ETimezone
    end in
  let icmp_extension_parse_mode := if l_icmp_extensions L then ExtEnabled else ExtDisabled in
  let protocol := derive_protocol (a_udp args) (a_tcp args) (a_icmp args) (l_protocol L) in
  let addr_family := derive_addr_family (a_ipv4 args) (a_ipv6 args) (l_addr_family L) in
  let multipath_strategy := derive_multipath_strategy (l_multipath_strategy L) in
  let+ port_direction :=
    derive_port_direction protocol (l_source_port L) (l_target_port L) (l_multipath_strategy L) pid in
  let dns_resolve_method := derive_dns_resolve_method (l_dns_resolve_method L) in
  let max_rounds := derive_max_rounds (l_mode L) (l_report_cycles L) in
  let tui_max_addrs := derive_tui_max_addrs (l_tui_max_addrs L) in
  let+ _ := check (validate_privilege privilege_mode (has_privileges privilege) (needs_privileges privilege)) EPrivilege in
  let+ _ := check (validate_logging (l_mode L) verbose) ELogging in
  let+ _ := check (validate_strategy multipath_strategy (l_unprivileged L)) EStrategy in
  let+ _ := check (validate_protocol_strategy protocol multipath_strategy) EProtocolStrategy in
  let+ _ := check (validate_multi (l_mode L) protocol (a_targets args) (l_dns_resolve_all L)) EMulti in
  let+ _ := check (validate_flows (l_mode L) multipath_strategy) EFlows in
  let+ _ := check (validate_ttl (l_first_ttl L) (l_max_ttl L)) ETtl in
  let+ _ := check (validate_max_inflight (l_max_inflight L)) EMaxInflight in
  let+ _ := check (validate_read_timeout (l_read_timeout L)) EReadTimeout in
  let+ _ := check (validate_round_duration (l_min_round_duration L) (l_max_round_duration L)) ERoundDuration in
  let+ _ := check (validate_grace_duration (l_grace_duration L)) EGraceDuration in
  let+ _ := check (validate_packet_size addr_family (l_packet_size L)) EPacketSize in
  let+ _ := check (validate_tui_refresh_rate (l_tui_refresh_rate L)) ERefreshRate in
  let+ _ := check (validate_report_cycles (l_report_cycles L)) EReportCycles in
  let+ _ := check (validate_dns dns_resolve_method (l_dns_lookup_as_info L)) EDns in
  let+ _ := check (validate_geoip (l_tui_geoip_mode L) (l_geoip_mmdb_file L)) EGeoip in
  let+ _ := check (validate_tui_custom_columns tui_custom_columns) ECustomColumns in
  let tui_theme := TuiTheme_from (a_tui_theme_colors args) cfg_file_tui_theme_colors in
  let tui_bindings := TuiBindings_from (a_tui_key_bindings args) cfg_file_tui_bindings in
  let+ _ := check (validate_bindings tui_bindings) EBindings in
  COk {|
    tc_targets := a_targets args;
    tc_protocol := protocol;
    tc_addr_family := addr_family;
    tc_first_ttl := l_first_ttl L;
    tc_max_ttl := l_max_ttl L;
    tc_min_round_duration := l_min_round_duration L;
    tc_max_round_duration := l_max_round_duration L;
    tc_grace_duration := l_grace_duration L;
    tc_max_inflight := l_max_inflight L;
    tc_initial_sequence := l_initial_sequence L;
    tc_tos := l_tos L;
    tc_icmp_extension_parse_mode := icmp_extension_parse_mode;
    tc_read_timeout := l_read_timeout L;
    tc_packet_size := l_packet_size L;
    tc_payload_pattern := l_payload_pattern L;
    tc_source_addr := l_source_address L;
    tc_interface := l_interface L;
    tc_multipath_strategy := multipath_strategy;
    tc_port_direction := port_direction;
    tc_dns_timeout := l_dns_timeout L;
    tc_dns_ttl := l_dns_ttl L;
    tc_dns_resolve_method := dns_resolve_method;
    tc_dns_lookup_as_info := l_dns_lookup_as_info L;
    tc_max_samples := l_max_samples L;
    tc_max_flows := l_max_flows L;
    tc_tui_preserve_screen := l_tui_preserve_screen L;
    tc_tui_refresh_rate := l_tui_refresh_rate L;
    tc_tui_privacy_max_ttl := l_tui_privacy_max_ttl L;
    tc_tui_address_mode := l_tui_address_mode L;
    tc_tui_as_mode := l_tui_as_mode L;
    tc_tui_custom_columns := tui_custom_columns;
    tc_tui_icmp_extension_mode := l_tui_icmp_extension_mode L;
    tc_tui_geoip_mode := l_tui_geoip_mode L;
    tc_tui_max_addrs := tui_max_addrs;
    tc_tui_locale := l_tui_locale L;
    tc_tui_timezone := tui_timezone;
    tc_tui_theme := tui_theme;
    tc_tui_bindings := tui_bindings;
    tc_mode := l_mode L;
    tc_privilege_mode := privilege_mode;
    tc_dns_resolve_all := l_dns_resolve_all L;
    tc_report_cycles := l_report_cycles L;
    tc_geoip_mmdb_file := l_geoip_mmdb_file L;
    tc_max_rounds := max_rounds;
    tc_verbose := verbose;
    tc_log_format := l_log_format L;
    tc_log_filter := l_log_filter L;
    tc_log_span_events := l_log_span_events L;
  |}.

(* ---- app.rs start_tracer: the Builder parameters that reach the strategy, as a core configuration ---- *)
Definition start_tracer_cfg (cfg : TrippyConfig) (target_addr : addr) (trace_identifier : Z) : scfg := {|
  target_addr := target_addr;
  proto := tc_protocol cfg;
  trace_identifier := trace_identifier;
  max_rounds := tc_max_rounds cfg;
  first_ttl := tc_first_ttl cfg;
  max_ttl := tc_max_ttl cfg;
  grace_duration := tc_grace_duration cfg;
  max_inflight := tc_max_inflight cfg;
  initial_sequence := tc_initial_sequence cfg;
  multipath := tc_multipath_strategy cfg;
  port_direction := tc_port_direction cfg;
  min_round_duration := tc_min_round_duration cfg;
  max_round_duration := tc_max_round_duration cfg;
|}.
