(* Specification vocabulary for C16 (no code transcription here): the inventory of layered options, the two
   option maps seen as `option -> optional value`, the documented defaults, and the precedence rule. *)
From TV Require Import Base.Result Core.Types Core.TracerState Core.Builder Tui.ConfigTypes Tui.Validate Tui.Layer.

(* the 44 options that exist both as a command-line argument and as a configuration-file key *)
Inductive opt :=
(* [trippy] *)
| OMode | OUnprivileged | OLogFormat | OLogFilter | OLogSpanEvents
(* [strategy] *)
| OProtocol | OAddrFamily | OTargetPort | OSourcePort | OSourceAddress | OInterface
| OMinRoundDuration | OMaxRoundDuration | OInitialSequence | OMultipathStrategy | OGraceDuration
| OMaxInflight | OFirstTtl | OMaxTtl | OPacketSize | OPayloadPattern | OTos | OIcmpExtensions
| OReadTimeout | OMaxSamples | OMaxFlows
(* [dns] *)
| ODnsResolveMethod | ODnsResolveAll | ODnsLookupAsInfo | ODnsTimeout | ODnsTtl
(* [report] *)
| OReportCycles
(* [tui] *)
| OTuiPreserveScreen | OTuiRefreshRate | OTuiPrivacyMaxTtl | OTuiAddressMode | OTuiAsMode
| OTuiIcmpExtensionMode | OTuiGeoipMode | OTuiMaxAddrs | OGeoipMmdbFile | OTuiCustomColumns
| OTuiLocale | OTuiTimezone.

Definition all_opts : list opt := [
  OMode; OUnprivileged; OLogFormat; OLogFilter; OLogSpanEvents;
  OProtocol; OAddrFamily; OTargetPort; OSourcePort; OSourceAddress; OInterface;
  OMinRoundDuration; OMaxRoundDuration; OInitialSequence; OMultipathStrategy; OGraceDuration;
  OMaxInflight; OFirstTtl; OMaxTtl; OPacketSize; OPayloadPattern; OTos; OIcmpExtensions;
  OReadTimeout; OMaxSamples; OMaxFlows;
  ODnsResolveMethod; ODnsResolveAll; ODnsLookupAsInfo; ODnsTimeout; ODnsTtl;
  OReportCycles;
  OTuiPreserveScreen; OTuiRefreshRate; OTuiPrivacyMaxTtl; OTuiAddressMode; OTuiAsMode;
  OTuiIcmpExtensionMode; OTuiGeoipMode; OTuiMaxAddrs; OGeoipMmdbFile; OTuiCustomColumns;
  OTuiLocale; OTuiTimezone ].

(* a value of any option (typed constructors: equal values <-> equal option values) *)
Inductive val :=
| VNone                                  (* "auto" / "none": the option has no value *)
| VBool (b : bool) | VInt (z : Z) | VStr (s : str) | VAddr (a : addr)
| VMode (m : Mode) | VProtocol (p : ProtocolConfig) | VFamily (f : AddressFamilyConfig)
| VStrategy (s : MultipathStrategyConfig) | VGeoip (g : GeoIpMode) | VDns (d : DnsResolveMethodConfig).

(* a boolean flag on the command line can only say "true": absent = not given *)
Definition flag (b : bool) : option val := if b then Some (VBool true) else None.
Definition om {A} (f : A -> val) (o : option A) : option val := option_map f o.

(* the command line as an option map *)
Definition cli_get (o : opt) (a : Args) : option val :=
  match o with
  | OMode => om VMode (a_mode a)
  | OUnprivileged => flag (a_unprivileged a)
  | OLogFormat => om VInt (a_log_format a)
  | OLogFilter => om VStr (a_log_filter a)
  | OLogSpanEvents => om VInt (a_log_span_events a)
  | OProtocol => om VProtocol (a_protocol a)
  | OAddrFamily => om VFamily (a_addr_family a)
  | OTargetPort => om VInt (a_target_port a)
  | OSourcePort => om VInt (a_source_port a)
  | OSourceAddress => om VAddr (a_source_address a)
  | OInterface => om VStr (a_interface a)
  | OMinRoundDuration => om VInt (a_min_round_duration a)
  | OMaxRoundDuration => om VInt (a_max_round_duration a)
  | OInitialSequence => om VInt (a_initial_sequence a)
  | OMultipathStrategy => om VStrategy (a_multipath_strategy a)
  | OGraceDuration => om VInt (a_grace_duration a)
  | OMaxInflight => om VInt (a_max_inflight a)
  | OFirstTtl => om VInt (a_first_ttl a)
  | OMaxTtl => om VInt (a_max_ttl a)
  | OPacketSize => om VInt (a_packet_size a)
  | OPayloadPattern => om VInt (a_payload_pattern a)
  | OTos => om VInt (a_tos a)
  | OIcmpExtensions => flag (a_icmp_extensions a)
  | OReadTimeout => om VInt (a_read_timeout a)
  | OMaxSamples => om VInt (a_max_samples a)
  | OMaxFlows => om VInt (a_max_flows a)
  | ODnsResolveMethod => om VDns (a_dns_resolve_method a)
  | ODnsResolveAll => flag (a_dns_resolve_all a)
  | ODnsLookupAsInfo => flag (a_dns_lookup_as_info a)
  | ODnsTimeout => om VInt (a_dns_timeout a)
  | ODnsTtl => om VInt (a_dns_ttl a)
  | OReportCycles => om VInt (a_report_cycles a)
  | OTuiPreserveScreen => flag (a_tui_preserve_screen a)
  | OTuiRefreshRate => om VInt (a_tui_refresh_rate a)
  | OTuiPrivacyMaxTtl => om VInt (a_tui_privacy_max_ttl a)
  | OTuiAddressMode => om VInt (a_tui_address_mode a)
  | OTuiAsMode => om VInt (a_tui_as_mode a)
  | OTuiIcmpExtensionMode => om VInt (a_tui_icmp_extension_mode a)
  | OTuiGeoipMode => om VGeoip (a_tui_geoip_mode a)
  | OTuiMaxAddrs => om VInt (a_tui_max_addrs a)
  | OGeoipMmdbFile => om VStr (a_geoip_mmdb_file a)
  | OTuiCustomColumns => om VStr (a_tui_custom_columns a)
  | OTuiLocale => om VStr (a_tui_locale a)
  | OTuiTimezone => om VStr (a_tui_timezone a)
  end.

(* a key of a section of the file: absent when the section or the key is absent *)
Definition sec {S} (s : option S) (g : S -> option val) : option val :=
  match s with Some x => g x | None => None end.

(* the configuration file as an option map *)
Definition file_get (o : opt) (f : ConfigFile) : option val :=
  match o with
  | OMode => sec (cf_trippy f) (fun s => om VMode (ct_mode s))
  | OUnprivileged => sec (cf_trippy f) (fun s => om VBool (ct_unprivileged s))
  | OLogFormat => sec (cf_trippy f) (fun s => om VInt (ct_log_format s))
  | OLogFilter => sec (cf_trippy f) (fun s => om VStr (ct_log_filter s))
  | OLogSpanEvents => sec (cf_trippy f) (fun s => om VInt (ct_log_span_events s))
  | OProtocol => sec (cf_strategy f) (fun s => om VProtocol (cs_protocol s))
  | OAddrFamily => sec (cf_strategy f) (fun s => om VFamily (cs_addr_family s))
  | OTargetPort => sec (cf_strategy f) (fun s => om VInt (cs_target_port s))
  | OSourcePort => sec (cf_strategy f) (fun s => om VInt (cs_source_port s))
  | OSourceAddress => sec (cf_strategy f) (fun s => om VAddr (cs_source_address s))
  | OInterface => sec (cf_strategy f) (fun s => om VStr (cs_interface s))
  | OMinRoundDuration => sec (cf_strategy f) (fun s => om VInt (cs_min_round_duration s))
  | OMaxRoundDuration => sec (cf_strategy f) (fun s => om VInt (cs_max_round_duration s))
  | OInitialSequence => sec (cf_strategy f) (fun s => om VInt (cs_initial_sequence s))
  | OMultipathStrategy => sec (cf_strategy f) (fun s => om VStrategy (cs_multipath_strategy s))
  | OGraceDuration => sec (cf_strategy f) (fun s => om VInt (cs_grace_duration s))
  | OMaxInflight => sec (cf_strategy f) (fun s => om VInt (cs_max_inflight s))
  | OFirstTtl => sec (cf_strategy f) (fun s => om VInt (cs_first_ttl s))
  | OMaxTtl => sec (cf_strategy f) (fun s => om VInt (cs_max_ttl s))
  | OPacketSize => sec (cf_strategy f) (fun s => om VInt (cs_packet_size s))
  | OPayloadPattern => sec (cf_strategy f) (fun s => om VInt (cs_payload_pattern s))
  | OTos => sec (cf_strategy f) (fun s => om VInt (cs_tos s))
  | OIcmpExtensions => sec (cf_strategy f) (fun s => om VBool (cs_icmp_extensions s))
  | OReadTimeout => sec (cf_strategy f) (fun s => om VInt (cs_read_timeout s))
  | OMaxSamples => sec (cf_strategy f) (fun s => om VInt (cs_max_samples s))
  | OMaxFlows => sec (cf_strategy f) (fun s => om VInt (cs_max_flows s))
  | ODnsResolveMethod => sec (cf_dns f) (fun s => om VDns (cd_dns_resolve_method s))
  | ODnsResolveAll => sec (cf_dns f) (fun s => om VBool (cd_dns_resolve_all s))
  | ODnsLookupAsInfo => sec (cf_dns f) (fun s => om VBool (cd_dns_lookup_as_info s))
  | ODnsTimeout => sec (cf_dns f) (fun s => om VInt (cd_dns_timeout s))
  | ODnsTtl => sec (cf_dns f) (fun s => om VInt (cd_dns_ttl s))
  | OReportCycles => sec (cf_report f) (fun s => om VInt (cr_report_cycles s))
  | OTuiPreserveScreen => sec (cf_tui f) (fun s => om VBool (cu_tui_preserve_screen s))
  | OTuiRefreshRate => sec (cf_tui f) (fun s => om VInt (cu_tui_refresh_rate s))
  | OTuiPrivacyMaxTtl => sec (cf_tui f) (fun s => om VInt (cu_tui_privacy_max_ttl s))
  | OTuiAddressMode => sec (cf_tui f) (fun s => om VInt (cu_tui_address_mode s))
  | OTuiAsMode => sec (cf_tui f) (fun s => om VInt (cu_tui_as_mode s))
  | OTuiIcmpExtensionMode => sec (cf_tui f) (fun s => om VInt (cu_tui_icmp_extension_mode s))
  | OTuiGeoipMode => sec (cf_tui f) (fun s => om VGeoip (cu_tui_geoip_mode s))
  | OTuiMaxAddrs => sec (cf_tui f) (fun s => om VInt (cu_tui_max_addrs s))
  | OGeoipMmdbFile => sec (cf_tui f) (fun s => om VStr (cu_geoip_mmdb_file s))
  | OTuiCustomColumns => sec (cf_tui f) (fun s => om VStr (cu_tui_custom_columns s))
  | OTuiLocale => sec (cf_tui f) (fun s => om VStr (cu_tui_locale s))
  | OTuiTimezone => sec (cf_tui f) (fun s => om VStr (cu_tui_timezone s))
  end.

(* The documented defaults (configuration reference / trippy-config-sample.toml), written out as literals:
   this table is the specification, it does not mention the constants of the code. *)
Definition doc_default (o : opt) : val :=
  match o with
  | OMode => VMode MTui
  | OUnprivileged => VBool false
  | OLogFormat => VInt 1                              (* pretty *)
  | OLogFilter => VStr [116; 114; 105; 112; 112; 121; 61; 100; 101; 98; 117; 103]   (* "trippy=debug" *)
  | OLogSpanEvents => VInt 0                          (* off *)
  | OProtocol => VProtocol PcIcmp
  | OAddrFamily => VFamily AfIpv4ThenIpv6
  | OTargetPort => VNone
  | OSourcePort => VNone
  | OSourceAddress => VNone
  | OInterface => VNone
  | OMinRoundDuration => VInt 1000000000              (* 1s *)
  | OMaxRoundDuration => VInt 1000000000              (* 1s *)
  | OInitialSequence => VInt 33434
  | OMultipathStrategy => VStrategy MsClassic
  | OGraceDuration => VInt 100000000                  (* 100ms *)
  | OMaxInflight => VInt 24
  | OFirstTtl => VInt 1
  | OMaxTtl => VInt 64
  | OPacketSize => VInt 84
  | OPayloadPattern => VInt 0
  | OTos => VInt 0
  | OIcmpExtensions => VBool false
  | OReadTimeout => VInt 10000000                     (* 10ms *)
  | OMaxSamples => VInt 256
  | OMaxFlows => VInt 64
  | ODnsResolveMethod => VDns DrSystem
  | ODnsResolveAll => VBool false
  | ODnsLookupAsInfo => VBool false
  | ODnsTimeout => VInt 5000000000                    (* 5s *)
  | ODnsTtl => VInt 300000000000                      (* 300s *)
  | OReportCycles => VInt 10
  | OTuiPreserveScreen => VBool false
  | OTuiRefreshRate => VInt 100000000                 (* 100ms *)
  | OTuiPrivacyMaxTtl => VNone
  | OTuiAddressMode => VInt 1                         (* host *)
  | OTuiAsMode => VInt 0                              (* asn *)
  | OTuiIcmpExtensionMode => VInt 0                   (* off *)
  | OTuiGeoipMode => VGeoip GeoOff
  | OTuiMaxAddrs => VNone                             (* auto *)
  | OGeoipMmdbFile => VNone
  | OTuiCustomColumns => VStr [104; 111; 108; 115; 114; 97; 118; 98; 119; 100; 116]   (* "holsravbwdt" *)
  | OTuiLocale => VNone
  | OTuiTimezone => VNone
  end.

(* the precedence rule: command line, else file, else default *)
Definition first_of (cli file : option val) (default : val) : val :=
  match cli with
  | Some v => v
  | None => match file with Some v => v | None => default end
  end.

(* tui-max-addrs: "use a zero value for auto" - 0 and "no value" are the same setting *)
Definition norm (o : opt) (v : val) : val :=
  match o, v with
  | OTuiMaxAddrs, VInt z => if 0 <? z then VInt z else VNone
  | _, _ => v
  end.

Definition ov {A} (f : A -> val) (o : option A) : val := match o with Some x => f x | None => VNone end.

(* the value build_config works with for option o (the `let` of that option) *)
Definition lget (o : opt) (L : Layered) : val :=
  match o with
  | OMode => VMode (l_mode L)
  | OUnprivileged => VBool (l_unprivileged L)
  | OLogFormat => VInt (l_log_format L)
  | OLogFilter => VStr (l_log_filter L)
  | OLogSpanEvents => VInt (l_log_span_events L)
  | OProtocol => VProtocol (l_protocol L)
  | OAddrFamily => VFamily (l_addr_family L)
  | OTargetPort => ov VInt (l_target_port L)
  | OSourcePort => ov VInt (l_source_port L)
  | OSourceAddress => ov VAddr (l_source_address L)
  | OInterface => ov VStr (l_interface L)
  | OMinRoundDuration => VInt (l_min_round_duration L)
  | OMaxRoundDuration => VInt (l_max_round_duration L)
  | OInitialSequence => VInt (l_initial_sequence L)
  | OMultipathStrategy => VStrategy (l_multipath_strategy L)
  | OGraceDuration => VInt (l_grace_duration L)
  | OMaxInflight => VInt (l_max_inflight L)
  | OFirstTtl => VInt (l_first_ttl L)
  | OMaxTtl => VInt (l_max_ttl L)
  | OPacketSize => VInt (l_packet_size L)
  | OPayloadPattern => VInt (l_payload_pattern L)
  | OTos => VInt (l_tos L)
  | OIcmpExtensions => VBool (l_icmp_extensions L)
  | OReadTimeout => VInt (l_read_timeout L)
  | OMaxSamples => VInt (l_max_samples L)
  | OMaxFlows => VInt (l_max_flows L)
  | ODnsResolveMethod => VDns (l_dns_resolve_method L)
  | ODnsResolveAll => VBool (l_dns_resolve_all L)
  | ODnsLookupAsInfo => VBool (l_dns_lookup_as_info L)
  | ODnsTimeout => VInt (l_dns_timeout L)
  | ODnsTtl => VInt (l_dns_ttl L)
  | OReportCycles => VInt (l_report_cycles L)
  | OTuiPreserveScreen => VBool (l_tui_preserve_screen L)
  | OTuiRefreshRate => VInt (l_tui_refresh_rate L)
  | OTuiPrivacyMaxTtl => ov VInt (l_tui_privacy_max_ttl L)
  | OTuiAddressMode => VInt (l_tui_address_mode L)
  | OTuiAsMode => VInt (l_tui_as_mode L)
  | OTuiIcmpExtensionMode => VInt (l_tui_icmp_extension_mode L)
  | OTuiGeoipMode => VGeoip (l_tui_geoip_mode L)
  | OTuiMaxAddrs => ov VInt (l_tui_max_addrs L)
  | OGeoipMmdbFile => ov VStr (l_geoip_mmdb_file L)
  | OTuiCustomColumns => VStr (l_tui_custom_columns L)
  | OTuiLocale => ov VStr (l_tui_locale L)
  | OTuiTimezone => ov VStr (l_tui_timezone L)
  end.

(* the inverse renamings used to read an option back from the final TrippyConfig *)
Definition strategy_cfg_of (m : mstrategy) : MultipathStrategyConfig :=
  match m with Classic => MsClassic | Paris => MsParis | Dublin => MsDublin end.
Definition dns_cfg_of (m : ResolveMethod) : DnsResolveMethodConfig :=
  match m with RmSystem => DrSystem | RmResolv => DrResolv | RmGoogle => DrGoogle | RmCloudflare => DrCloudflare end.
Definition protocol_cfg_of (p : protocol) : ProtocolConfig :=
  match p with Icmp => PcIcmp | Udp => PcUdp | Tcp => PcTcp end.
Definition family_of_cfg (f : AddressFamilyConfig) : IpAddrFamily :=
  match f with
  | AfIpv4 => Ipv4Only | AfIpv6 => Ipv6Only | AfIpv6ThenIpv4 => Ipv6thenIpv4
  | AfIpv4ThenIpv6 => Ipv4thenIpv6 | AfSystem => FamSystem
  end.

(* The option as it can be read from the TrippyConfig record.  None = the record has no field that carries
   the option by itself: protocol and addr_family (shortcut flags take part), target_port / source_port (only
   port_direction is stored), tui_max_addrs (0 is normalised to "auto") - these are the derived fields. *)
Definition cfg_get (o : opt) (c : TrippyConfig) : option val :=
  match o with
  | OMode => Some (VMode (tc_mode c))
  | OUnprivileged => Some (VBool (is_unprivileged (tc_privilege_mode c)))
  | OLogFormat => Some (VInt (tc_log_format c))
  | OLogFilter => Some (VStr (tc_log_filter c))
  | OLogSpanEvents => Some (VInt (tc_log_span_events c))
  | OProtocol => None
  | OAddrFamily => None
  | OTargetPort => None
  | OSourcePort => None
  | OSourceAddress => Some (ov VAddr (tc_source_addr c))
  | OInterface => Some (ov VStr (tc_interface c))
  | OMinRoundDuration => Some (VInt (tc_min_round_duration c))
  | OMaxRoundDuration => Some (VInt (tc_max_round_duration c))
  | OInitialSequence => Some (VInt (tc_initial_sequence c))
  | OMultipathStrategy => Some (VStrategy (strategy_cfg_of (tc_multipath_strategy c)))
  | OGraceDuration => Some (VInt (tc_grace_duration c))
  | OMaxInflight => Some (VInt (tc_max_inflight c))
  | OFirstTtl => Some (VInt (tc_first_ttl c))
  | OMaxTtl => Some (VInt (tc_max_ttl c))
  | OPacketSize => Some (VInt (tc_packet_size c))
  | OPayloadPattern => Some (VInt (tc_payload_pattern c))
  | OTos => Some (VInt (tc_tos c))
  | OIcmpExtensions => Some (VBool (is_enabled (tc_icmp_extension_parse_mode c)))
  | OReadTimeout => Some (VInt (tc_read_timeout c))
  | OMaxSamples => Some (VInt (tc_max_samples c))
  | OMaxFlows => Some (VInt (tc_max_flows c))
  | ODnsResolveMethod => Some (VDns (dns_cfg_of (tc_dns_resolve_method c)))
  | ODnsResolveAll => Some (VBool (tc_dns_resolve_all c))
  | ODnsLookupAsInfo => Some (VBool (tc_dns_lookup_as_info c))
  | ODnsTimeout => Some (VInt (tc_dns_timeout c))
  | ODnsTtl => Some (VInt (tc_dns_ttl c))
  | OReportCycles => Some (VInt (tc_report_cycles c))
  | OTuiPreserveScreen => Some (VBool (tc_tui_preserve_screen c))
  | OTuiRefreshRate => Some (VInt (tc_tui_refresh_rate c))
  | OTuiPrivacyMaxTtl => Some (ov VInt (tc_tui_privacy_max_ttl c))
  | OTuiAddressMode => Some (VInt (tc_tui_address_mode c))
  | OTuiAsMode => Some (VInt (tc_tui_as_mode c))
  | OTuiIcmpExtensionMode => Some (VInt (tc_tui_icmp_extension_mode c))
  | OTuiGeoipMode => Some (VGeoip (tc_tui_geoip_mode c))
  | OTuiMaxAddrs => None
  | OGeoipMmdbFile => Some (ov VStr (tc_geoip_mmdb_file c))
  | OTuiCustomColumns => Some (VStr (tc_tui_custom_columns c))
  | OTuiLocale => Some (ov VStr (tc_tui_locale c))
  | OTuiTimezone => Some (ov VStr (tc_tui_timezone c))
  end.

Definition derived (o : opt) : bool :=
  match o with OProtocol | OAddrFamily | OTargetPort | OSourcePort | OTuiMaxAddrs => true | _ => false end.

(* ---- the derived fields, specified ---- *)
(* the protocol "given on the command line": a shortcut flag or --protocol *)
Definition cli_protocol (a : Args) : option protocol :=
  if a_udp a then Some Udp else if a_tcp a then Some Tcp else if a_icmp a then Some Icmp
  else option_map (fun p => match p with PcIcmp => Icmp | PcUdp => Udp | PcTcp => Tcp end) (a_protocol a).
Definition file_protocol (f : ConfigFile) : option protocol :=
  match cf_strategy f with
  | Some s => option_map (fun p => match p with PcIcmp => Icmp | PcUdp => Udp | PcTcp => Tcp end) (cs_protocol s)
  | None => None
  end.
Definition cli_family (a : Args) : option IpAddrFamily :=
  if a_ipv4 a then Some Ipv4Only else if a_ipv6 a then Some Ipv6Only else option_map family_of_cfg (a_addr_family a).
Definition file_family (f : ConfigFile) : option IpAddrFamily :=
  match cf_strategy f with Some s => option_map family_of_cfg (cs_addr_family s) | None => None end.
Definition first_of_ {A} (cli file : option A) (default : A) : A :=
  match cli with Some v => v | None => match file with Some v => v | None => default end end.

(* the documented port rule, as a relation *)
Inductive port_rule (pid : Z) : protocol -> option Z -> option Z -> mstrategy -> portdir -> Prop :=
| pr_icmp s d m : port_rule pid Icmp s d m PdNone
| pr_udp_auto m : port_rule pid Udp None None m (FixedSrc (Z.max pid 1024))
| pr_tcp_auto m : port_rule pid Tcp None None m (FixedDest 80)
| pr_udp_src s m : 1024 <= s -> port_rule pid Udp (Some s) None m (FixedSrc s)
| pr_tcp_src s m : port_rule pid Tcp (Some s) None m (FixedSrc s)
| pr_udp_dest d m : port_rule pid Udp None (Some d) m (FixedDest d)
| pr_tcp_dest d m : port_rule pid Tcp None (Some d) m (FixedDest d)
| pr_udp_both s d m : m <> Classic -> 1024 <= s -> port_rule pid Udp (Some s) (Some d) m (FixedBoth s d).

(* ---- value ranges of the Rust types (what clap / serde can produce) ---- *)
Definition opt_ok {A} (P : A -> Prop) (o : option A) : Prop := match o with Some x => P x | None => True end.
Definition nonneg (x : Z) : Prop := 0 <= x.
Record args_in_range (a : Args) : Prop := {
  air_target_port : opt_ok u16 (a_target_port a);
  air_source_port : opt_ok u16 (a_source_port a);
  air_min_round : opt_ok nonneg (a_min_round_duration a);
  air_max_round : opt_ok nonneg (a_max_round_duration a);
  air_grace : opt_ok nonneg (a_grace_duration a);
  air_initial_sequence : opt_ok u16 (a_initial_sequence a);
  air_max_inflight : opt_ok u8 (a_max_inflight a);
  air_first_ttl : opt_ok u8 (a_first_ttl a);
  air_max_ttl : opt_ok u8 (a_max_ttl a);
  air_report_cycles : opt_ok nonneg (a_report_cycles a);
}.
Record strategy_in_range (s : ConfigStrategy) : Prop := {
  sir_target_port : opt_ok u16 (cs_target_port s);
  sir_source_port : opt_ok u16 (cs_source_port s);
  sir_min_round : opt_ok nonneg (cs_min_round_duration s);
  sir_max_round : opt_ok nonneg (cs_max_round_duration s);
  sir_grace : opt_ok nonneg (cs_grace_duration s);
  sir_initial_sequence : opt_ok u16 (cs_initial_sequence s);
  sir_max_inflight : opt_ok u8 (cs_max_inflight s);
  sir_first_ttl : opt_ok u8 (cs_first_ttl s);
  sir_max_ttl : opt_ok u8 (cs_max_ttl s);
}.
Definition file_in_range (f : ConfigFile) : Prop :=
  opt_ok strategy_in_range (cf_strategy f) /\
  opt_ok (fun r => opt_ok nonneg (cr_report_cycles r)) (cf_report f).

(* ---- Builder::build() of the pinned tree, before docs/integration/C16_fix_1.patch (finding F9) ----
   It did not reject first_ttl = 0, Tcp + FixedBoth, Udp/Classic + FixedBoth. *)
Definition builder_accepts_pinned (c : scfg) : bool :=
  match proto c, port_direction c with
  | Udp, PdNone | Tcp, PdNone => false
  | _, _ => true
  end &&
  (first_ttl c <=? MAX_TTL) && (max_ttl c <=? MAX_TTL) && (initial_sequence c <=? MAX_INITIAL_SEQUENCE).
