(* Model of the hop-privacy decisions of trippy-tui (C18).

   crates/trippy-tui/src/frontend/render/table.rs   render_hostname (306-346), render_hostname_with_details (555-573)
   crates/trippy-tui/src/frontend/render/world.rs   pin filter (50-54), render_map_info_panel (137-160)
   crates/trippy-tui/src/frontend/render/header.rs  render_source (151-190), render_destination (193-232)
   crates/trippy-tui/src/frontend/tui_app.rs        expand_privacy / contract_privacy (382-401)

   Every view repeats the same comparison by hand, `privacy_max_ttl >= Some(hop.ttl())`, on
   `Option<u8>` with Rust's derived ordering (None < Some _).  What a view prints in its normal
   branch (addresses, reverse-DNS names, AS and GeoIP text, in every address / AS / GeoIP mode) is an
   arbitrary function `fmt` of the hop here: the theorems hold whatever that function prints. *)
From TV Require Import Base.Result.

(* a module, so that the extracted OCaml names (hop, hidden, level, ...) live in Model.TuiPrivacy *)
Module TuiPrivacy.

(* impl PartialOrd for Option<T>: None is smaller than every Some *)
Definition opt_ge (a b : option Z) : bool :=
  match a, b with
  | None, None => true
  | None, Some _ => false
  | Some _, None => true
  | Some x, Some y => y <=? x
  end.
Definition opt_gt (a b : option Z) : bool :=
  match a, b with
  | None, _ => false
  | Some _, None => true
  | Some x, Some y => y <? x
  end.
Definition opt_lt (a b : option Z) : bool := opt_gt b a.

(* `app.tui_config.privacy_max_ttl >= Some(hop.ttl())` *)
Definition hidden (privacy : option Z) (ttl : Z) : bool := opt_ge privacy (Some ttl).

(* what a view decided to print *)
Inductive text (T : Type) :=
| Hidden          (* "**Hidden**" placeholder *)
| NoResponse      (* "No response" *)
| Shown (t : T).  (* the normal branch *)
Arguments Hidden {T}.
Arguments NoResponse {T}.
Arguments Shown {T} t.

(* a hop as the views see it: ttl, number of responses, and everything printable about it *)
Record hop (I : Type) := mk_hop_view { h_ttl : Z; h_total_recv : Z; h_info : I }.
Arguments mk_hop_view {I}.
Arguments h_ttl {I}.
Arguments h_total_recv {I}.
Arguments h_info {I}.

(* table.rs render_hostname: the Host cell of a row that is not the selected row in detail mode *)
Definition render_hostname {I T} (privacy : option Z) (fmt : hop I -> T) (h : hop I) : text T :=
  if h_total_recv h >? 0 then
    if hidden privacy (h_ttl h) then Hidden else Shown (fmt h)
  else NoResponse.

(* table.rs render_hostname_with_details: the Host cell of the selected row in detail mode;
   fmt is format_details hop selected_hop_address *)
Definition render_hostname_with_details {I T} (privacy : option Z) (fmt : hop I -> T) (h : hop I) : text T :=
  if h_total_recv h >? 0 then
    if hidden privacy (h_ttl h) then Hidden else Shown (fmt h)
  else NoResponse.

(* world.rs render_map_canvas: a map entry (one location, the ttls of the hops located there) gets a
   pin, radius and selection box iff some ttl in `entry.hops` is above the privacy ttl (`Some(ttl) > privacy_max_ttl`) *)
Definition map_pin_shown (privacy : option Z) (entry_hops : list Z) : bool :=
  existsb (fun ttl => opt_gt (Some ttl) privacy) entry_hops.

(* world.rs render_map_info_panel: the text under the map for the selected (or target) hop *)
Definition render_map_info_panel {I T} (privacy : option Z) (fmt : hop I -> T) (h : hop I) : text T :=
  if hidden privacy (h_ttl h) then Hidden else Shown (fmt h).

(* header.rs render_source: `if privacy_max_ttl.is_some() { hidden } else { source address / host }` *)
Definition render_source {T} (privacy : option Z) (src : T) : text T :=
  match privacy with Some _ => Hidden | None => Shown src end.

(* header.rs render_destination has no privacy branch: the target the user asked for is always shown *)
Definition render_destination {T} (privacy : option Z) (dest : T) : text T := Shown dest.

(* tui_app.rs expand_privacy: hop_count is hops_for_flow(selected_flow).len(); `privacy_max_ttl + 1` is u8 *)
Definition expand_privacy_step (hop_count : Z) (privacy : option Z) : result (option Z) :=
  match privacy with
  | Some p => if p <? hop_count then let* q := add8 p 1 in Ok (Some q) else Ok (Some p)
  | None => Ok (Some 0)
  end.

(* tui_app.rs contract_privacy *)
Definition contract_privacy_step (privacy : option Z) : option Z :=
  match privacy with
  | Some p => if p >? 0 then Some (p - 1) else None
  | None => None
  end.

(* position on the scale off, 0, 1, 2, ... *)
Definition level (privacy : option Z) : Z := match privacy with None => -1 | Some p => p end.

(* classification used by the correspondence: what the Host cell of a row shows *)
Definition host_cell_class (privacy : option Z) (ttl total_recv : Z) : Z :=
  match render_hostname privacy (fun _ : hop unit => tt) (mk_hop_view ttl total_recv tt) with
  | Hidden => 0 | NoResponse => 1 | Shown _ => 2
  end.

End TuiPrivacy.
