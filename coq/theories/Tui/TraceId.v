(* trippy-tui app.rs: the trace identifier start_tracers assigns to the tracer of the target at `index`
   (fn trace_identifier, after the repair of F7; pinned code: pid + index in u16).  No proofs in this file. *)
From TV Require Import Base.Result.

Definition U16_MAX : Z := 65535.

(* u16::try_from of a value below 65535 always succeeds: the Err arm of the match is unreachable *)
Definition trace_identifier_for (pid index : Z) : Z :=
  let v := ((pid mod U16_MAX) + (index mod U16_MAX)) mod U16_MAX in
  if v =? 0 then U16_MAX else v.

(* the pinned assignment: `pid + i as u16` - the cast truncates the index, the addition is checked *)
Definition pinned_trace_identifier_for (pid index : Z) : result Z :=
  let s := pid + index mod 65536 in
  if s <? 65536 then Ok s else Fault Overflow.
