(* trippy-tui config.rs: every `validate_*` as a boolean (true = Ok(())), same argument lists as the Rust
   functions; TuiColumns::try_from / find_duplicates (columns.rs), TuiBindings::find_duplicates (binding.rs);
   the `conflicts_with` attributes of config/cmd.rs. *)
From TV Require Import Base.Result Core.Types Core.TracerState Tui.ConfigTypes.

Definition is_some {A} (o : option A) : bool := match o with Some _ => true | None => false end.
Definition is_none {A} (o : option A) : bool := negb (is_some o).

(* validate_deprecated(cfg_file_tui, cfg_file_tui_bindings) *)
Definition validate_deprecated (cfg_file_tui : ConfigTui) (cfg_file_tui_bindings : ConfigBindings) : bool :=
  if is_some (cu_deprecated_tui_max_samples cfg_file_tui) then false
  else if is_some (cu_deprecated_tui_max_flows cfg_file_tui) then false
  else if is_some (cb_deprecated_toggle_privacy cfg_file_tui_bindings) then false
  else true.

(* validate_privilege(privilege_mode, has_privileges, needs_privileges) *)
Definition validate_privilege (privilege_mode : PrivilegeMode) (has_privileges needs_privileges : bool) : bool :=
  match privilege_mode, has_privileges, needs_privileges with
  | PmPrivileged, true, _ | PmUnprivileged, _, false => true
  | PmPrivileged, false, true => false
  | PmPrivileged, false, false => false
  | PmUnprivileged, false, true => false
  | PmUnprivileged, true, true => false
  end.

(* TuiColumn::try_from(char): the 27 known column codes  "holsravbwdtjgxiSPQTCNfFBDKM" *)
Definition COLUMN_CODES : list Z :=
  [104; 111; 108; 115; 114; 97; 118; 98; 119; 100; 116; 106; 103; 120; 105;
   83; 80; 81; 84; 67; 78; 102; 70; 66; 68; 75; 77].
Fixpoint memZ (x : Z) (l : list Z) : bool :=
  match l with [] => false | y :: t => (x =? y) || memZ x t end.
Definition TuiColumn_try_from (c : Z) : option Z := if memZ c COLUMN_CODES then Some c else None.
(* TuiColumns::try_from(&str): every character must be a column code *)
Fixpoint TuiColumns_try_from (value : str) : option (list Z) :=
  match value with
  | [] => Some []
  | c :: t =>
    match TuiColumn_try_from c with
    | None => None
    | Some col => match TuiColumns_try_from t with None => None | Some cols => Some (col :: cols) end
    end
  end.

(* the fold of find_duplicates (columns.rs and binding.rs): (all, dups) *)
Fixpoint find_duplicates_from (all : list Z) (l : list Z) : list Z :=
  match l with
  | [] => []
  | x :: t => if memZ x all then x :: find_duplicates_from all t else find_duplicates_from (x :: all) t
  end.
Definition find_duplicates (l : list Z) : list Z := find_duplicates_from [] l.
Definition is_empty {A} (l : list A) : bool := match l with [] => true | _ => false end.

(* validate_tui_custom_columns(&tui_custom_columns) *)
Definition validate_tui_custom_columns (tui_custom_columns : list Z) : bool :=
  let duplicates := find_duplicates tui_custom_columns in
  if is_empty tui_custom_columns then false
  else if is_empty duplicates then true
  else false.

(* validate_logging(mode, verbose) *)
Definition validate_logging (mode : Mode) (verbose : bool) : bool :=
  match mode with MTui => negb verbose | _ => true end.

(* validate_strategy(strategy, unprivileged) *)
Definition validate_strategy (strategy : mstrategy) (unprivileged : bool) : bool :=
  match strategy, unprivileged with
  | Dublin, true => false
  | Paris, true => false
  | _, _ => true
  end.

(* validate_protocol_strategy(protocol, strategy) *)
Definition validate_protocol_strategy (protocol : protocol) (strategy : mstrategy) : bool :=
  match protocol, strategy with
  | Tcp, Classic | Icmp, Classic | Udp, _ => true
  | Icmp, Paris => false
  | Icmp, Dublin => false
  | Tcp, Paris => false
  | Tcp, Dublin => false
  end.

(* validate_multi(mode, protocol, targets, dns_resolve_all) *)
Definition validate_multi (mode : Mode) (protocol : protocol) (targets : list str) (dns_resolve_all : bool) : bool :=
  let many := (1 <? Z.of_nat (length targets)) || dns_resolve_all in
  match mode, protocol with
  | MStream, _ | MPretty, _ | MMarkdown, _ | MCsv, _ | MJson, _ => negb many
  | _, Tcp | _, Udp => negb many
  | _, _ => true
  end.

(* validate_flows(mode, strategy) *)
Definition validate_flows (mode : Mode) (strategy : mstrategy) : bool :=
  match mode, strategy with
  | MFlows, Classic | MDot, Classic => false
  | _, _ => true
  end.

(* validate_ttl(first_ttl, max_ttl) *)
Definition validate_ttl (first_ttl max_ttl : Z) : bool :=
  if negb ((1 <=? first_ttl) && (first_ttl <=? MAX_TTL)) then false
  else if negb ((1 <=? max_ttl) && (max_ttl <=? MAX_TTL)) then false
  else if max_ttl <? first_ttl then false
  else true.

(* validate_max_inflight(max_inflight) *)
Definition validate_max_inflight (max_inflight : Z) : bool := negb (max_inflight =? 0).

(* validate_read_timeout(read_timeout) *)
Definition validate_read_timeout (read_timeout : Z) : bool :=
  negb ((read_timeout <? MIN_READ_TIMEOUT_MS) || (MAX_READ_TIMEOUT_MS <? read_timeout)).

(* validate_round_duration(min_round_duration, max_round_duration) *)
Definition validate_round_duration (min_round_duration max_round_duration : Z) : bool :=
  negb (max_round_duration <? min_round_duration).

(* validate_grace_duration(grace_duration) *)
Definition validate_grace_duration (grace_duration : Z) : bool :=
  negb ((grace_duration <? MIN_GRACE_DURATION_MS) || (MAX_GRACE_DURATION_MS <? grace_duration)).

(* validate_packet_size(address_family, packet_size) *)
Definition validate_packet_size (address_family : IpAddrFamily) (packet_size : Z) : bool :=
  let min_size := match address_family with
                  | Ipv4Only => MIN_PACKET_SIZE_IPV4
                  | Ipv6Only | Ipv6thenIpv4 | Ipv4thenIpv6 | FamSystem => MIN_PACKET_SIZE_IPV6
                  end in
  (min_size <=? packet_size) && (packet_size <=? MAX_PACKET_SIZE).

(* validate_source_port(source_port) *)
Definition validate_source_port (source_port : Z) : bool := negb (source_port <? 1024).

(* validate_tui_refresh_rate(tui_refresh_rate) *)
Definition validate_tui_refresh_rate (tui_refresh_rate : Z) : bool :=
  negb ((tui_refresh_rate <? TUI_MIN_REFRESH_RATE_MS) || (TUI_MAX_REFRESH_RATE_MS <? tui_refresh_rate)).

(* validate_report_cycles(report_cycles) *)
Definition validate_report_cycles (report_cycles : Z) : bool := negb (report_cycles =? 0).

(* validate_dns(dns_resolve_method, dns_lookup_as_info) *)
Definition validate_dns (dns_resolve_method : ResolveMethod) (dns_lookup_as_info : bool) : bool :=
  match dns_resolve_method with
  | RmSystem => negb dns_lookup_as_info
  | _ => true
  end.

(* validate_geoip(tui_geoip_mode, geoip_mmdb_file) *)
Definition validate_geoip (tui_geoip_mode : GeoIpMode) (geoip_mmdb_file : option str) : bool :=
  match tui_geoip_mode with
  | GeoShort | GeoLong | GeoLocation => is_some geoip_mmdb_file
  | GeoOff => true
  end.

(* validate_bindings(&bindings): no two commands share a key *)
Definition validate_bindings (bindings : list Z) : bool := is_empty (find_duplicates bindings).

(* config/cmd.rs: the `conflicts_with` attributes clap enforces before build_config is reached
   (true = the command line is rejected by the parser) *)
Definition count_true (l : list bool) : Z := Z.of_nat (length (filter (fun b => b) l)).
Definition args_conflict (a : Args) : bool :=
  (1 <? count_true [is_some (a_protocol a); a_udp a; a_tcp a; a_icmp a]) ||
  (1 <? count_true [is_some (a_addr_family a); a_ipv4 a; a_ipv6 a]) ||
  (is_some (a_source_address a) && is_some (a_interface a)).
