(* Model of WHAT each view of trippy-tui puts on the screen about a hop (C18), and of the row-height
   arithmetic of the hop table (C17).  Executable; the Host cell of every table row (render_hostname,
   format_address, format_dns_entry, render_hostname_with_details, format_details, fmt_details_line),
   its row height, and the info panel of the map (build_map_entries, render_map_info_panel) are
   EXTRACTED (through Tui/Frames.v) and compared, text for text, with what the real frames show
   (harness mode c18): each fragment below stands for a definite piece of text, see `frag`.  The
   other views (header, tabs, flows, chart, history, bar, dialogs) are schematic: their fragments say
   what kind of thing is printed, not its wording, and are not compared.

   crates/trippy-tui/src/frontend/render/app.rs      render: header, tabs | flows, body, footer, bar, settings | help
   crates/trippy-tui/src/frontend/render/body.rs     bsod | splash | chart | world | table
   crates/trippy-tui/src/frontend/render/table.rs    render_table_row, new_cell, render_hostname, format_address,
                                                     format_dns_entry, render_hostname_with_details, format_details,
                                                     fmt_details_line (row heights: `addr_count().clamp(1, max_addr)`)
   crates/trippy-tui/src/frontend/render/world.rs    build_map_entries, render_map_canvas (pin, radius, selection box),
                                                     render_map_info_panel
   crates/trippy-tui/src/frontend/render/header.rs   render_source, render_destination
   crates/trippy-tui/src/frontend/render/{chart,history,histogram,flows,tabs,bar,help,settings,bsod,splash}.rs

   The screen text is a list of FRAGMENTS, each tagged with what it was computed from: a literal
   (label, number, statistic), or the address / reverse-DNS names / AS info / GeoIP data of the hop
   with a given ttl, or the source, or the target of a trace.  The privacy DECISIONS are the functions
   of Tui/Privacy.v (render_hostname, render_hostname_with_details, render_map_info_panel,
   map_pin_shown, render_source, render_destination - the ones the harness compares with the real
   code); this file supplies what their normal branch prints. *)
From TV Require Import Base.Result Tui.Privacy.
Import TuiPrivacy.

Module TuiViews.

(* ------------------------------------------------------------------ fragments *)

Inductive frag :=
| FLit (n : Z)               (* the fixed text number n of the table below (in the schematic views: some label,
                                number, statistic, key name): nothing that identifies a hop *)
| FNum (n : Z)               (* the number n in decimal (a ttl, an index, a count) *)
| FPct (n d : Z)             (* format!("{:.1}%", n / d * 100): how often an address answered *)
| FAddr (ttl a : Z)          (* IP address a of the hop with this ttl *)
| FHost (ttl a : Z)          (* reverse-DNS host names of address a of that hop, `hosts.join(" ")` *)
| FAs (ttl a k : Z)          (* AS info of address a of that hop; k = AS_TABLE: format_asinfo in the configured AsMode,
                                AS_NAME: "AS{asn} {name}", AS_INFO: "{prefix} {registry} {allocated}" *)
| FGeo (ttl a k : Z)         (* GeoIP data looked up for address a of that hop; k = 1 short_name(), 2 long_name(),
                                3 location(), GEO_POS: "{lat}, {long} (~{radius}km)" of coordinates().unwrap_or_default() *)
| FLoc (ttl name : Z)        (* a map location "{long_name} [{lat}, {long} ~{radius}km]" printed for the hop with this ttl *)
| FSrc                       (* source address / host name *)
| FDest (t : Z).             (* target host name / address trace t was started with *)

(* the hop a fragment tells something about *)
Definition frag_ttl (f : frag) : option Z :=
  match f with
  | FAddr t _ | FHost t _ | FAs t _ _ | FGeo t _ _ | FLoc t _ => Some t
  | _ => None
  end.

Definition AS_TABLE := 0.
Definition AS_NAME := 10.
Definition AS_INFO := 11.
Definition GEO_POS := 4.

(* what the map canvas draws besides the world *)
Inductive mark :=
| MPin (name : Z)                  (* the pin of a location *)
| MRadius (name : Z)               (* its accuracy circle (when large enough) *)
| MSelBox (name : Z) (ttl : Z).    (* the selection rectangle around a location, drawn for the selected hop *)

(* the fixed texts (locale en); for the theorems only their being literals matters, the wording is
   what the correspondence compares (ocaml/d_tui.ml `lit`) *)
Definition L_HIDDEN := 1.             (* "**Hidden**" *)
Definition L_NO_RESPONSE := 2.        (* "No response" *)
Definition L_DNS_FAILED := 3.         (* "Failed" *)
Definition L_DNS_TIMEOUT := 4.        (* "Timeout" *)
Definition L_NO_ADDR_FOR_INDEX := 5.  (* "Error: no addr for index " *)
Definition L_NOT_FOUND := 6.          (* "not found" *)
Definition L_AWAITED := 7.            (* "awaited" *)
Definition L_NOT_ENABLED := 8.        (* "not enabled" *)
Definition L_LABEL := 9.              (* some label of a schematic view *)
Definition L_NL := 10.                (* end of line *)
Definition L_SP := 11.                (* " " *)
Definition L_LBR := 12.               (* " [" *)
Definition L_RBR := 13.               (* "]" *)
Definition L_LPAR := 14.              (* " (" *)
Definition L_RPAR := 15.              (* ")" *)
Definition L_COLON := 16.             (* ": " *)
Definition L_LT := 17.                (* "<" *)
Definition L_GT := 18.                (* ">" *)
Definition L_OF := 19.                (* " of " *)
Definition L_COMMA := 20.             (* ", " *)
Definition L_AS := 21.                (* "AS " *)
Definition L_NAME := 22.              (* "Name" *)
Definition L_INFO := 23.              (* "Info" *)
Definition L_HOST := 24.              (* "Host" *)
Definition L_GEO := 25.               (* "Geo" *)
Definition L_POS := 26.               (* "Pos" *)
Definition L_EXT := 27.               (* "Ext" *)
Definition L_NONE := 28.              (* "none" *)
Definition L_HOP := 29.               (* "Hop" *)
Definition L_GEOIP_NOT_ENABLED := 30. (* "GeoIp not enabled" *)
Definition L_GEOIP_NO_DATA := 31.     (* "No GeoIp data for hop" *)
Definition L_GEOIP_MULTIPLE := 32.    (* "Multiple GeoIp locations for hop" *)
Definition L_TARGET := 33.            (* "Target" *)
Definition L_ARROW := 34.             (* " -> " *)

(* ------------------------------------------------------------------ configuration and data *)

(* DnsEntry; the asinfo argument: None = Resolved::Normal / Unresolved::Normal,
   Some e = WithAsInfo with e = asinfo.asn.is_empty() *)
Inductive dns_entry :=
| DPending | DResolved (asinfo : option bool) | DNotFound (asinfo : option bool) | DFailed | DTimeout.

Record vcfg := mk_vcfg {
  c_privacy : option Z;             (* tui_config.privacy_max_ttl *)
  c_max_addrs : option Z;           (* tui_config.max_addrs *)
  c_addr_mode : Z;                  (* 0 Ip, 1 Host, 2 Both *)
  c_as_info : bool;                 (* lookup_as_info *)
  c_geo_mode : Z;                   (* 0 Off, else Short / Long / Location *)
  c_mmdb : bool;                    (* geoip_mmdb_file.is_some() *)
  c_dns : bool -> Z -> dns_entry;   (* lazy_reverse_lookup(_with_asinfo) of an address *)
  c_geo : Z -> option (Z * bool);   (* geoip_lookup.lookup: Some (location name, has coordinates) *)
  c_order : list (Z * Z) -> list (Z * Z)  (* sorted_unstable_by_key(count).rev(): the same entries in some order *)
}.

Definition with_privacy (c : vcfg) (p : option Z) : vcfg :=
  mk_vcfg p (c_max_addrs c) (c_addr_mode c) (c_as_info c) (c_geo_mode c) (c_mmdb c) (c_dns c) (c_geo c) (c_order c).

(* a hop as the views see it: ttl, total_recv, and its addresses with their counts (h_info) *)
Definition vhop := hop (list (Z * Z)).

Definition zlen {A} (l : list A) : Z := Z.of_nat (length l).
Definition zindex {A} (i : Z) (l : list A) : result A :=
  if 0 <=? i then index (Z.to_nat i) l else Fault OutOfBounds.

(* Ord::clamp: `assert!(min <= max)` *)
Definition clamp_r (x lo hi : Z) : result Z :=
  if lo <=? hi then Ok (Z.max lo (Z.min x hi)) else Fault Unreachable.

(* ------------------------------------------------------------------ table.rs *)

(* `pieces.join(sep)` *)
Fixpoint join_frags (sep : list frag) (ls : list (list frag)) : list frag :=
  match ls with
  | [] => []
  | l :: r => match r with [] => l | _ :: _ => l ++ sep ++ join_frags sep r end
  end.

(* "<text>" *)
Definition angle (n : Z) : list frag := [FLit L_LT; FLit n; FLit L_GT].

(* format_dns_entry (a Resolved entry is taken to have at least one host name) *)
Definition format_dns_entry (ttl a : Z) (e : dns_entry) (lookup_as : bool) : list frag :=
  match e with
  | DResolved None => [FHost ttl a]
  | DResolved (Some asn_empty) =>
    if lookup_as && negb asn_empty then [FAs ttl a AS_TABLE; FLit L_SP; FHost ttl a] else [FHost ttl a]
  | DNotFound None | DPending => [FAddr ttl a]
  | DNotFound (Some asn_empty) =>
    if lookup_as && negb asn_empty then [FAs ttl a AS_TABLE; FLit L_SP; FAddr ttl a] else [FAddr ttl a]
  | DFailed => [FLit L_DNS_FAILED; FLit L_COLON; FAddr ttl a]
  | DTimeout => [FLit L_DNS_TIMEOUT; FLit L_COLON; FAddr ttl a]
  end.

(* format_address: one line of the Host cell: address / host per address mode, then " [geo]" and, for a hop
   with several addresses, " [frequency]".  (Between the two the code prints " [extensions]" and " [NAT]" for
   a hop that carries ICMP extensions / for which NAT was detected: hops without either are modelled.) *)
Definition format_address (c : vcfg) (h : vhop) (af : Z * Z) : list frag :=
  let ttl := h_ttl h in
  let a := fst af in
  let host := format_dns_entry ttl a (c_dns c (c_as_info c) a) (c_as_info c) in
  let addr_fmt := if c_addr_mode c =? 0 then [FAddr ttl a]
                  else if c_addr_mode c =? 1 then host else host ++ [FLit L_LPAR; FAddr ttl a; FLit L_RPAR] in
  let geo := if c_geo_mode c =? 0 then []
             else match c_geo c a with
                  | Some _ => [FLit L_LBR; FGeo ttl a (c_geo_mode c); FLit L_RBR]
                  | None => []
                  end in
  let freq := if zlen (h_info h) >? 1 then [FLit L_LBR; FPct (snd af) (h_total_recv h); FLit L_RBR] else [] in
  addr_fmt ++ geo ++ freq.

(* the addresses render_hostname prints: all, or the max_addrs most frequent *)
Definition shown_addrs (c : vcfg) (h : vhop) : list (Z * Z) :=
  match c_max_addrs c with
  | None => h_info h
  | Some m => firstn (Z.to_nat m) (c_order c (h_info h))
  end.

Definition text_frags (t : text (list frag)) : list frag :=
  match t with Hidden => [FLit L_HIDDEN] | NoResponse => [FLit L_NO_RESPONSE] | Shown l => l end.

(* the lines of the normal branch of render_hostname: one per shown address, `.join("\n")` *)
Definition host_lines (c : vcfg) (h : vhop) : list frag :=
  join_frags [FLit L_NL] (map (format_address c h) (shown_addrs c h)).

(* render_hostname: the Host cell (decision: TuiPrivacy.render_hostname) *)
Definition host_cell (c : vcfg) (h : vhop) : list frag :=
  text_frags (render_hostname (c_privacy c) (host_lines c) h).

(* ... and the row height it returns *)
Definition host_rows (c : vcfg) (h : vhop) : result Z :=
  if h_total_recv h >? 0 then
    if hidden (c_privacy c) (h_ttl h) then Ok 1
    else match c_max_addrs c with
         | None => clamp_r (zlen (h_info h)) 1 255
         | Some m => clamp_r (zlen (h_info h)) 1 m
         end
  else Ok 1.

(* fmt_details_line / format_details: the seven detail lines of address number `offset`
     {addr} [{index} of {count}] / Host: .. / AS Name: .. / AS Info: .. / Geo: .. / Pos: .. / Ext: <none>
   (hops without ICMP extensions and without detected NAT, as above) *)
Definition format_details (c : vcfg) (h : vhop) (offset : Z) : list frag :=
  let ttl := h_ttl h in
  match nth_error (h_info h) (Z.to_nat offset) with
  | None => [FLit L_NO_ADDR_FOR_INDEX; FNum offset]
  | Some af =>
    let a := fst af in
    let geo := match c_geo c a with
               | Some _ => [FLit L_GEO; FLit L_COLON; FGeo ttl a 2; FLit L_NL; FLit L_POS; FLit L_COLON; FGeo ttl a GEO_POS]
               | None => [FLit L_GEO; FLit L_COLON] ++ angle L_NOT_FOUND ++ [FLit L_NL; FLit L_POS; FLit L_COLON] ++ angle L_NOT_FOUND
               end in
    let as2 (x y : list frag) :=
      [FLit L_AS; FLit L_NAME; FLit L_COLON] ++ x ++ [FLit L_NL; FLit L_AS; FLit L_INFO; FLit L_COLON] ++ y in
    let as_fmt (asinfo : option bool) :=
      if c_as_info c then
        match asinfo with
        | Some false => as2 [FAs ttl a AS_NAME] [FAs ttl a AS_INFO]
        | Some true => as2 (angle L_NOT_FOUND) (angle L_NOT_FOUND)
        | None => (* sic: the arguments of this format! are permuted in the code, it prints
                     "AS Name: <Info>" / "AS awaited: <awaited>" *)
          [FLit L_AS; FLit L_NAME; FLit L_COLON] ++ angle L_INFO ++ [FLit L_NL; FLit L_AS; FLit L_AWAITED; FLit L_COLON] ++ angle L_AWAITED
        end
      else as2 (angle L_NOT_ENABLED) (angle L_NOT_ENABLED) in
    let line (hosts : list frag) (asinfo : option bool) :=
      [FAddr ttl a; FLit L_LBR; FNum (offset + 1); FLit L_OF; FNum (zlen (h_info h)); FLit L_RBR; FLit L_NL; FLit L_HOST; FLit L_COLON] ++
      hosts ++ [FLit L_NL] ++ as_fmt asinfo ++ [FLit L_NL] ++ geo ++ [FLit L_NL; FLit L_EXT; FLit L_COLON] ++ angle L_NONE in
    match c_dns c (c_as_info c) a with
    | DPending => line (angle L_AWAITED) None
    | DResolved asinfo => line [FHost ttl a] asinfo
    | DNotFound asinfo => line (angle L_NOT_FOUND) asinfo
    | DFailed => [FLit L_DNS_FAILED; FLit L_COLON; FAddr ttl a]
    | DTimeout => [FLit L_DNS_TIMEOUT; FLit L_COLON; FAddr ttl a]
    end
  end.

(* render_hostname_with_details (decision: TuiPrivacy.render_hostname_with_details); height 7 *)
Definition host_cell_details (c : vcfg) (h : vhop) (offset : Z) : list frag :=
  text_frags (render_hostname_with_details (c_privacy c) (fun h => format_details c h offset) h).

(* ------------------------------------------------------------------ the state the views read *)

Record vstate := mk_vstate {
  s_cfg : vcfg;
  s_cols : list Z;               (* the shown columns; COL_HOST is the Host column *)
  s_hops : list vhop;            (* hops_for_flow(selected_flow) *)
  s_sel : option Z;              (* table_state.selected() *)
  s_hop_addr : Z;                (* selected_hop_address *)
  s_target : vhop;               (* target_hop(selected_flow) *)
  s_details : bool; s_chart : bool; s_map : bool; s_help : bool; s_settings : bool; s_flows : bool;
  s_error : bool;                (* selected_tracer_data.error().is_some() *)
  s_no_data : bool;              (* tracer_data().hops().is_empty() *)
  s_ntraces : Z; s_trace_sel : Z;
  s_flow_counts : list (Z * Z)
}.

Definition COL_HOST := 0.

Definition selected_hop (st : vstate) : result (option vhop) :=
  match s_sel st with
  | None => Ok None
  | Some i => let* h := zindex i (s_hops st) in Ok (Some h)
  end.

Definition selected_hop_or_target (st : vstate) : result vhop :=
  match s_sel st with
  | None => Ok (s_target st)
  | Some i => zindex i (s_hops st)
  end.

(* render_table_row / new_cell: the text of a row and its height *)
Definition table_row (st : vstate) (sel : option vhop) (h : vhop) : result (list frag * Z) :=
  let c := s_cfg st in
  let is_selected := match sel with Some s => h_ttl s =? h_ttl h | None => false end in
  let* hr := if is_selected && s_details st then Ok (host_cell_details c h (s_hop_addr st), 7)
             else let* n := host_rows c h in Ok (host_cell c h, n) in
  Ok (flat_map (fun col => if col =? COL_HOST then fst hr else [FLit col]) (s_cols st), snd hr).

Fixpoint map_r {A B} (f : A -> result B) (l : list A) : result (list B) :=
  match l with
  | [] => Ok []
  | x :: t => let* y := f x in let* r := map_r f t in Ok (y :: r)
  end.

(* the rows of the table: text and height of each *)
Definition table_rows (st : vstate) : result (list (list frag * Z)) :=
  let* sel := selected_hop st in
  map_r (table_row st sel) (s_hops st).

Definition table_view (st : vstate) : result (list frag) :=
  let* rows := table_rows st in
  Ok (map FLit (s_cols st) ++ flat_map fst rows).

(* ------------------------------------------------------------------ world.rs *)

(* geo_map.entry(long_name).or_insert(..).hops.push(ttl) *)
Fixpoint entry_add (name ttl : Z) (es : list (Z * list Z)) : list (Z * list Z) :=
  match es with
  | [] => [(name, [ttl])]
  | e :: r => if fst e =? name then (fst e, snd e ++ [ttl]) :: r else e :: entry_add name ttl r
  end.

Definition build_map_entries (c : vcfg) (hops : list vhop) : list (Z * list Z) :=
  fold_left (fun es h =>
    fold_left (fun es af => match c_geo c (fst af) with
                            | Some (name, true) => entry_add name (h_ttl h) es
                            | _ => es end) (h_info h) es) hops [].

(* render_map_canvas: pin + radius for an entry with a visible hop (decision: TuiPrivacy.map_pin_shown),
   and the selection box when the selected (or target) hop is one of the entry's hops *)
Definition map_marks (c : vcfg) (es : list (Z * list Z)) (sel_ttl : Z) : list mark :=
  flat_map (fun e =>
    if map_pin_shown (c_privacy c) (snd e)
    then [MPin (fst e); MRadius (fst e)] ++
         (if existsb (fun t => t =? sel_ttl) (snd e) then [MSelBox (fst e) sel_ttl] else [])
    else []) es.

(* render_map_info_panel (decision: TuiPrivacy.render_map_info_panel): the title "Hop {ttl}" of the panel,
   then its one line of text *)
Definition map_info (c : vcfg) (es : list (Z * list Z)) (sel : vhop) : list frag :=
  let ttl := h_ttl sel in
  [FLit L_HOP; FLit L_SP; FNum ttl; FLit L_NL] ++
  text_frags (render_map_info_panel (c_privacy c) (fun sel =>
    if negb (c_mmdb c) then [FLit L_GEOIP_NOT_ENABLED]
    else match filter (fun e => existsb (fun t => t =? ttl) (snd e)) es with
         | [] => if zlen (h_info sel) >? 0
                 then [FLit L_GEOIP_NO_DATA; FLit L_SP; FNum ttl; FLit L_LPAR] ++
                      join_frags [FLit L_COMMA] (map (fun af => [FAddr ttl (fst af)]) (h_info sel)) ++ [FLit L_RPAR]
                 else [FLit L_GEOIP_NO_DATA; FLit L_SP; FNum ttl]
         | [e] => [FLoc ttl (fst e)]
         | _ => [FLit L_GEOIP_MULTIPLE; FLit L_SP; FNum ttl]
         end) sel).

Definition world_view (st : vstate) : result (list frag * list mark) :=
  let es := build_map_entries (s_cfg st) (s_hops st) in
  let* sel := selected_hop_or_target st in
  Ok (map_info (s_cfg st) es sel, map_marks (s_cfg st) es (h_ttl sel)).

(* ------------------------------------------------------------------ the other views *)

(* header.rs: title, clock, key hints, "Target: source -> destination", status, hop and flow counts *)
(* the line "Target: {source} -> {destination}" (compared with the real frames like the table cells) *)
Definition target_line (privacy : option Z) (trace_sel : Z) : list frag :=
  [FLit L_TARGET; FLit L_COLON] ++ text_frags (render_source privacy [FSrc]) ++ [FLit L_ARROW] ++
  text_frags (render_destination privacy [FDest trace_sel]).

Definition header_view (st : vstate) : list frag :=
  [FLit L_LABEL] ++ target_line (c_privacy (s_cfg st)) (s_trace_sel st) ++
  [FLit L_LABEL; FLit (zlen (s_hops st)); FLit (zlen (s_flow_counts st))].

(* tabs.rs: one title per trace, its target_hostname *)
Definition tabs_view (st : vstate) : list frag :=
  map (fun i => FDest (Z.of_nat i)) (seq 0 (Z.to_nat (s_ntraces st))).

(* flows.rs: one bar per flow: its id and its round count *)
Definition flows_view (st : vstate) : list frag :=
  flat_map (fun fc => [FLit (fst fc); FLit (snd fc)]) (s_flow_counts st).

(* chart.rs: one dataset per hop named "Hop i+1" (by position), axis labels *)
Definition chart_view (st : vstate) : result (list frag) :=
  let* _ := selected_hop_or_target st in
  Ok (flat_map (fun i => [FLit L_LABEL; FLit (Z.of_nat i + 1)]) (seq 0 (length (s_hops st))) ++ [FLit L_LABEL; FLit L_LABEL]).

(* footer.rs: history.rs + histogram.rs: titles "Samples #ttl", "Frequency #ttl", bars of round-trip times *)
Definition footer_view (st : vstate) : result (list frag) :=
  let* h := selected_hop_or_target st in
  Ok [FLit L_LABEL; FLit (h_ttl h); FLit L_LABEL; FLit (h_ttl h)].

(* bar.rs: protocol, privilege mode, locale, ASN / details / address mode / privacy / max hosts *)
Definition bar_view (st : vstate) : list frag :=
  [FLit L_LABEL; FLit L_LABEL; FLit L_LABEL; FLit (level (c_privacy (s_cfg st)));
   FLit (match c_max_addrs (s_cfg st) with Some m => m | None => -1 end)].

(* settings.rs / help.rs: configuration values, key names, static text *)
Definition dialog_view (st : vstate) : list frag :=
  if s_settings st then [FLit L_LABEL; FLit (level (c_privacy (s_cfg st)))]
  else if s_help st then [FLit L_LABEL] else [].

(* body.rs *)
Definition body_view (st : vstate) : result (list frag * list mark) :=
  if s_error st then Ok ([FLit L_LABEL], [])              (* bsod: the error message *)
  else if s_no_data st then Ok ([FLit L_LABEL], [])       (* splash *)
  else if s_chart st then let* t := chart_view st in Ok (t, [])
  else if s_map st then world_view st
  else let* t := table_view st in Ok (t, []).

(* body.rs once more, keeping the structure the flat text above forgets: which view, and row by row *)
Inductive body :=
| BError | BSplash
| BChart (t : list frag)
| BMap (info : list frag) (marks : list mark)
| BTable (rows : list (list frag * Z)).

Definition body_struct (st : vstate) : result body :=
  if s_error st then Ok BError
  else if s_no_data st then Ok BSplash
  else if s_chart st then let* t := chart_view st in Ok (BChart t)
  else if s_map st then let* w := world_view st in Ok (BMap (fst w) (snd w))
  else let* rows := table_rows st in Ok (BTable rows).

(* app.rs render *)
Definition render (st : vstate) : result (list frag * list mark) :=
  let mid := if 1 <? s_ntraces st then tabs_view st else if s_flows st then flows_view st else [] in
  let* body := body_view st in
  let* foot := footer_view st in
  Ok (header_view st ++ mid ++ fst body ++ foot ++ bar_view st ++ dialog_view st, snd body).

End TuiViews.
