# ---- C17 / C18 (append to bin/manifest_data.py; then python3 bin/gen_manifest.py) --------------
TUI_NOTE = ('trusted: Coq kernel; hand-written models Tui/App.v (TuiApp methods, run_app prologue and key dispatch, State accessors by flow id, over the SHAPE of the '
            'trace data) and Tui/Privacy.v, of the code AFTER the repairs C17_fix_1..4; tied to the code by replaying recorded op lists through the extracted model '
            '(harness/htui: real TuiApp over never-running tracers fed with Tracer::verif_apply_round, ratatui TestBackend); no axioms. The key dispatch chain of run_app '
            'cannot be separated from the crossterm event loop: the harness carries a transcription of it (using the real KeyBinding::check and the real TuiApp methods).')
CLAIMED['C17'] = dict(
    text='PARTIAL (by nature). PROVED in Coq, for every interleaving of unboundedly many data-shape changes (new rounds, clear, new / vanished flows, growing / shrinking paths, '
         'hops losing addresses), TuiApp method calls, key events through the run_app dispatch and frames: no step is a fault (no missing State map key, no index out of bounds, '
         'no usize underflow, no unwrap on None, incl. every accessor the views evaluate) and after every step the selected trace, flow, hop, hop address, flow_counts entry, '
         'settings tab, settings item and column index refer to existing entries of the data on display (c17_selection_valid, c17_every_step). '
         'ONLY EXECUTED, not proved: that ratatui drawing (render::app::render as a whole: layout solver, widgets, chart, canvas, unicode width) neither panics nor hangs - '
         'every scenario is drawn on a TestBackend at 1x1..300x100 under catch_unwind and a watchdog; implementation and model agree on the selection state after every op.',
    note=TUI_NOTE + ' Environment assumption of the theorems (wf_shape: flow 0 and every registered flow in the map, registered ids non-zero and containing 1, at most max_flows, '
         'at most 254 hops) is checked on every observed State. Known finding, not repaired (dependency): the table layout solver (cassowary via ratatui 0.29) occasionally does not '
         'return when the shown columns need more width than the terminal has (hash-order dependent).',
    technique='Coq proof (selection invariant by induction over the op list) + op-list replay of the extracted model vs the real TuiApp + panic / stale-index / hang oracle on a TestBackend')
CLAIMED['C18'] = dict(
    text='PARTIAL (by nature). PROVED in Coq: with privacy n every view decision (Host cell with and without hop details, map pin filter, map info panel) yields the placeholder for every '
         'hop with ttl <= n and is independent of the hop\'s address / hostname / AS / GeoIP strings (the formatting function of the normal branch is arbitrary), takes the normal branch for ttl > n '
         'and when privacy is off; the source is hidden iff privacy is on; expand / contract move n by exactly one step along off,0,..,hop_count, never fault and never leave that range over any command sequence. '
         'ONLY EXECUTED, not proved: that no other code path writes hidden text to the frame - unique sentinel strings for IP, reverse-DNS, AS and GeoIP fields are searched in the TestBackend cells '
         'of every frame re-drawn across the view matrix (view x selected row x details x address mode x AS mode x GeoIP mode x max_addrs x size, 120960 combinations walked by a running counter).',
    note=TUI_NOTE + ' Known finding, not repaired (by design of the feature): the destination in the header line is never hidden, so the address of the target hop is on screen even when its ttl <= n '
         '(c18_destination_refuted; oracle tag C18:dest_in_header).',
    technique='Coq proof (case analysis of the Option<u8> comparison, parametric in the formatting function; walk invariant for expand/contract) + sentinel search in rendered frames + model prediction of privacy value and per-row H/N/V')
