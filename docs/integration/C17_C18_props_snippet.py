# ---- C17 / C18 (append to bin/props.py) -------------------------------------------------------
def compare_tui(inp, impl_out, model_out):
    """state after every op; `fault:<x>` compared as `fault`; a frame that the watchdog reported as a hang
    (`fault:hang`) or as a panic of its layout solver (`fault:layout_solver`) - behaviours of the drawing library that are outside the model - ends the comparison there"""
    a, b = norm_fault(impl_out).split(';'), norm_fault(model_out or '').split(';')
    if a and (impl_out.endswith('fault:hang') or impl_out.endswith('fault:layout_solver')):
        return a[:-1] == b[:len(a) - 1]
    return a == b


def tui_nontrivial(inp, outp):
    # a scenario with at least one answering hop on screen and at least one command or key
    return re.search(r'\d+c\d+', inp) is not None and (';K:' in inp or ';M:' in inp)


TUI_TRUSTED = ['Rust harness harness/htui (op generator, scripted rounds through Tracer::verif_apply_round, ratatui TestBackend, '
               'transcription of the run_app key dispatch chain, watchdog) in place of harness/hcore']

C17_RULE = ('scenarios = initial TUI configuration (1-3 traces, max_flows 1-8, 5 column sets, privacy, max_addrs) + op list: rounds built from '
            'evolving path sets (silent hops, ECMP variants, longer/shorter variants, up to 254 hops, first_ttl 1-5, irregular rounds with failed / '
            're-issued probes), Tracer::clear, error set/reset, every TuiApp method, every binding of the default key table through the dispatch chain, '
            'frames on a TestBackend at 13 boundary sizes 1x1..300x100 and random sizes; 11 directed scenarios (one per defect class found + settings / '
            'size / 254-hop walks). Implementation and extracted model are compared on the selection state after EVERY op. '
            'non-trivial = an answering hop exists and at least one command was issued; distinct = distinct scenario line')
C18_RULE = ('scenarios as for C17 but every address gets unique sentinel strings for IP, reverse-DNS name, AS number / name / prefix / registry / country and '
            'GeoIP city / region / country / continent / coordinates (seeded resolver cache and GeoIP lookup); after every frame the harness re-draws the same '
            'state in every view (table, hop details, chart, map, help, settings x 7 tabs) x address mode (ip, host, both) x AS mode (6) x GeoIP mode (4) x '
            'max_addrs x 4 sizes and searches the cells of each for the sentinels of hops with ttl <= n and for the source address; the model predicts the privacy '
            'value after every op and H/N/V per row at every frame. non-trivial = privacy in force with at least one answering hop hidden; distinct = distinct scenario line')


def c18_nontrivial(inp, outp):
    return re.search(r'(^|;)\d+:[NV]*H', outp) is not None


PROPS['C17'] = dict(
    crates=['htui'], modes=[('htui', 'c17')], nontrivial=tui_nontrivial, compare=compare_tui, oracle_tag='C17',
    rule=C17_RULE, timeout={'quick': 600, 'thorough': 3000}, trusted_extra=TUI_TRUSTED,
    explanation='PARTIAL by nature. PROVED in Coq for all histories (any interleaving of data-shape changes, method calls, key events and frames, unbounded): '
                'the selection state machine of TuiApp never faults (no missing flow key, no index out of bounds, no usize underflow, no unwrap on None) and after '
                'every step every selection index (trace, flow, hop, hop address, flow_counts entry, settings tab, settings item, column) refers to an existing entry. '
                'ONLY EXECUTED (sampled, not proved): that render::app::render as a whole (ratatui layout, widgets, chart, canvas, unicode width) neither panics nor hangs - '
                'cases = scenarios run on a TestBackend under catch_unwind and a watchdog; the number of frames drawn is in input_distribution.',
    assumptions=['environment assumption of the theorems (checked by the oracle on every observed State): the State map contains flow 0 and every registered flow, '
                 'registered ids are non-zero and include 1 when any, at most max_flows are registered, a flow has at most 254 hops',
                 'the key dispatch chain of run_app is transcribed in the harness (it cannot be separated from the crossterm event loop); the model has its own transcription'],
)
PROPS['C18'] = dict(
    crates=['htui'], modes=[('htui', 'c18')], nontrivial=c18_nontrivial, compare=compare_tui, oracle_tag='C18',
    rule=C18_RULE, timeout={'quick': 600, 'thorough': 3000}, trusted_extra=TUI_TRUSTED,
    explanation='PARTIAL by nature. PROVED in Coq: each privacy decision of the views (Host cell, Host cell with details, map pin filter, map info panel, source) '
                'chooses the placeholder for every hop with ttl <= n whatever the hop\'s strings are, takes the normal branch above n, hides the source iff privacy is on; '
                'expand / contract move n by exactly one step on off,0,1,..,hop_count and never outside. ONLY EXECUTED (sampled): that no other code path of the drawing '
                'code writes hidden text into the frame - sentinel search in the TestBackend cells over the view matrix listed in `rule`.',
    assumptions=['the destination (target) address in the header is not covered by the privacy setting (listed known finding when the target hop itself is within n)'],
)
