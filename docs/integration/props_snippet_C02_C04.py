# ---------------------------------------------------------------- receive path (C02 decode half, C04 receive half)
def compare_recv(inp, impl_out, model_out):
    """identical canonical output; a panic of the implementation corresponds to any Fault of the model"""
    return norm_fault(impl_out) == norm_fault(model_out)


def recv_decoded(inp, outp):
    return outp[:3] in ('te/', 'du/', 'er/', 'tr/', 'tf/')


def c02_nontrivial(inp, outp):
    # an own / foreign quotation that reached the strategy side, or a dispatched probe
    return ' acc=' in outp or (inp.startswith('probe ') and not outp.startswith('err'))


RECV_RULE = ('real Channel<SimSocket>::recv_probe on one datagram per case (harness mode recv): (i) structure-aware stream - for every configuration cell '
             '(ICMP, UDP classic/Paris/Dublin x fixed src/dest/both, TCP; IPv4 and IPv6; privileged/unprivileged; extension parsing on/off) a probe datagram and a '
             'standards-conforming Time Exceeded / Destination Unreachable / Echo Reply built by an independent Rust encoder (quotation length 28..full, TTL/TOS/checksum rewritten, '
             'no extension / RFC 4884 / legacy 128-octet extension with MPLS and unknown objects, outer IPv4 options), then one identity facet made foreign, one length / offset / protocol field mutated, '
             'truncation at every position; (ii) random byte strings; (iii) sweeps of outer IHL 0..15, nested IHL 0..15, UDP length, IPv6 payload length, extension object lengths against every buffer length '
             '0..160 (quick) / 0..1024 (thorough) and the RFC 4884 length octet 0..255; TCP socket outcomes; the bytes the real dispatch hands to send_to for every cell. '
             'Each line is replayed through the extracted model (recv4 / recv6 / recv_probe / accept_info / probe_sendto). ')

PROPS['C02'] = dict(
    crates=['hcore'], modes=[('hcore', 'recv')], nontrivial=c02_nontrivial, compare=compare_recv, oracle_tag='C02',
    rule=RECV_RULE + 'C02 oracle (model free): for an own quotation the real strategy-side functions (TracerStateHandle::response_sequence / accepts) must accept it and recover exactly '
         'the probe sequence; a foreign quotation must never be accepted; dispatched probes must carry identifier / sequence / ports / checksum / marker at the RFC offsets. '
         'non-trivial = a case that reached the strategy side or a dispatched probe; distinct = distinct input line',
    exhaustive={'quick': False, 'thorough': False},
    explanation='sampled: sequences, addresses, sizes, peer behaviours; the theorems of Props/C02.v quantify over all of them',
    timeout={'quick': 600, 'thorough': 3000},
)
# C04: the receive-path mode joins the packet-half mode of the existing entry
def is_recv_line(inp):
    return inp.split(' ', 1)[0] in ('recv', 'tcpsock', 'probe')


_c04_pkt = PROPS['C04']
PROPS['C04'] = dict(
    _c04_pkt, modes=_c04_pkt['modes'] + [('hcore', 'recv')],
    compare=lambda inp, a, b: compare_recv(inp, a, b) if is_recv_line(inp) else _c04_pkt['compare'](inp, a, b),
    nontrivial=lambda inp, o: recv_decoded(inp, o) if is_recv_line(inp) else _c04_pkt['nontrivial'](inp, o),
    rule=_c04_pkt['rule'] + ' || ' + RECV_RULE + 'C04 oracle for the receive path: the call panicked (arithmetic overflow checks on, as in the harness profile); non-trivial = a response was decoded',
    explanation=_c04_pkt.get('explanation', '') + '; receive path: field x buffer-length sweeps are complete for the listed value sets, contents are sampled, the theorems cover every byte string of every length',
    timeout={'quick': 600, 'thorough': 3000},
)
