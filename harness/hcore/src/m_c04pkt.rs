//! C04, packet half: every public non-mutating accessor / payload() / iterator / Debug of every trippy-packet view,
//! over arbitrary buffers, returns without panicking, overflowing or looping.
//! `view NAME HEX`  : all accessors of one view over one buffer (values compared with the model);
//! `sweep NAME FIELD LEN SEED` : one buffer length, EVERY value of a length-like field, digests of the slices returned.
//! Oracle: "did it panic" (or exceed the iteration bound).
use crate::pkt::*;
use crate::rng::{hex, unhex, Rng};
use crate::{Args, Out};

fn oracle_of(name: &str, line: &str) -> String {
    let mut fails: Vec<String> = vec![];
    for t in line.split(' ') {
        if t.contains("fault") {
            fails.push(format!("C04:panic_in_{name}.{}", t.split('=').next().unwrap_or("?")));
        }
    }
    if fails.is_empty() { "ok".to_string() } else { format!("FAIL:{}", fails.join(";")) }
}

fn view_case(name: &str, buf: &[u8], out: &mut Out) {
    let input = format!("view {name} {}", hex(buf));
    let line = view_line(name, buf);
    let o = oracle_of(name, &line);
    out.case(&input, &line, &o);
}

fn sweep_case(name: &str, field: &str, len: usize, seed: usize, out: &mut Out) {
    let input = format!("sweep {name} {field} {len} {seed}");
    let line = sweep_line(name, field, len, seed);
    let mut fails: Vec<String> = vec![];
    for t in line.split(',') {
        let mut it = t.splitn(2, ':');
        let v = it.next().unwrap_or("?");
        if it.next().unwrap_or("").split('|').any(|d| d == "F") {
            fails.push(format!("C04:panic_in_{name}_{field}={v}_buffer_length={len}"));
            if fails.len() >= 3 { break; }
        }
    }
    let o = if fails.is_empty() { "ok".to_string() } else { format!("FAIL:{}", fails.join(";")) };
    out.case(&input, &line, &o);
}

/// a plausible packet for the view, with consistent length fields (then mutated by the caller)
fn structured(name: &str, rng: &mut Rng, len: usize) -> Vec<u8> {
    let mut b = rng.bytes(len);
    match name {
        "ipv4" if len >= 20 => {
            let ihl = rng.range(5, 15) as u8;
            b[0] = 0x40 | ihl;
            b[2] = (len >> 8) as u8;
            b[3] = len as u8;
        }
        "ipv6" if len >= 40 => {
            b[0] = 0x60 | (b[0] & 15);
            let pl = len - 40;
            b[4] = (pl >> 8) as u8;
            b[5] = pl as u8;
        }
        "tcp" if len >= 20 => {
            b[12] = ((rng.range(5, 15) as u8) << 4) | (b[12] & 15);
        }
        "udp" if len >= 8 => {
            b[4] = (len >> 8) as u8;
            b[5] = len as u8;
        }
        "te4" | "du4" | "te6" | "du6" if len >= 8 => {
            let v6 = name.ends_with('6');
            let no = rng.below(4) as usize;
            let objs = random_objs(rng, no);
            let olen = rng.range(1, 200) as usize;
            let orig = rng.bytes(olen);
            let mut fixed = [0u8; 7];
            fixed.copy_from_slice(&b[..7]);
            b = build_message(v6, &fixed, &orig, &objs, rng.chance(2, 3));
            b.truncate(len.max(8).min(b.len()));
        }
        "exts" if len >= 4 => {
            let n = rng.below(5) as usize;
            b = ext_structure(&random_objs(rng, n));
        }
        "extobj" if len >= 4 => {
            b = enc_obj(&random_obj(rng));
            b.extend(rng.bytes(len % 7));
        }
        "mplsstack" if len >= 4 => {
            let d = rng.range(1, 8) as usize;
            b = random_stack(rng, d, true).iter().flat_map(|e| enc_lse(e).to_vec()).collect();
            b.extend(rng.bytes(len % 4));
        }
        _ => {}
    }
    b
}

/// offsets of the length-like fields of a view (mutated to boundary values)
fn length_fields(name: &str) -> Vec<(usize, usize)> {
    // (offset, width in octets)
    match name {
        "ipv4" => vec![(0, 1), (2, 2)],
        "ipv6" => vec![(4, 2)],
        "udp" => vec![(4, 2)],
        "tcp" => vec![(12, 1)],
        "te4" | "du4" => vec![(5, 1)],
        "te6" | "du6" => vec![(4, 1)],
        "exts" => vec![(0, 1), (4, 2)],
        "extobj" => vec![(0, 2)],
        "mplsstack" | "mplsmember" => vec![(2, 1)],
        _ => vec![],
    }
}

pub fn run(args: &Args, out: &mut Out) {
    if let Some(path) = &args.replay {
        for l in crate::replay_inputs(path) {
            let t: Vec<&str> = l.split(' ').collect();
            match t[0] {
                "view" if t.len() >= 3 => view_case(t[1], &unhex(t[2]), out),
                "sweep" if t.len() >= 5 => sweep_case(t[1], t[2], t[3].parse().unwrap(), t[4].parse().unwrap(), out),
                _ => {}
            }
        }
        return;
    }
    let mut rng = Rng::new(args.seed);
    let th = args.tier_thorough;
    let maxlen = if th { 1024usize } else { 160 };
    let (mut n_short, mut n_random, mut n_struct, mut n_mut, mut n_sweep_lines, mut n_sweep_points) = (0usize, 0usize, 0usize, 0usize, 0usize, 0usize);

    for (name, min) in VIEWS {
        // below / at / just above the minimum size (new_view must refuse, accessors at the very edge)
        for len in 0..=(min + 4) {
            view_case(name, &rng.bytes(len), out);
            view_case(name, &vec![0xFFu8; len], out);
            n_short += 2;
        }
        // fully random buffers
        for _ in 0..(if th { 400 } else { 120 }) {
            let len = rng.range(min as u64, maxlen as u64) as usize;
            view_case(name, &rng.bytes(len), out);
            n_random += 1;
        }
        // structure-aware, then one length-like field set to a boundary value, then truncated
        for _ in 0..(if th { 300 } else { 80 }) {
            let len = rng.range(min as u64, maxlen as u64) as usize;
            let b = structured(name, &mut rng, len);
            view_case(name, &b, out);
            n_struct += 1;
            for (off, w) in length_fields(name) {
                for _ in 0..2 {
                    let mut m = b.clone();
                    if off + w > m.len() { continue; }
                    if w == 1 {
                        m[off] = *rng.pick(&[0u8, 1, 0x0F, 0x10, 0x1F, 0x20, 0x21, 0x3F, 0x40, 0x45, 0x4F, 0x50, 0xF0, 0xFF]);
                    } else {
                        let cand = objlen_domain(m.len() as i64);
                        let v = *rng.pick(&cand);
                        m[off] = (v >> 8) as u8;
                        m[off + 1] = v as u8;
                    }
                    view_case(name, &m, out);
                    n_mut += 1;
                }
            }
            if b.len() > min {
                let cut = rng.range(min as u64, b.len() as u64 - 1) as usize;
                view_case(name, &b[..cut], out);
                n_mut += 1;
            }
        }
    }

    // exhaustive sweeps: every value of each length-like field x every buffer length from the minimum
    for (name, field, min) in SWEEPS {
        for len in min..=maxlen {
            for seed in 1..=(if th { 2usize } else { 1 }) {
                sweep_case(name, field, len, seed, out);
                n_sweep_lines += 1;
                n_sweep_points += match field { "ihl" | "doff" => 16, "len" => 256, _ => 30 };
            }
        }
    }
    out.stat("views", VIEWS.len());
    out.stat("buffers_around_minimum_size", n_short);
    out.stat("random_buffers", n_random);
    out.stat("structured_packets", n_struct);
    out.stat("length_field_mutations_and_truncations", n_mut);
    out.stat("sweep_lines", n_sweep_lines);
    out.stat("sweep_points_field_value_x_buffer_length", n_sweep_points);
    out.stat("sweep_buffer_lengths", format!("minimum..={maxlen} all"));
}
