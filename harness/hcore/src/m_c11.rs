//! C11: every probe put on the wire is well-formed and as configured.
//!
//! The real `Channel` (net/channel.rs -> net/ipv4.rs / net/ipv6.rs -> trippy-packet) runs over a
//! recording `Socket`; the observable is the rendered list of socket calls (format of
//! `sim::Op::render`) plus the result of `send_probe`.  The oracle is an RFC 791 / 792 / 768 /
//! 4443 / 8200 decoder written here from the RFC bit offsets (`bits`), it does not use trippy-packet.
use crate::rng::{hex, unhex, Rng};
use crate::sim::{Call, Op};
use crate::{Args, Out};
use std::cell::RefCell;
use std::io;
use std::net::{IpAddr, Ipv4Addr, Ipv6Addr, SocketAddr};
use std::time::Duration;
use trippy_core::verif::{
    Channel, ChannelConfig, ErrorKind as TErrorKind, IoError, IoOperation, IoResult, Network, Socket, SocketError,
};
use trippy_core::{
    Error, Flags, IcmpExtensionParseMode, PacketSize, PayloadPattern, Port, PrivilegeMode, Probe, Protocol, RoundId,
    Sequence, TimeToLive, TraceId, TypeOfService,
};

// ---------------------------------------------------------------------------------------------
// recording socket
// ---------------------------------------------------------------------------------------------
#[derive(Default)]
struct World {
    ops: Vec<Op>,
    next_id: usize,
    /// injected failures: (call kind, error code); consumed by the first call of that kind
    inject: Vec<(Call, i64)>,
}
thread_local! {
    static W: RefCell<World> = RefCell::new(World::default());
}
fn with<R>(f: impl FnOnce(&mut World) -> R) -> R {
    W.with(|w| f(&mut w.borrow_mut()))
}
fn take(w: &mut World, call: Call) -> Option<io::Error> {
    let i = w.inject.iter().position(|(c, _)| *c == call)?;
    Some(code_to_error(w.inject.remove(i).1))
}

/// error codes shared with the model (Net/Sock.v): 1..3 carry the raw OS error the code looks at,
/// 10.. are plain `io::ErrorKind`s (15/16: the *std* kinds HostUnreachable / NetworkUnreachable
/// without an errno, which the code does not treat as unreachable).
fn code_to_error(code: i64) -> io::Error {
    match code {
        1 => io::Error::from(TErrorKind::InProgress),
        2 => io::Error::from(TErrorKind::HostUnreachable),
        3 => io::Error::from(TErrorKind::NetUnreachable),
        10 => io::Error::from(io::ErrorKind::AddrInUse),
        11 => io::Error::from(io::ErrorKind::AddrNotAvailable),
        12 => io::Error::from(io::ErrorKind::InvalidInput),
        13 => io::Error::from(io::ErrorKind::PermissionDenied),
        14 => io::Error::from(io::ErrorKind::Other),
        15 => io::Error::from(io::ErrorKind::HostUnreachable),
        16 => io::Error::from(io::ErrorKind::NetworkUnreachable),
        17 => io::Error::from(io::ErrorKind::WouldBlock),
        _ => io::Error::from(io::ErrorKind::ConnectionRefused),
    }
}
fn error_to_code(e: &IoError) -> i64 {
    match e.kind() {
        TErrorKind::InProgress => 1,
        TErrorKind::HostUnreachable => 2,
        TErrorKind::NetUnreachable => 3,
        TErrorKind::Std(k) => match k {
            io::ErrorKind::AddrInUse => 10,
            io::ErrorKind::AddrNotAvailable => 11,
            io::ErrorKind::InvalidInput => 12,
            io::ErrorKind::PermissionDenied => 13,
            io::ErrorKind::Other => 14,
            io::ErrorKind::HostUnreachable => 15,
            io::ErrorKind::NetworkUnreachable => 16,
            io::ErrorKind::WouldBlock => 17,
            _ => 18,
        },
    }
}
const CODES: [i64; 12] = [1, 2, 3, 10, 11, 12, 13, 14, 15, 16, 17, 18];

struct CSock {
    id: usize,
}
fn new_sock(kind: &'static str, raw: bool) -> IoResult<CSock> {
    with(|w| {
        if let Some(e) = take(w, Call::New) {
            return Err(IoError::Other(e, IoOperation::NewSocket));
        }
        let id = w.next_id;
        w.next_id += 1;
        w.ops.push(Op::New(kind, raw));
        Ok(CSock { id })
    })
}
fn unused<T>() -> IoResult<T> {
    Err(IoError::Other(io::Error::from(io::ErrorKind::Unsupported), IoOperation::Select))
}
impl Socket for CSock {
    fn new_icmp_send_socket_ipv4(raw: bool) -> IoResult<Self> {
        new_sock("icmp4", raw)
    }
    fn new_icmp_send_socket_ipv6(raw: bool) -> IoResult<Self> {
        new_sock("icmp6", raw)
    }
    fn new_udp_send_socket_ipv4(raw: bool) -> IoResult<Self> {
        new_sock("udp4", raw)
    }
    fn new_udp_send_socket_ipv6(raw: bool) -> IoResult<Self> {
        new_sock("udp6", raw)
    }
    fn new_recv_socket_ipv4(_addr: Ipv4Addr, raw: bool) -> IoResult<Self> {
        new_sock("recv4", raw)
    }
    fn new_recv_socket_ipv6(_addr: Ipv6Addr, raw: bool) -> IoResult<Self> {
        new_sock("recv6", raw)
    }
    fn new_stream_socket_ipv4() -> IoResult<Self> {
        new_sock("tcp4", false)
    }
    fn new_stream_socket_ipv6() -> IoResult<Self> {
        new_sock("tcp6", false)
    }
    fn new_udp_dgram_socket_ipv4() -> IoResult<Self> {
        new_sock("dgram4", false)
    }
    fn new_udp_dgram_socket_ipv6() -> IoResult<Self> {
        new_sock("dgram6", false)
    }
    fn bind(&mut self, address: SocketAddr) -> IoResult<()> {
        with(|w| {
            w.ops.push(Op::Bind(self.id, address));
            take(w, Call::Bind).map_or(Ok(()), |e| Err(IoError::Bind(e, address)))
        })
    }
    fn set_tos(&mut self, tos: u32) -> IoResult<()> {
        with(|w| {
            w.ops.push(Op::SetTos(self.id, tos));
            take(w, Call::SetTos).map_or(Ok(()), |e| Err(IoError::Other(e, IoOperation::SetTos)))
        })
    }
    fn set_ttl(&mut self, ttl: u32) -> IoResult<()> {
        with(|w| {
            w.ops.push(Op::SetTtl(self.id, ttl));
            take(w, Call::SetTtl).map_or(Ok(()), |e| Err(IoError::Other(e, IoOperation::SetTtl)))
        })
    }
    fn set_reuse_port(&mut self, reuse: bool) -> IoResult<()> {
        with(|w| w.ops.push(Op::SetReusePort(self.id, reuse)));
        Ok(())
    }
    fn set_header_included(&mut self, included: bool) -> IoResult<()> {
        with(|w| w.ops.push(Op::SetHeaderIncluded(self.id, included)));
        Ok(())
    }
    fn set_unicast_hops_v6(&mut self, hops: u8) -> IoResult<()> {
        with(|w| {
            w.ops.push(Op::SetUnicastHopsV6(self.id, hops));
            take(w, Call::Hops).map_or(Ok(()), |e| Err(IoError::Other(e, IoOperation::SetUnicastHopsV6)))
        })
    }
    fn connect(&mut self, address: SocketAddr) -> IoResult<()> {
        with(|w| {
            w.ops.push(Op::Connect(self.id, address));
            take(w, Call::Connect).map_or(Ok(()), |e| Err(IoError::Connect(e, address)))
        })
    }
    fn send_to(&mut self, buf: &[u8], addr: SocketAddr) -> IoResult<()> {
        with(|w| {
            w.ops.push(Op::SendTo(self.id, buf.to_vec(), addr));
            take(w, Call::SendTo).map_or(Ok(()), |e| Err(IoError::SendTo(e, addr)))
        })
    }
    fn is_readable(&mut self, _timeout: Duration) -> IoResult<bool> {
        Ok(false)
    }
    fn is_writable(&mut self) -> IoResult<bool> {
        Ok(false)
    }
    fn recv_from(&mut self, _buf: &mut [u8]) -> IoResult<(usize, Option<SocketAddr>)> {
        unused()
    }
    fn read(&mut self, _buf: &mut [u8]) -> IoResult<usize> {
        unused()
    }
    fn shutdown(&mut self) -> IoResult<()> {
        Ok(())
    }
    fn peer_addr(&mut self) -> IoResult<Option<SocketAddr>> {
        Ok(None)
    }
    fn take_error(&mut self) -> IoResult<Option<SocketError>> {
        Ok(None)
    }
    fn icmp_error_info(&mut self) -> IoResult<IpAddr> {
        unused()
    }
}

// ---------------------------------------------------------------------------------------------
// one case
// ---------------------------------------------------------------------------------------------
#[derive(Clone, Debug)]
struct Case {
    privileged: bool,
    proto: &'static str,
    src: Vec<u8>,
    dst: Vec<u8>,
    size: u16,
    pattern: u8,
    iseq: u16,
    tos: u8,
    seq: u16,
    id: u16,
    sp: u16,
    dp: u16,
    ttl: u8,
    flags: u32,
    inject: Vec<(Call, i64)>,
}

fn call_name(c: Call) -> &'static str {
    match c {
        Call::New => "new",
        Call::Bind => "bind",
        Call::Connect => "connect",
        Call::SendTo => "sendto",
        Call::SetTtl => "ttl",
        Call::SetTos => "tos",
        Call::Hops => "hops",
        _ => "other",
    }
}
fn call_of(s: &str) -> Call {
    match s {
        "new" => Call::New,
        "bind" => Call::Bind,
        "connect" => Call::Connect,
        "sendto" => Call::SendTo,
        "ttl" => Call::SetTtl,
        "tos" => Call::SetTos,
        _ => Call::Hops,
    }
}
fn proto_of(s: &str) -> &'static str {
    match s {
        "icmp" => "icmp",
        "udp" => "udp",
        _ => "tcp",
    }
}

impl Case {
    fn line(&self) -> String {
        let inj = if self.inject.is_empty() {
            "-".to_string()
        } else {
            self.inject.iter().map(|(c, k)| format!("{}:{k}", call_name(*c))).collect::<Vec<_>>().join(",")
        };
        format!(
            "c11 {} {} {} {} {} {} {} {} {} {} {} {} {} {} {}",
            u8::from(self.privileged),
            self.proto,
            hex(&self.src),
            hex(&self.dst),
            self.size,
            self.pattern,
            self.iseq,
            self.tos,
            self.seq,
            self.id,
            self.sp,
            self.dp,
            self.ttl,
            self.flags,
            inj
        )
    }
    fn parse(t: &[&str]) -> Option<Case> {
        if t.len() != 16 || t[0] != "c11" {
            return None;
        }
        let inject = if t[15] == "-" {
            vec![]
        } else {
            t[15]
                .split(',')
                .map(|e| {
                    let mut it = e.split(':');
                    let c = call_of(it.next().unwrap());
                    (c, it.next().unwrap().parse().unwrap())
                })
                .collect()
        };
        Some(Case {
            privileged: t[1] == "1",
            proto: proto_of(t[2]),
            src: unhex(t[3]),
            dst: unhex(t[4]),
            size: t[5].parse().ok()?,
            pattern: t[6].parse().ok()?,
            iseq: t[7].parse().ok()?,
            tos: t[8].parse().ok()?,
            seq: t[9].parse().ok()?,
            id: t[10].parse().ok()?,
            sp: t[11].parse().ok()?,
            dp: t[12].parse().ok()?,
            ttl: t[13].parse().ok()?,
            flags: t[14].parse().ok()?,
            inject,
        })
    }
}

fn ip_of(b: &[u8]) -> IpAddr {
    if b.len() == 16 {
        let mut a = [0u8; 16];
        a.copy_from_slice(b);
        IpAddr::V6(Ipv6Addr::from(a))
    } else {
        IpAddr::V4(Ipv4Addr::new(b[0], b[1], b[2], b[3]))
    }
}

fn channel_config(src: &[u8], dst: &[u8], privileged: bool, proto: &str, size: u16, pattern: u8, iseq: u16, tos: u8) -> ChannelConfig {
    ChannelConfig {
        privilege_mode: if privileged { PrivilegeMode::Privileged } else { PrivilegeMode::Unprivileged },
        protocol: match proto {
            "icmp" => Protocol::Icmp,
            "udp" => Protocol::Udp,
            _ => Protocol::Tcp,
        },
        source_addr: ip_of(src),
        target_addr: ip_of(dst),
        packet_size: PacketSize(size),
        payload_pattern: PayloadPattern(pattern),
        initial_sequence: Sequence(iseq),
        tos: TypeOfService(tos),
        icmp_extension_parse_mode: IcmpExtensionParseMode::Disabled,
        read_timeout: Duration::from_millis(10),
        tcp_connect_timeout: Duration::from_millis(1000),
    }
}

fn render_error(e: &Error) -> String {
    match e {
        Error::InvalidPacketSize(_) => "err:InvalidPacketSize".to_string(),
        Error::PacketError(_) => "err:Packet".to_string(),
        Error::IoError(io) => format!("err:Io:{}", error_to_code(io)),
        Error::ProbeFailed(_) => "err:ProbeFailed".to_string(),
        Error::InsufficientCapacity => "err:InsufficientCapacity".to_string(),
        Error::AddressInUse(_) => "err:AddressInUse".to_string(),
        Error::MissingAddr => "err:MissingAddr".to_string(),
        Error::BadConfig(_) => "err:BadConfig".to_string(),
        _ => "err:Other".to_string(),
    }
}

fn probe_of(c: &Case) -> Probe {
    Probe {
        sequence: Sequence(c.seq),
        identifier: TraceId(c.id),
        src_port: Port(c.sp),
        dest_port: Port(c.dp),
        ttl: TimeToLive(c.ttl),
        round: RoundId(0),
        sent: std::time::SystemTime::UNIX_EPOCH,
        flags: Flags::from_bits_truncate(c.flags),
    }
}

/// run the real code: (ops, "ok" | "err:.." | "fault:panic")
fn execute(c: &Case) -> (Vec<Op>, String) {
    with(|w| *w = World::default());
    let cc = c.clone();
    let r = std::panic::catch_unwind(move || {
        let cfg = channel_config(&cc.src, &cc.dst, cc.privileged, cc.proto, cc.size, cc.pattern, cc.iseq, cc.tos);
        let mut ch = match Channel::<CSock>::connect(&cfg) {
            Ok(ch) => ch,
            Err(e) => return render_error(&e),
        };
        with(|w| w.inject = cc.inject.clone());
        match ch.send_probe(probe_of(&cc)) {
            Ok(()) => "ok".to_string(),
            Err(e) => render_error(&e),
        }
    });
    let res = match r {
        Ok(s) => s,
        Err(_) => "fault:panic".to_string(),
    };
    (with(|w| std::mem::take(&mut w.ops)), res)
}

fn render_ops(ops: &[Op]) -> String {
    if ops.is_empty() {
        "-".to_string()
    } else {
        ops.iter().map(Op::render).collect::<Vec<_>>().join(",")
    }
}

// ---------------------------------------------------------------------------------------------
// the oracle: an RFC decoder and the clauses of the property statement
// ---------------------------------------------------------------------------------------------
/// `w` bits starting `off` bits into the octet string, most significant bit first (the RFC diagrams)
fn bits(b: &[u8], off: usize, w: usize) -> Option<u64> {
    if off + w > b.len() * 8 {
        return None;
    }
    let mut v = 0u64;
    for i in off..off + w {
        let bit = (b[i / 8] >> (7 - (i % 8))) & 1;
        v = (v << 1) | u64::from(bit);
    }
    Some(v)
}
/// RFC 1071: one's-complement sum of 16-bit big-endian words (odd tail padded with a zero octet)
fn oc_sum(parts: &[&[u8]]) -> u16 {
    let mut acc: u32 = 0;
    for p in parts {
        let mut i = 0;
        while i < p.len() {
            let hi = u32::from(p[i]);
            let lo = if i + 1 < p.len() { u32::from(p[i + 1]) } else { 0 };
            acc += (hi << 8) | lo;
            acc = (acc & 0xFFFF) + (acc >> 16);
            i += 2;
        }
    }
    acc as u16
}
fn pseudo_v4(src: &[u8], dst: &[u8], proto: u8, len: usize) -> Vec<u8> {
    // RFC 768: source, destination, zero, protocol, UDP length
    let mut v = src.to_vec();
    v.extend_from_slice(dst);
    v.extend_from_slice(&[0, proto, (len >> 8) as u8, len as u8]);
    v
}
fn pseudo_v6(src: &[u8], dst: &[u8], next: u8, len: usize) -> Vec<u8> {
    // RFC 8200 section 8.1: source, destination, upper-layer length (32 bit), 3 zero octets, next header
    let mut v = src.to_vec();
    v.extend_from_slice(dst);
    v.extend_from_slice(&(len as u32).to_be_bytes());
    v.extend_from_slice(&[0, 0, 0, next]);
    v
}

struct Chk(Vec<String>);
impl Chk {
    fn eq<T: PartialEq + std::fmt::Debug>(&mut self, what: &str, got: T, want: T) {
        if got != want {
            self.0.push(format!("C11:{what}={got:?}_want_{want:?}").replace(' ', ""));
        }
    }
    fn fail(&mut self, what: &str) {
        self.0.push(format!("C11:{what}"));
    }
    fn done(mut self) -> String {
        if self.0.is_empty() {
            "ok".to_string()
        } else {
            // a checksum on the wire that does not verify (or a Paris field that is not the sequence) is also what C13 excludes
            let c13: Vec<String> = self.0.iter().filter(|m| m.contains("checksum")).map(|m| m.replacen("C11:", "C13:", 1)).collect();
            self.0.extend(c13);
            format!("FAIL:{}", self.0.join(";"))
        }
    }
}

fn check_payload(k: &mut Chk, what: &str, payload: &[u8], pattern: u8, n: usize) {
    k.eq(&format!("{what}_len"), payload.len(), n);
    if payload.iter().any(|b| *b != pattern) {
        k.fail(&format!("{what}_not_pattern"));
    }
}

/// RFC 791 header clauses; returns the IP payload
fn check_ipv4<'a>(k: &mut Chk, c: &Case, b: &'a [u8], proto: u8, ident: Option<u16>) -> Option<&'a [u8]> {
    if b.len() < 20 {
        k.fail("ipv4_shorter_than_header");
        return None;
    }
    k.eq("version", bits(b, 0, 4), Some(4));
    k.eq("ihl", bits(b, 4, 4), Some(5));
    k.eq("tos", bits(b, 8, 8), Some(u64::from(c.tos)));
    k.eq("total_length", bits(b, 16, 16), Some(b.len() as u64));
    if let Some(id) = ident {
        k.eq("identification", bits(b, 32, 16), Some(u64::from(id)));
    }
    k.eq("reserved_flag", bits(b, 48, 1), Some(0));
    k.eq("dont_fragment", bits(b, 49, 1), Some(1));
    k.eq("more_fragments", bits(b, 50, 1), Some(0));
    k.eq("fragment_offset", bits(b, 51, 13), Some(0));
    k.eq("ttl", bits(b, 64, 8), Some(u64::from(c.ttl)));
    k.eq("protocol", bits(b, 72, 8), Some(u64::from(proto)));
    k.eq("ip_source", &b[12..16], &c.src[..]);
    k.eq("ip_destination", &b[16..20], &c.dst[..]);
    Some(&b[20..])
}

/// RFC 792 / RFC 4443 echo request clauses
fn check_echo(k: &mut Chk, c: &Case, m: &[u8], v6: bool) {
    if m.len() < 8 {
        k.fail("icmp_shorter_than_header");
        return;
    }
    k.eq("icmp_type", bits(m, 0, 8), Some(if v6 { 128 } else { 8 }));
    k.eq("icmp_code", bits(m, 8, 8), Some(0));
    k.eq("icmp_identifier", bits(m, 32, 16), Some(u64::from(c.id)));
    k.eq("icmp_sequence", bits(m, 48, 16), Some(u64::from(c.seq)));
    let s = if v6 { oc_sum(&[&pseudo_v6(&c.src, &c.dst, 58, m.len()), m]) } else { oc_sum(&[m]) };
    k.eq("icmp_checksum_sum", s, 0xFFFF);
    let hdrs = if v6 { 48 } else { 28 };
    check_payload(k, "icmp_payload", &m[8..], c.pattern, usize::from(c.size).saturating_sub(hdrs));
}

/// RFC 768 clauses common to all strategies; returns the UDP payload
fn check_udp<'a>(k: &mut Chk, c: &Case, u: &'a [u8], v6: bool) -> Option<&'a [u8]> {
    if u.len() < 8 {
        k.fail("udp_shorter_than_header");
        return None;
    }
    k.eq("udp_source_port", bits(u, 0, 16), Some(u64::from(c.sp)));
    k.eq("udp_destination_port", bits(u, 16, 16), Some(u64::from(c.dp)));
    k.eq("udp_length", bits(u, 32, 16), Some(u.len() as u64));
    let ps = if v6 { pseudo_v6(&c.src, &c.dst, 17, u.len()) } else { pseudo_v4(&c.src, &c.dst, 17, u.len()) };
    k.eq("udp_checksum_sum", oc_sum(&[&ps, u]), 0xFFFF);
    if v6 && bits(u, 48, 16) == Some(0) {
        // RFC 8200 8.1: a zero checksum is not allowed over IPv6, receivers discard the datagram
        k.fail("udp6_zero_checksum_field");
    }
    Some(&u[8..])
}

fn in_range(c: &Case) -> bool {
    let v6 = c.src.len() == 16;
    let min = if v6 { 48 } else { 28 };
    c.proto == "tcp" || (usize::from(c.size) >= min && c.size <= 1024)
}

fn sendtos(ops: &[Op]) -> Vec<(&Vec<u8>, &SocketAddr)> {
    ops.iter().filter_map(|o| if let Op::SendTo(_, b, a) = o { Some((b, a)) } else { None }).collect()
}

/// does the real builder accept the only configuration that can issue sequence 0 with Paris over IPv6?
fn builder_accepts_paris6_sequence_zero() -> bool {
    use std::sync::OnceLock;
    static V: OnceLock<bool> = OnceLock::new();
    *V.get_or_init(|| {
        trippy_core::Builder::new(IpAddr::V6(Ipv6Addr::new(0x2001, 0xdb8, 0, 0, 0, 0, 0, 2)))
            .protocol(Protocol::Udp)
            .multipath_strategy(trippy_core::MultipathStrategy::Paris)
            .port_direction(trippy_core::PortDirection::new_fixed_src(5000))
            .initial_sequence(0)
            .build()
            .is_ok()
    })
}

/// evaluate the property statement on what the implementation did
fn oracle(c: &Case, ops: &[Op], res: &str) -> String {
    let v6 = c.src.len() == 16;
    if c.src.len() != c.dst.len() {
        return "ok:outside(mixed_families)".to_string();
    }
    let paris = c.flags & 1 != 0;
    let dublin = c.flags & 2 != 0 && !paris;
    let raw_udp = c.proto == "udp" && c.privileged;
    if raw_udp && v6 && paris && c.seq == 0 && in_range(c) && !builder_accepts_paris6_sequence_zero() {
        // sequence 0 is issuable only with initial_sequence 0 (C07: initial <= sequence), which the real
        // Builder::build refuses for this cell: outside "all builder-accepted configurations"
        return "ok:outside(paris_v6_sequence_zero_not_issuable)".to_string();
    }
    if raw_udp && v6 && dublin && in_range(c) {
        // the strategy guarantees 0 <= sequence - initial_sequence and the payload fits the 976-octet buffer (C07)
        if c.seq < c.iseq || usize::from(c.seq - c.iseq) + 6 > 976 {
            return "ok:outside(dublin_v6_payload_precondition)".to_string();
        }
    }
    let mut k = Chk(vec![]);
    if res == "fault:panic" {
        k.fail("panic");
        if raw_udp && v6 && dublin {
            // C07: the payload length derived from an issuable sequence must fit the packet buffer
            k.0.push("C07:dublin_v6_payload_for_an_issuable_sequence_does_not_fit_the_packet_buffer".to_string());
        }
        return k.done();
    }
    // the two sockets created by connect come first
    let nconn = if c.proto == "tcp" { 1 } else { 2 };
    if c.size > 1024 {
        k.eq("oversize_result", res, "err:InvalidPacketSize");
        k.eq("oversize_ops", ops.len(), 0);
        return k.done();
    }
    if ops.len() < nconn {
        k.fail("connect_ops_missing");
        return k.done();
    }
    let ops = &ops[nconn..];
    if !in_range(c) {
        k.eq("undersize_result", res, "err:InvalidPacketSize");
        k.eq("undersize_ops", ops.len(), 0);
        return k.done();
    }
    if !c.inject.is_empty() {
        // error paths: never a fault (checked above); nothing is sent after the failing call
        if res == "ok" && !c.inject.iter().all(|(_, code)| *code == 1) {
            // only EINPROGRESS on bind / connect may be swallowed
            let used = match (c.proto, c.privileged, v6) {
                ("icmp", _, false) | ("udp", true, false) => vec![Call::SendTo],
                ("icmp", _, true) | ("udp", true, true) => vec![Call::Hops, Call::SendTo],
                ("udp", false, false) => vec![Call::New, Call::Bind, Call::SetTtl, Call::SetTos, Call::SendTo],
                ("udp", false, true) => vec![Call::New, Call::Bind, Call::Hops, Call::SendTo],
                (_, _, false) => vec![Call::New, Call::Bind, Call::SetTtl, Call::SetTos, Call::Connect],
                _ => vec![Call::New, Call::Bind, Call::Hops, Call::Connect],
            };
            if c.inject.iter().any(|(call, code)| used.contains(call) && *code != 1) {
                k.fail("injected_error_swallowed");
            }
        }
        return k.done();
    }
    k.eq("result", res, "ok");
    let target = ip_of(&c.dst);
    let sends = sendtos(ops);
    match (c.proto, c.privileged || c.proto == "icmp") {
        ("icmp", _) | ("udp", true) => {
            // raw cells: exactly one send_to, preceded (IPv6) by the hop limit
            k.eq("send_count", sends.len(), 1);
            if v6 {
                k.eq("op_count", ops.len(), 2);
                k.eq("hop_limit_op", ops.first().map(Op::render), Some(format!("hops:{}", c.ttl)));
            } else {
                k.eq("op_count", ops.len(), 1);
            }
            if let Some((bytes, addr)) = sends.first() {
                k.eq("sendto_address", addr.ip(), target);
                let upper: Option<&[u8]> = if v6 {
                    Some(&bytes[..])
                } else {
                    let ident = if c.proto == "icmp" { None } else { Some(c.id) };
                    check_ipv4(&mut k, c, bytes, if c.proto == "icmp" { 1 } else { 17 }, ident)
                };
                let ip_hdr = if v6 { 40 } else { 0 };
                if let Some(upper) = upper {
                    if c.proto == "icmp" {
                        check_echo(&mut k, c, upper, v6);
                        k.eq("total_size", bytes.len() + ip_hdr, usize::from(c.size));
                    } else if let Some(payload) = check_udp(&mut k, c, upper, v6) {
                        if paris {
                            k.eq("paris_checksum_field", bits(upper, 48, 16), Some(u64::from(c.seq)));
                        } else if dublin && v6 {
                            let n = usize::from(c.seq - c.iseq);
                            k.eq("dublin_payload_length", payload.len(), n + 6);
                            if payload.len() >= 6 {
                                k.eq("dublin_magic", &payload[..6], &b"trippy"[..]);
                                check_payload(&mut k, "dublin_payload", &payload[6..], c.pattern, n);
                            }
                        } else {
                            // classic and Dublin/IPv4: configured size and pattern; Dublin: id = IP identification (checked above)
                            let hdrs = if v6 { 48 } else { 28 };
                            check_payload(&mut k, "udp_payload", payload, c.pattern, usize::from(c.size) - hdrs);
                            k.eq("total_size", bytes.len() + ip_hdr, usize::from(c.size));
                        }
                    }
                }
            }
        }
        ("udp", false) => {
            let src = SocketAddr::new(ip_of(&c.src), c.sp);
            let mut want = vec![
                format!("new:{}:0", if v6 { "udp6" } else { "udp4" }),
                Op::Bind(0, src).render(),
                if v6 { format!("hops:{}", c.ttl) } else { format!("ttl:{}", c.ttl) },
            ];
            if !v6 {
                want.push(format!("tos:{}", c.tos));
            }
            let got: Vec<String> = ops.iter().map(Op::render).collect();
            k.eq("op_count", got.len(), want.len() + 1);
            k.eq("ops_prefix", &got[..want.len().min(got.len())], &want[..want.len().min(got.len())]);
            k.eq("send_count", sends.len(), 1);
            if let (Some((bytes, addr)), Some(Op::SendTo(..))) = (sends.first(), ops.last()) {
                k.eq("sendto_address", **addr, SocketAddr::new(target, c.dp));
                let hdrs = if v6 { 48 } else { 28 };
                check_payload(&mut k, "udp_payload", bytes, c.pattern, usize::from(c.size) - hdrs);
            } else {
                k.fail("last_op_not_sendto");
            }
        }
        _ => {
            let src = SocketAddr::new(ip_of(&c.src), c.sp);
            let mut want = vec![
                format!("new:{}:0", if v6 { "tcp6" } else { "tcp4" }),
                Op::Bind(0, src).render(),
                if v6 { format!("hops:{}", c.ttl) } else { format!("ttl:{}", c.ttl) },
            ];
            if !v6 {
                want.push(format!("tos:{}", c.tos));
            }
            want.push(Op::Connect(0, SocketAddr::new(target, c.dp)).render());
            let got: Vec<String> = ops.iter().map(Op::render).collect();
            k.eq("tcp_ops", got, want);
        }
    }
    k.done()
}

fn run_case(c: &Case, out: &mut Out) {
    let (ops, res) = execute(c);
    let orc = oracle(c, &ops, &res);
    out.case(&c.line(), &format!("{}|{}", render_ops(&ops), res), &orc);
}

/// several probes on ONE channel (the send socket, and whatever the channel remembers, is shared between them):
/// every probe must come out exactly as it would from a fresh channel
fn seq_case(base: &Case, probes: &[(u16, u16, u16, u16, u8, u32)], out: &mut Out) {
    with(|w| *w = World::default());
    let cc = base.clone();
    let ps = probes.to_vec();
    let marks = std::cell::RefCell::new(Vec::<usize>::new());
    let sent = std::cell::Cell::new(0usize);
    let r = std::panic::catch_unwind(std::panic::AssertUnwindSafe(|| {
        let cfg = channel_config(&cc.src, &cc.dst, cc.privileged, cc.proto, cc.size, cc.pattern, cc.iseq, cc.tos);
        let mut ch = match Channel::<CSock>::connect(&cfg) {
            Ok(ch) => ch,
            Err(e) => return render_error(&e),
        };
        marks.borrow_mut().push(with(|w| w.ops.len()));
        for (seq, id, sp, dp, ttl, flags) in &ps {
            let c = Case { seq: *seq, id: *id, sp: *sp, dp: *dp, ttl: *ttl, flags: *flags, inject: vec![], ..cc.clone() };
            let r = ch.send_probe(probe_of(&c));
            marks.borrow_mut().push(with(|w| w.ops.len()));
            if let Err(e) = r { return render_error(&e); }
            sent.set(sent.get() + 1);
        }
        "ok".to_string()
    }));
    let res = r.unwrap_or_else(|_| "fault:panic".to_string());
    let ops = with(|w| std::mem::take(&mut w.ops));
    // the property's clauses, probe by probe (the calls of Channel::connect + the calls of that probe = a fresh channel)
    let marks = marks.into_inner();
    let mut fails = vec![];
    if res == "fault:panic" { fails.push("C11:panic_in_probe_sequence".to_string()); }
    if let Some(&m0) = marks.first() {
        for (i, (seq, id, sp, dp, ttl, flags)) in probes.iter().enumerate() {
            if i + 1 >= marks.len() { break; }
            let c = Case { seq: *seq, id: *id, sp: *sp, dp: *dp, ttl: *ttl, flags: *flags, inject: vec![], ..base.clone() };
            let mut seg: Vec<Op> = ops[..m0].to_vec();
            seg.extend_from_slice(&ops[marks[i]..marks[i + 1]]);
            let r_i = if i < sent.get() { "ok" } else { res.as_str() };
            let o = oracle(&c, &seg, r_i);
            if let Some(f) = o.strip_prefix("FAIL:") { fails.push(format!("{}@probe{}_of_{}", f.replace(';', &format!("@probe{i};")), i, probes.len())); }
        }
    }
    let pl = probes.iter().map(|(a, b, c, d, e, f)| format!("{a}.{b}.{c}.{d}.{e}.{f}")).collect::<Vec<_>>().join(",");
    out.case(
        &format!("c11seq {} {} {} {} {} {} {} {} {pl}", u8::from(base.privileged), base.proto, hex(&base.src), hex(&base.dst), base.size, base.pattern, base.iseq, base.tos),
        &format!("{}|sent={}|{res}", render_ops(&ops), sent.get()),
        &if fails.is_empty() { "ok".to_string() } else { format!("FAIL:{}", fails.join(";")) },
    );
}

/// n TCP probes on one channel without a receive in between
fn fill_case(src: &[u8], dst: &[u8], n: usize, out: &mut Out) {
    with(|w| *w = World::default());
    let (s, d) = (src.to_vec(), dst.to_vec());
    let sent = std::cell::Cell::new(0usize);
    let r = std::panic::catch_unwind(std::panic::AssertUnwindSafe(|| {
        let cfg = channel_config(&s, &d, true, "tcp", 84, 0, 33434, 0);
        let mut ch = match Channel::<CSock>::connect(&cfg) {
            Ok(ch) => ch,
            Err(e) => return render_error(&e),
        };
        for i in 0..n {
            let c = Case {
                privileged: true, proto: "tcp", src: s.clone(), dst: d.clone(), size: 84, pattern: 0, iseq: 33434, tos: 0,
                seq: 33434u16.wrapping_add(i as u16), id: 0, sp: 33434u16.wrapping_add(i as u16), dp: 80,
                ttl: (1 + i % 254) as u8, flags: 0, inject: vec![],
            };
            if let Err(e) = ch.send_probe(probe_of(&c)) {
                return render_error(&e);
            }
            sent.set(sent.get() + 1);
        }
        "ok".to_string()
    }));
    let res = r.unwrap_or_else(|_| "fault:panic".to_string());
    let orc = if res == "fault:panic" { "FAIL:C11:tcp_probe_array_full_panic".to_string() } else { "ok".to_string() };
    out.case(&format!("c11fill {} {} {n}", hex(src), hex(dst)), &format!("sent={}|{res}", sent.get()), &orc);
}

// ---------------------------------------------------------------------------------------------
// generation
// ---------------------------------------------------------------------------------------------
#[derive(Clone, Copy, PartialEq, Eq, Debug)]
enum Cell {
    Icmp, UdpClassic, UdpParis, UdpDublin, UdpUnpriv, Tcp,
}

struct Gen {
    rng: Rng,
    counts: std::collections::BTreeMap<String, usize>,
}
impl Gen {
    fn count(&mut self, k: &str) {
        *self.counts.entry(k.to_string()).or_insert(0) += 1;
    }
    fn addr(&mut self, v6: bool) -> Vec<u8> {
        let n = if v6 { 16 } else { 4 };
        match self.rng.below(8) {
            0 => vec![0xFF; n],
            1 => vec![0; n],
            2 => if v6 { let mut a = vec![0; 16]; a[15] = 1; a } else { vec![127, 0, 0, 1] },
            _ => self.rng.bytes(n),
        }
    }
    fn pick16(&mut self, special: &[u16]) -> u16 {
        if self.rng.chance(1, 2) { *self.rng.pick(special) } else { self.rng.next() as u16 }
    }
    fn pick8(&mut self, special: &[u8]) -> u8 {
        if self.rng.chance(1, 2) { *self.rng.pick(special) } else { self.rng.next() as u8 }
    }
    /// a case of the given cell with the given size; every other dimension boundary-or-random
    fn case(&mut self, cell: Cell, v6: bool, size: u16) -> Case {
        let seqs = [0u16, 1, 2, 255, 256, 257, 0x7FFF, 0x8000, 33434, 64511, 65023, 65534, 65535];
        let ports = [0u16, 1, 80, 1023, 1024, 5000, 33434, 65535];
        let iseq = *self.rng.pick(&[0u16, 1, 33434, 64511, 60000]);
        let mut seq = self.pick16(&seqs);
        let (proto, privileged, flags) = match cell {
            Cell::Icmp => ("icmp", self.rng.chance(3, 4), 0),
            Cell::UdpClassic => ("udp", true, 0),
            Cell::UdpParis => ("udp", true, *self.rng.pick(&[1u32, 1, 1, 1, 1, 1, 1, 3])),
            Cell::UdpDublin => ("udp", true, 2),
            Cell::UdpUnpriv => ("udp", false, *self.rng.pick(&[0u32, 0, 0, 1, 2])),
            Cell::Tcp => ("tcp", self.rng.chance(1, 2), 0),
        };
        if cell == Cell::UdpDublin && v6 {
            // payload length = seq - iseq: inside the strategy's guarantee, at its edges, and (rarely) outside
            let d = match self.rng.below(12) {
                0 => 0, 1 => 1, 2 => 2, 3 => 763, 4 => 764, 5 => 969, 6 => 970,
                7 => 971,
                8 => 65535,
                _ => self.rng.below(971),
            } as u32;
            seq = if d == 65535 { iseq.wrapping_sub(1) } else { (u32::from(iseq) + d).min(65535) as u16 };
        }
        let id = match cell {
            Cell::UdpDublin => seq,
            Cell::Icmp => self.pick16(&[0, 1, 0x1234, 0xFFFF]),
            _ => if self.rng.chance(3, 4) { 0 } else { self.rng.next() as u16 },
        };
        let (sp, dp) = match cell {
            Cell::Icmp => (0, 0),
            Cell::UdpClassic | Cell::Tcp | Cell::UdpUnpriv => {
                if self.rng.chance(1, 2) { (self.pick16(&ports), seq) } else { (seq, self.pick16(&ports)) }
            }
            _ => (self.pick16(&ports), self.pick16(&ports)),
        };
        Case {
            privileged, proto, src: self.addr(v6), dst: self.addr(v6), size,
            pattern: self.pick8(&[0, 1, 0x55, 0xAA, 0xFF]),
            iseq,
            tos: self.pick8(&[0, 1, 2, 3, 4, 0x10, 0xB8, 0xE0, 0xFC, 0xFF]),
            seq, id, sp, dp,
            ttl: self.pick8(&[1, 2, 64, 254, 255, 0]),
            flags, inject: vec![],
        }
    }
}

fn boundary_sizes(v6: bool) -> Vec<u16> {
    let min: u16 = if v6 { 48 } else { 28 };
    vec![0, min - 1, min, min + 1, 60, 61, 84, 1023, 1024, 1025, 65535]
}

pub fn run(args: &Args, out: &mut Out) {
    if let Some(path) = &args.replay {
        for l in crate::replay_inputs(path) {
            let t: Vec<&str> = l.split(' ').collect();
            if t[0] == "c11seq" && t.len() == 10 {
                let base = Case { privileged: t[1] == "1", proto: proto_of(t[2]), src: unhex(t[3]), dst: unhex(t[4]), size: t[5].parse().unwrap(), pattern: t[6].parse().unwrap(),
                    iseq: t[7].parse().unwrap(), tos: t[8].parse().unwrap(), seq: 0, id: 0, sp: 0, dp: 0, ttl: 1, flags: 0, inject: vec![] };
                let ps: Vec<(u16, u16, u16, u16, u8, u32)> = t[9].split(',').map(|x| { let f: Vec<&str> = x.split('.').collect();
                    (f[0].parse().unwrap(), f[1].parse().unwrap(), f[2].parse().unwrap(), f[3].parse().unwrap(), f[4].parse().unwrap(), f[5].parse().unwrap()) }).collect();
                seq_case(&base, &ps, out);
            } else if t[0] == "c11fill" && t.len() == 4 {
                fill_case(&unhex(t[1]), &unhex(t[2]), t[3].parse().unwrap(), out);
            } else if let Some(c) = Case::parse(&t) {
                run_case(&c, out);
            }
        }
        return;
    }
    let thorough = args.tier_thorough;
    let mut g = Gen { rng: Rng::new(args.seed), counts: Default::default() };
    let cells = [Cell::Icmp, Cell::UdpClassic, Cell::UdpParis, Cell::UdpDublin, Cell::UdpUnpriv, Cell::Tcp];

    // 1. every packet size 0..=1030 for ICMP/IPv4 (quick) or for every raw cell and family (thorough)
    let full_cells: Vec<(Cell, bool)> = if thorough {
        vec![(Cell::Icmp, false), (Cell::Icmp, true), (Cell::UdpClassic, false), (Cell::UdpClassic, true),
             (Cell::UdpDublin, false), (Cell::UdpUnpriv, false), (Cell::UdpUnpriv, true)]
    } else {
        vec![(Cell::Icmp, false)]
    };
    for (cell, v6) in &full_cells {
        for size in 0..=1030u16 {
            let reps = if thorough { 8 } else { 1 };
            for _ in 0..reps {
                let c = g.case(*cell, *v6, size);
                g.count("all_sizes_sweep");
                if (usize::from(size) % 2) == 1 { g.count("odd_packet_size"); }
                run_case(&c, out);
            }
        }
    }
    // 2. boundary sizes x cells x families x random other dimensions
    let reps = if thorough { 1200 } else { 25 };
    for cell in cells {
        for v6 in [false, true] {
            for size in boundary_sizes(v6) {
                for _ in 0..reps {
                    let c = g.case(cell, v6, size);
                    g.count(&format!("cell_{cell:?}_{}", if v6 { "v6" } else { "v4" }));
                    if (usize::from(size) % 2) == 1 { g.count("odd_packet_size"); }
                    run_case(&c, out);
                }
            }
        }
    }
    // 3. complete tos and pattern domains (one raw IPv4 cell each in quick; all IPv4 cells in thorough), complete ttl domain
    let sweep_cells: Vec<Cell> = if thorough { vec![Cell::Icmp, Cell::UdpClassic, Cell::UdpParis, Cell::UdpDublin, Cell::UdpUnpriv, Cell::Tcp] } else { vec![Cell::Icmp, Cell::UdpClassic] };
    for cell in &sweep_cells {
        for v in 0..=255u8 {
            for v6 in [false, true] {
                let sz = *g.rng.pick(&[60u16, 61, 84, 85]);
                let mut c = g.case(*cell, v6, sz);
                c.tos = v;
                run_case(&c, out);
                let sz = *g.rng.pick(&[60u16, 61, 84, 85]);
                let mut c = g.case(*cell, v6, sz);
                c.pattern = v;
                run_case(&c, out);
                let mut c = g.case(*cell, v6, 84);
                c.ttl = v;
                run_case(&c, out);
                g.count("tos_pattern_ttl_domain_sweep");
            }
        }
    }
    // 4. Paris: sequences whose checksum carries (all-ones addresses / ports), boundary and random sequences
    let nparis = if thorough { 65536 } else { 1500 };
    for i in 0..nparis {
        for v6 in [false, true] {
            let mut c = g.case(Cell::UdpParis, v6, 84);
            if thorough { c.seq = i as u16; }
            if g.rng.chance(1, 4) {
                c.src = vec![0xFF; c.src.len()];
                c.dst = vec![0xFF; c.dst.len()];
                c.sp = 0xFFFF;
                c.dp = 0xFFFF;
                g.count("paris_carry_maximising");
            }
            g.count("paris_extra");
            run_case(&c, out);
        }
    }
    // 5. Dublin/IPv6: every payload length the strategy can produce (0..=970) and the first ones beyond
    for d in 0..=972u32 {
        let mut c = g.case(Cell::UdpDublin, true, 84);
        c.iseq = *g.rng.pick(&[0u16, 33434, 64511]);
        c.seq = (u32::from(c.iseq) + d) as u16;
        c.id = c.seq;
        g.count("dublin_v6_payload_lengths");
        run_case(&c, out);
    }
    // 6. injected socket errors: every call kind x every error code x every cell that makes the call
    let reps = if thorough { 20 } else { 1 };
    for cell in cells {
        for v6 in [false, true] {
            for call in [Call::New, Call::Bind, Call::SetTtl, Call::SetTos, Call::Hops, Call::Connect, Call::SendTo] {
                for code in CODES {
                    for _ in 0..reps {
                        let mut c = g.case(cell, v6, 84);
                        c.inject = vec![(call, code)];
                        if g.rng.chance(1, 6) {
                            // a second injected error of another kind
                            let other = *g.rng.pick(&[Call::Bind, Call::SendTo, Call::Connect, Call::Hops]);
                            if other != call { c.inject.push((other, *g.rng.pick(&CODES))); }
                        }
                        g.count("injected_error_cases");
                        run_case(&c, out);
                    }
                }
            }
        }
    }
    // 7. mixed address families (unreachable!() in connect), outside the builder-accepted domain
    for (a, b) in [(false, true), (true, false)] {
        let mut c = g.case(Cell::Icmp, a, 84);
        c.dst = g.addr(b);
        run_case(&c, out);
    }
    // 7a. UDP datagrams whose checksum COMPUTES to zero (RFC 768 / RFC 8200: the field then carries 0xFFFF over IPv6; over IPv4
    //     zero would mean "no checksum"): for classic and Dublin probes of both families the varying port is searched until the
    //     datagram the real dispatch produces has a computed checksum of 0
    for cell in [Cell::UdpClassic, Cell::UdpDublin] {
        for v6 in [false, true] {
            for _ in 0..(if thorough { 6 } else { 2 }) {
                let sz = *g.rng.pick(&[60u16, 61, 84]);
                let mut c = g.case(cell, v6, sz);
                if !in_range(&c) { continue; }
                if cell == Cell::UdpDublin && v6 { c.iseq = 33434; c.seq = 33434 + g.rng.below(200) as u16; c.id = c.seq; }
                let mut found = false;
                for dp in 1024u16..=65535 {
                    c.dp = dp;
                    let (ops, res) = execute(&c);
                    if res != "ok" { break; }
                    let Some((bytes, _)) = sendtos(&ops).first().copied() else { break };
                    let u: Vec<u8> = if v6 { bytes.clone() } else { bytes[20.min(bytes.len())..].to_vec() };
                    if u.len() < 8 { break; }
                    let mut z = u.clone();
                    z[6] = 0; z[7] = 0;
                    let ps = if v6 { pseudo_v6(&c.src, &c.dst, 17, z.len()) } else { pseudo_v4(&c.src, &c.dst, 17, z.len()) };
                    // the one's-complement sum of pseudo-header + datagram (checksum field zero) is 0xFFFF <=> the checksum computes to 0
                    if oc_sum(&[&ps, &z]) == 0xFFFF { found = true; break; }
                }
                if found { g.count("udp_checksum_computes_to_zero"); run_case(&c, out); }
            }
        }
    }
    // 7b. several probes on one channel: repeated, alternating and ascending ttls; consecutive sequences (a round, a
    //     single-hop round repeated, a TCP re-issue with the same ttl)
    let reps = if thorough { 200 } else { 12 };
    for cell in cells {
        for v6 in [false, true] {
            for _ in 0..reps {
                let sz = *g.rng.pick(&[60u16, 61, 84, 1024]);
                let base = g.case(cell, v6, sz);
                if !in_range(&base) { continue; }
                let n = 2 + g.rng.below(4) as usize;
                let t0 = base.ttl.clamp(1, 200);
                let shape = g.rng.below(4);
                let mut ps = vec![];
                for i in 0..n {
                    let ttl = match shape { 0 => t0, 1 => if i % 2 == 0 { t0 } else { t0 + 1 }, 2 => t0 + i as u8, _ => if i < 2 { t0 } else { t0 + 1 } };
                    let seq = base.seq.saturating_add(i as u16).min(65534);
                    let mut c = base.clone();
                    c.seq = seq;
                    // the fields that carry the sequence follow it
                    if cell == Cell::UdpDublin { c.id = seq; }
                    if cell == Cell::UdpClassic || cell == Cell::Tcp || (cell == Cell::UdpUnpriv && base.flags == 0) { if base.sp == base.seq { c.sp = seq; } if base.dp == base.seq { c.dp = seq; } }
                    c.ttl = ttl;
                    if !in_range(&c) { break; }
                    if cell == Cell::UdpDublin && v6 && (c.seq < c.iseq || usize::from(c.seq - c.iseq) + 6 > 976) { break; }
                    ps.push((c.seq, c.id, c.sp, c.dp, ttl, c.flags));
                }
                if ps.len() < 2 { continue; }
                g.count("probe_sequences_on_one_channel");
                seq_case(&base, &ps, out);
            }
        }
    }
    // 8. the bounded array of pending TCP probes
    for n in [1usize, 255, 256] {
        fill_case(&[10, 0, 0, 1], &[10, 0, 0, 2], n, out);
        g.count("tcp_fill_cases");
    }
    let mut a6 = vec![0u8; 16];
    a6[15] = 1;
    fill_case(&a6, &a6, 256, out);
    for (k, v) in &g.counts {
        out.stat(k, v);
    }
    out.stat("sizes_swept_completely", if thorough { "0..=1030 x 7 cells" } else { "0..=1030 ICMP/IPv4" });
    out.stat("paris_sequences", if thorough { "all 65536 x 2 families" } else { "boundary + random" });
}
