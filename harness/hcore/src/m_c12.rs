//! C12: packet field accessors are exact, independent and RFC-positioned.
//!
//! Case lines
//!   acc <type> <field> get <bufhex>               => <value>
//!   acc <type> <field> set|seto <value> <bufhex>  => <bufhex after>
//!   new|new_view <type> <len>                      => ok|err
//!   c12pay <type> <bufhex> <payloadhex>            => <bufhex after> | fault:panic
//!       (`set_payload` through `new`, under catch_unwind; the thirteen packet types that have one)
//! `<value>`: decimal for integer fields, `Name/id` for enum getters, decimal id for enum setters
//! (`set` builds the enum with `From<u8>`, `seto` with the `Other(v)` variant), hex octets for addresses.
//!
//! The oracle (`## ...`) does not use the model and does not use the code's offsets: `RFC` below maps
//! (type, field) to (bit offset, width) as drawn in RFC 791, 2474, 3168, 8200, 768, 9293 (+3540), 792, 1191,
//! 4443, 4884, 4950, and `slice` reads a big-endian bit slice (bit 0 = most significant bit of byte 0).
//!   set: the buffer keeps its length, the slice reads `v mod 2^w`, every bit outside the slice is unchanged,
//!        and the code's own getter reads `v mod 2^w` back;
//!   get: the getter equals the slice, and the viewed buffer is unchanged;
//!   new: succeeds iff len >= the RFC minimum header size (the error carries that minimum and the length).
//!   c12pay: `rfc_payload_offset` below gives the octet at which the RFC puts the payload (IPv4: IHL 32-bit words,
//!        RFC 791 3.1; TCP: data offset 32-bit words, RFC 9293 3.1; both read with `slice` from the RFC table and
//!        never below the fixed 20-octet header; IPv6 40, UDP / ICMP 8, extension object 4).  A payload that fits
//!        behind that offset must be accepted: same length, every octet before the offset (the header INCLUDING
//!        options) and every octet behind the payload unchanged, the payload octets at the offset, and the code's
//!        own `payload()` / `payload_raw()` must return it from there (cut at the length field for IPv6 and the
//!        extension object, which is computed here from the RFC position of that field).  A payload that does not
//!        fit must panic (the only way the API can refuse) - anything else is a failure.
use crate::rng::{hex, unhex, Rng};
use crate::{Args, Out};
use std::net::{Ipv4Addr, Ipv6Addr};
use trippy_packet::icmp_extension::extension_header::ExtensionHeaderPacket;
use trippy_packet::icmp_extension::extension_object::{ClassNum, ClassSubType, ExtensionObjectPacket};
use trippy_packet::icmp_extension::extension_structure::ExtensionsPacket;
use trippy_packet::icmp_extension::mpls_label_stack::MplsLabelStackPacket;
use trippy_packet::icmp_extension::mpls_label_stack_member::MplsLabelStackMemberPacket;
use trippy_packet::ipv4::Ipv4Packet;
use trippy_packet::ipv6::Ipv6Packet;
use trippy_packet::tcp::TcpPacket;
use trippy_packet::udp::UdpPacket;
use trippy_packet::{icmpv4, icmpv6, IpProtocol};

// ------------------------------------------------------------------------------------------------
// the oracle's own knowledge: RFC positions (bit offset, width) and minimum header sizes
// ------------------------------------------------------------------------------------------------

/// (type, field, bit offset, width).  Written from the RFC header diagrams, not from the code.
const RFC: &[(&str, &str, usize, usize)] = &[
    // RFC 791 section 3.1 (TOS octet: RFC 2474 DSCP 6 bits, RFC 3168 ECN 2 bits)
    ("ipv4", "version", 0, 4),
    ("ipv4", "header_length", 4, 4),
    ("ipv4", "dscp", 8, 6),
    ("ipv4", "ecn", 14, 2),
    ("ipv4", "tos", 8, 8),
    ("ipv4", "total_length", 16, 16),
    ("ipv4", "identification", 32, 16),
    ("ipv4", "flags_and_fragment_offset", 48, 16),
    ("ipv4", "ttl", 64, 8),
    ("ipv4", "protocol", 72, 8),
    ("ipv4", "checksum", 80, 16),
    ("ipv4", "source", 96, 32),
    ("ipv4", "destination", 128, 32),
    // RFC 8200 section 3
    ("ipv6", "version", 0, 4),
    ("ipv6", "traffic_class", 4, 8),
    ("ipv6", "flow_label", 12, 20),
    ("ipv6", "payload_length", 32, 16),
    ("ipv6", "next_header", 48, 8),
    ("ipv6", "hop_limit", 56, 8),
    ("ipv6", "source_address", 64, 128),
    ("ipv6", "destination_address", 192, 128),
    // RFC 768
    ("udp", "source", 0, 16),
    ("udp", "destination", 16, 16),
    ("udp", "length", 32, 16),
    ("udp", "checksum", 48, 16),
    // RFC 9293 section 3.1; the accessor pair reserved/flags follows RFC 3540: 3 reserved bits, then NS
    // and the eight control bits CWR..FIN as one 9-bit field (RFC 9293: Rsrvd 100..103, control bits 104..111)
    ("tcp", "source", 0, 16),
    ("tcp", "destination", 16, 16),
    ("tcp", "sequence", 32, 32),
    ("tcp", "acknowledgement", 64, 32),
    ("tcp", "data_offset", 96, 4),
    ("tcp", "reserved", 100, 3),
    ("tcp", "flags", 103, 9),
    ("tcp", "window_size", 112, 16),
    ("tcp", "checksum", 128, 16),
    ("tcp", "urgent_pointer", 144, 16),
    // RFC 792; RFC 4884 section 4.1/4.2 (length = second octet of the unused word); RFC 1191 section 4 (next-hop MTU)
    ("icmp4", "icmp_type", 0, 8),
    ("icmp4", "icmp_code", 8, 8),
    ("icmp4", "checksum", 16, 16),
    ("icmp4_echo_request", "icmp_type", 0, 8),
    ("icmp4_echo_request", "icmp_code", 8, 8),
    ("icmp4_echo_request", "checksum", 16, 16),
    ("icmp4_echo_request", "identifier", 32, 16),
    ("icmp4_echo_request", "sequence", 48, 16),
    ("icmp4_echo_reply", "icmp_type", 0, 8),
    ("icmp4_echo_reply", "icmp_code", 8, 8),
    ("icmp4_echo_reply", "checksum", 16, 16),
    ("icmp4_echo_reply", "identifier", 32, 16),
    ("icmp4_echo_reply", "sequence", 48, 16),
    ("icmp4_time_exceeded", "icmp_type", 0, 8),
    ("icmp4_time_exceeded", "icmp_code", 8, 8),
    ("icmp4_time_exceeded", "checksum", 16, 16),
    ("icmp4_time_exceeded", "length", 40, 8),
    ("icmp4_dest_unreachable", "icmp_type", 0, 8),
    ("icmp4_dest_unreachable", "icmp_code", 8, 8),
    ("icmp4_dest_unreachable", "checksum", 16, 16),
    ("icmp4_dest_unreachable", "length", 40, 8),
    ("icmp4_dest_unreachable", "next_hop_mtu", 48, 16),
    // RFC 4443 section 2.1, 4.1, 4.2; RFC 4884 section 4.3/4.4 (length = first octet of the unused word)
    ("icmp6", "icmp_type", 0, 8),
    ("icmp6", "icmp_code", 8, 8),
    ("icmp6", "checksum", 16, 16),
    ("icmp6_echo_request", "icmp_type", 0, 8),
    ("icmp6_echo_request", "icmp_code", 8, 8),
    ("icmp6_echo_request", "checksum", 16, 16),
    ("icmp6_echo_request", "identifier", 32, 16),
    ("icmp6_echo_request", "sequence", 48, 16),
    ("icmp6_echo_reply", "icmp_type", 0, 8),
    ("icmp6_echo_reply", "icmp_code", 8, 8),
    ("icmp6_echo_reply", "checksum", 16, 16),
    ("icmp6_echo_reply", "identifier", 32, 16),
    ("icmp6_echo_reply", "sequence", 48, 16),
    ("icmp6_time_exceeded", "icmp_type", 0, 8),
    ("icmp6_time_exceeded", "icmp_code", 8, 8),
    ("icmp6_time_exceeded", "checksum", 16, 16),
    ("icmp6_time_exceeded", "length", 32, 8),
    ("icmp6_dest_unreachable", "icmp_type", 0, 8),
    ("icmp6_dest_unreachable", "icmp_code", 8, 8),
    ("icmp6_dest_unreachable", "checksum", 16, 16),
    ("icmp6_dest_unreachable", "length", 32, 8),
    // no RFC defines a next-hop MTU in the ICMPv6 Destination Unreachable message (RFC 4443 3.1 / RFC 4884 4.3:
    // octets 5..7 unused); the position is the ICMPv4 one (RFC 1191), which is what the accessor name promises
    ("icmp6_dest_unreachable", "next_hop_mtu", 48, 16),
    // RFC 4884 section 7 (extension header) and 7.1 (object header)
    ("ext_header", "version", 0, 4),
    ("ext_header", "checksum", 16, 16),
    ("ext_object", "length", 0, 16),
    ("ext_object", "class_num", 16, 8),
    ("ext_object", "class_subtype", 24, 8),
    // RFC 4950 section 3 / RFC 3032 section 2.1: label 20, EXP 3, S 1, TTL 8
    ("mpls_member", "label", 0, 20),
    ("mpls_member", "exp", 20, 3),
    ("mpls_member", "bos", 23, 1),
    ("mpls_member", "ttl", 24, 8),
];

/// minimum header sizes in octets (fixed header of each RFC)
const RFC_MIN: &[(&str, usize)] = &[
    ("ipv4", 20),
    ("ipv6", 40),
    ("udp", 8),
    ("tcp", 20),
    ("icmp4", 8),
    ("icmp4_echo_request", 8),
    ("icmp4_echo_reply", 8),
    ("icmp4_time_exceeded", 8),
    ("icmp4_dest_unreachable", 8),
    ("icmp6", 8),
    ("icmp6_echo_request", 8),
    ("icmp6_echo_reply", 8),
    ("icmp6_time_exceeded", 8),
    ("icmp6_dest_unreachable", 8),
    ("extensions", 4),
    ("ext_header", 4),
    ("ext_object", 4),
    ("mpls_stack", 4),
    ("mpls_member", 4),
];

fn rfc_pos(ty: &str, field: &str) -> (usize, usize) {
    RFC.iter().find(|r| r.0 == ty && r.1 == field).map(|r| (r.2, r.3)).expect("field not in the RFC table")
}
fn rfc_min(ty: &str) -> usize {
    RFC_MIN.iter().find(|r| r.0 == ty).map(|r| r.1).expect("type not in the RFC table")
}

fn bit(buf: &[u8], i: usize) -> u8 {
    (buf[i / 8] >> (7 - i % 8)) & 1
}
/// the big-endian unsigned integer formed by bits off .. off+w-1
fn slice(buf: &[u8], off: usize, w: usize) -> u128 {
    (off..off + w).fold(0u128, |a, i| (a << 1) | u128::from(bit(buf, i)))
}
fn low_bits(v: u128, w: usize) -> u128 {
    if w >= 128 { v } else { v & ((1u128 << w) - 1) }
}
/// generator-side only: write a slice (used to build base buffers with a chosen field content)
fn put_slice(buf: &mut [u8], off: usize, w: usize, v: u128) {
    for j in 0..w {
        let i = off + j;
        let b = ((v >> (w - 1 - j)) & 1) as u8;
        let m = 1u8 << (7 - i % 8);
        if b == 1 { buf[i / 8] |= m } else { buf[i / 8] &= !m }
    }
}

// ------------------------------------------------------------------------------------------------
// the code under test: one entry per accessor pair
// ------------------------------------------------------------------------------------------------

#[derive(Clone, Copy, PartialEq, Eq)]
enum Kind {
    U8,
    U16,
    U32,
    Addr4,
    Addr16,
    Enum, // u8-backed enum with From<u8>, id() and an Other(u8) variant
}
impl Kind {
    fn arg_bits(self) -> usize {
        match self {
            Kind::U8 | Kind::Enum => 8,
            Kind::U16 => 16,
            Kind::U32 | Kind::Addr4 => 32,
            Kind::Addr16 => 128,
        }
    }
}

struct Field {
    ty: &'static str,
    name: &'static str,
    kind: Kind,
    /// getter through `new_view`, printed the way the model driver prints it
    get: fn(&[u8]) -> String,
    /// getter through `new_view`, as an unsigned integer (enum -> id(), address -> big-endian value)
    getn: fn(&[u8]) -> u128,
    /// setter through `new`; the flag selects the `Other(v)` variant for enum arguments
    set: fn(&mut [u8], u128, bool),
}

fn variant(dbg: String) -> String {
    dbg.split('(').next().unwrap().to_string()
}

thread_local! {
    /// set by a setter closure when the object that was written through describes itself differently from a fresh view over its bytes
    static STALE: std::cell::RefCell<Option<String>> = const { std::cell::RefCell::new(None) };
}
/// Run a setter on a packet object and compare what the SAME object then says about itself (its Debug text: every field, the
/// options and the payload) with what a fresh read-only view over the bytes says: an accessor must depend on the buffer alone.
macro_rules! set_on {
    ($P:ty, $b:ident, $p:ident => $call:expr) => {{
        let seen = {
            let mut $p = <$P>::new(&mut *$b).unwrap();
            $call;
            std::panic::catch_unwind(std::panic::AssertUnwindSafe(|| format!("{:?}", $p))).ok()
        };
        let fresh = std::panic::catch_unwind(std::panic::AssertUnwindSafe(|| format!("{:?}", <$P>::new_view(&*$b).unwrap()))).ok();
        if seen != fresh {
            STALE.with(|s| *s.borrow_mut() = Some(format!("object_says_{}_fresh_view_says_{}", seen.unwrap_or_else(|| "panic".into()), fresh.unwrap_or_else(|| "panic".into())).replace(' ', "")));
        }
    }};
}
macro_rules! uint {
    ($ty:literal, $name:literal, $P:ty, $get:ident, $set:ident, $t:ty, $kind:expr) => {
        Field {
            ty: $ty,
            name: $name,
            kind: $kind,
            get: |b| <$P>::new_view(b).unwrap().$get().to_string(),
            getn: |b| u128::from(<$P>::new_view(b).unwrap().$get()),
            set: |b, v, _| set_on!($P, b, p => p.$set(v as $t)),
        }
    };
}
macro_rules! newtype {
    ($ty:literal, $name:literal, $P:ty, $get:ident, $set:ident, $N:path) => {
        Field {
            ty: $ty,
            name: $name,
            kind: Kind::U8,
            get: |b| <$P>::new_view(b).unwrap().$get().0.to_string(),
            getn: |b| u128::from(<$P>::new_view(b).unwrap().$get().0),
            set: |b, v, _| set_on!($P, b, p => p.$set($N(v as u8))),
        }
    };
}
macro_rules! enumf {
    ($ty:literal, $name:literal, $P:ty, $get:ident, $set:ident, $E:ty) => {
        Field {
            ty: $ty,
            name: $name,
            kind: Kind::Enum,
            get: |b| {
                let e = <$P>::new_view(b).unwrap().$get();
                format!("{}/{}", variant(format!("{e:?}")), e.id())
            },
            getn: |b| u128::from(<$P>::new_view(b).unwrap().$get().id()),
            set: |b, v, other| {
                let e = if other { <$E>::Other(v as u8) } else { <$E>::from(v as u8) };
                set_on!($P, b, p => p.$set(e))
            },
        }
    };
}
macro_rules! addr4 {
    ($ty:literal, $name:literal, $P:ty, $get:ident, $set:ident) => {
        Field {
            ty: $ty,
            name: $name,
            kind: Kind::Addr4,
            get: |b| hex(&<$P>::new_view(b).unwrap().$get().octets()),
            getn: |b| u128::from(u32::from_be_bytes(<$P>::new_view(b).unwrap().$get().octets())),
            set: |b, v, _| set_on!($P, b, p => p.$set(Ipv4Addr::from((v as u32).to_be_bytes()))),
        }
    };
}
macro_rules! addr16 {
    ($ty:literal, $name:literal, $P:ty, $get:ident, $set:ident) => {
        Field {
            ty: $ty,
            name: $name,
            kind: Kind::Addr16,
            get: |b| hex(&<$P>::new_view(b).unwrap().$get().octets()),
            getn: |b| u128::from_be_bytes(<$P>::new_view(b).unwrap().$get().octets()),
            set: |b, v, _| set_on!($P, b, p => p.$set(Ipv6Addr::from(v.to_be_bytes()))),
        }
    };
}
macro_rules! icmp_common {
    ($v:ident, $ty:literal, $P:ty, $m:ident) => {
        $v.push(enumf!($ty, "icmp_type", $P, get_icmp_type, set_icmp_type, $m::IcmpType));
        $v.push(newtype!($ty, "icmp_code", $P, get_icmp_code, set_icmp_code, $m::IcmpCode));
        $v.push(uint!($ty, "checksum", $P, get_checksum, set_checksum, u16, Kind::U16));
    };
}
macro_rules! icmp_family {
    ($v:ident, $m:ident, $gen:literal, $req:literal, $rep:literal, $te:literal, $du:literal) => {
        icmp_common!($v, $gen, $m::IcmpPacket, $m);
        icmp_common!($v, $req, $m::echo_request::EchoRequestPacket, $m);
        $v.push(uint!($req, "identifier", $m::echo_request::EchoRequestPacket, get_identifier, set_identifier, u16, Kind::U16));
        $v.push(uint!($req, "sequence", $m::echo_request::EchoRequestPacket, get_sequence, set_sequence, u16, Kind::U16));
        icmp_common!($v, $rep, $m::echo_reply::EchoReplyPacket, $m);
        $v.push(uint!($rep, "identifier", $m::echo_reply::EchoReplyPacket, get_identifier, set_identifier, u16, Kind::U16));
        $v.push(uint!($rep, "sequence", $m::echo_reply::EchoReplyPacket, get_sequence, set_sequence, u16, Kind::U16));
        icmp_common!($v, $te, $m::time_exceeded::TimeExceededPacket, $m);
        $v.push(uint!($te, "length", $m::time_exceeded::TimeExceededPacket, get_length, set_length, u8, Kind::U8));
        icmp_common!($v, $du, $m::destination_unreachable::DestinationUnreachablePacket, $m);
        $v.push(uint!($du, "length", $m::destination_unreachable::DestinationUnreachablePacket, get_length, set_length, u8, Kind::U8));
        $v.push(uint!($du, "next_hop_mtu", $m::destination_unreachable::DestinationUnreachablePacket, get_next_hop_mtu, set_next_hop_mtu, u16, Kind::U16));
    };
}

fn fields() -> Vec<Field> {
    let mut v: Vec<Field> = Vec::new();
    v.push(uint!("ipv4", "version", Ipv4Packet, get_version, set_version, u8, Kind::U8));
    v.push(uint!("ipv4", "header_length", Ipv4Packet, get_header_length, set_header_length, u8, Kind::U8));
    v.push(uint!("ipv4", "dscp", Ipv4Packet, get_dscp, set_dscp, u8, Kind::U8));
    v.push(uint!("ipv4", "ecn", Ipv4Packet, get_ecn, set_ecn, u8, Kind::U8));
    v.push(uint!("ipv4", "tos", Ipv4Packet, get_tos, set_tos, u8, Kind::U8));
    v.push(uint!("ipv4", "total_length", Ipv4Packet, get_total_length, set_total_length, u16, Kind::U16));
    v.push(uint!("ipv4", "identification", Ipv4Packet, get_identification, set_identification, u16, Kind::U16));
    v.push(uint!("ipv4", "flags_and_fragment_offset", Ipv4Packet, get_flags_and_fragment_offset, set_flags_and_fragment_offset, u16, Kind::U16));
    v.push(uint!("ipv4", "ttl", Ipv4Packet, get_ttl, set_ttl, u8, Kind::U8));
    v.push(enumf!("ipv4", "protocol", Ipv4Packet, get_protocol, set_protocol, IpProtocol));
    v.push(uint!("ipv4", "checksum", Ipv4Packet, get_checksum, set_checksum, u16, Kind::U16));
    v.push(addr4!("ipv4", "source", Ipv4Packet, get_source, set_source));
    v.push(addr4!("ipv4", "destination", Ipv4Packet, get_destination, set_destination));

    v.push(uint!("ipv6", "version", Ipv6Packet, get_version, set_version, u8, Kind::U8));
    v.push(uint!("ipv6", "traffic_class", Ipv6Packet, get_traffic_class, set_traffic_class, u8, Kind::U8));
    v.push(uint!("ipv6", "flow_label", Ipv6Packet, get_flow_label, set_flow_label, u32, Kind::U32));
    v.push(uint!("ipv6", "payload_length", Ipv6Packet, get_payload_length, set_payload_length, u16, Kind::U16));
    v.push(enumf!("ipv6", "next_header", Ipv6Packet, get_next_header, set_next_header, IpProtocol));
    v.push(uint!("ipv6", "hop_limit", Ipv6Packet, get_hop_limit, set_hop_limit, u8, Kind::U8));
    v.push(addr16!("ipv6", "source_address", Ipv6Packet, get_source_address, set_source_address));
    v.push(addr16!("ipv6", "destination_address", Ipv6Packet, get_destination_address, set_destination_address));

    v.push(uint!("udp", "source", UdpPacket, get_source, set_source, u16, Kind::U16));
    v.push(uint!("udp", "destination", UdpPacket, get_destination, set_destination, u16, Kind::U16));
    v.push(uint!("udp", "length", UdpPacket, get_length, set_length, u16, Kind::U16));
    v.push(uint!("udp", "checksum", UdpPacket, get_checksum, set_checksum, u16, Kind::U16));

    v.push(uint!("tcp", "source", TcpPacket, get_source, set_source, u16, Kind::U16));
    v.push(uint!("tcp", "destination", TcpPacket, get_destination, set_destination, u16, Kind::U16));
    v.push(uint!("tcp", "sequence", TcpPacket, get_sequence, set_sequence, u32, Kind::U32));
    v.push(uint!("tcp", "acknowledgement", TcpPacket, get_acknowledgement, set_acknowledgement, u32, Kind::U32));
    v.push(uint!("tcp", "data_offset", TcpPacket, get_data_offset, set_data_offset, u8, Kind::U8));
    v.push(uint!("tcp", "reserved", TcpPacket, get_reserved, set_reserved, u8, Kind::U8));
    v.push(uint!("tcp", "flags", TcpPacket, get_flags, set_flags, u16, Kind::U16));
    v.push(uint!("tcp", "window_size", TcpPacket, get_window_size, set_window_size, u16, Kind::U16));
    v.push(uint!("tcp", "checksum", TcpPacket, get_checksum, set_checksum, u16, Kind::U16));
    v.push(uint!("tcp", "urgent_pointer", TcpPacket, get_urgent_pointer, set_urgent_pointer, u16, Kind::U16));

    icmp_family!(v, icmpv4, "icmp4", "icmp4_echo_request", "icmp4_echo_reply", "icmp4_time_exceeded", "icmp4_dest_unreachable");
    icmp_family!(v, icmpv6, "icmp6", "icmp6_echo_request", "icmp6_echo_reply", "icmp6_time_exceeded", "icmp6_dest_unreachable");

    v.push(uint!("ext_header", "version", ExtensionHeaderPacket, get_version, set_version, u8, Kind::U8));
    v.push(uint!("ext_header", "checksum", ExtensionHeaderPacket, get_checksum, set_checksum, u16, Kind::U16));
    v.push(uint!("ext_object", "length", ExtensionObjectPacket, get_length, set_length, u16, Kind::U16));
    v.push(enumf!("ext_object", "class_num", ExtensionObjectPacket, get_class_num, set_class_num, ClassNum));
    v.push(newtype!("ext_object", "class_subtype", ExtensionObjectPacket, get_class_subtype, set_class_subtype, ClassSubType));
    v.push(uint!("mpls_member", "label", MplsLabelStackMemberPacket, get_label, set_label, u32, Kind::U32));
    v.push(uint!("mpls_member", "exp", MplsLabelStackMemberPacket, get_exp, set_exp, u8, Kind::U8));
    v.push(uint!("mpls_member", "bos", MplsLabelStackMemberPacket, get_bos, set_bos, u8, Kind::U8));
    v.push(uint!("mpls_member", "ttl", MplsLabelStackMemberPacket, get_ttl, set_ttl, u8, Kind::U8));
    v
}

type Ctor = fn(&mut [u8]) -> Result<(), trippy_packet::error::Error>;
macro_rules! ctor {
    ($ty:literal, $P:ty) => {
        (
            $ty,
            (|b: &mut [u8]| <$P>::new(b).map(|_| ())) as Ctor,
            (|b: &mut [u8]| <$P>::new_view(b).map(|_| ())) as Ctor,
        )
    };
}
fn ctors() -> Vec<(&'static str, Ctor, Ctor)> {
    vec![
        ctor!("ipv4", Ipv4Packet),
        ctor!("ipv6", Ipv6Packet),
        ctor!("udp", UdpPacket),
        ctor!("tcp", TcpPacket),
        ctor!("icmp4", icmpv4::IcmpPacket),
        ctor!("icmp4_echo_request", icmpv4::echo_request::EchoRequestPacket),
        ctor!("icmp4_echo_reply", icmpv4::echo_reply::EchoReplyPacket),
        ctor!("icmp4_time_exceeded", icmpv4::time_exceeded::TimeExceededPacket),
        ctor!("icmp4_dest_unreachable", icmpv4::destination_unreachable::DestinationUnreachablePacket),
        ctor!("icmp6", icmpv6::IcmpPacket),
        ctor!("icmp6_echo_request", icmpv6::echo_request::EchoRequestPacket),
        ctor!("icmp6_echo_reply", icmpv6::echo_reply::EchoReplyPacket),
        ctor!("icmp6_time_exceeded", icmpv6::time_exceeded::TimeExceededPacket),
        ctor!("icmp6_dest_unreachable", icmpv6::destination_unreachable::DestinationUnreachablePacket),
        ctor!("extensions", ExtensionsPacket),
        ctor!("ext_header", ExtensionHeaderPacket),
        ctor!("ext_object", ExtensionObjectPacket),
        ctor!("mpls_stack", MplsLabelStackPacket),
        ctor!("mpls_member", MplsLabelStackMemberPacket),
    ]
}

// ------------------------------------------------------------------------------------------------
// payload setters: the code under test and the oracle's own RFC payload position
// ------------------------------------------------------------------------------------------------

type SetPayload = fn(&mut [u8], &[u8]);
/// what the code's read side returns for the payload (`payload()`; `payload_raw()` for the ICMP error messages,
/// whose `payload()` is cut by the RFC 4884 splitter - property C14)
type GetPayload = fn(&[u8]) -> Vec<u8>;

macro_rules! pay {
    ($ty:literal, $P:ty, $read:ident) => {
        (
            $ty,
            (|b: &mut [u8], p: &[u8]| <$P>::new(b).unwrap().set_payload(p)) as SetPayload,
            (|b: &[u8]| <$P>::new_view(b).unwrap().$read().to_vec()) as GetPayload,
        )
    };
}
fn payload_setters() -> Vec<(&'static str, SetPayload, GetPayload)> {
    vec![
        pay!("ipv4", Ipv4Packet, payload),
        pay!("ipv6", Ipv6Packet, payload),
        pay!("udp", UdpPacket, payload),
        pay!("tcp", TcpPacket, payload),
        pay!("icmp4_echo_request", icmpv4::echo_request::EchoRequestPacket, payload),
        pay!("icmp4_echo_reply", icmpv4::echo_reply::EchoReplyPacket, payload),
        pay!("icmp4_time_exceeded", icmpv4::time_exceeded::TimeExceededPacket, payload_raw),
        pay!("icmp4_dest_unreachable", icmpv4::destination_unreachable::DestinationUnreachablePacket, payload_raw),
        pay!("icmp6_echo_request", icmpv6::echo_request::EchoRequestPacket, payload),
        pay!("icmp6_echo_reply", icmpv6::echo_reply::EchoReplyPacket, payload),
        pay!("icmp6_time_exceeded", icmpv6::time_exceeded::TimeExceededPacket, payload_raw),
        pay!("icmp6_dest_unreachable", icmpv6::destination_unreachable::DestinationUnreachablePacket, payload_raw),
        pay!("ext_object", ExtensionObjectPacket, payload),
    ]
}

/// The octet at which the RFC puts the payload, from the buffer alone.  Written from the RFCs: the IPv4 header
/// is IHL 32-bit words long (RFC 791 3.1, options included), the TCP header `data offset` 32-bit words
/// (RFC 9293 3.1, options included); a value below 5 is illegal in both and cannot make the header shorter than
/// its fixed part.  The IPv6 fixed header is 40 octets (RFC 8200 3; extension headers belong to the payload as far
/// as this accessor is concerned), UDP 8 (RFC 768), ICMP 8 (RFC 792 / 4443), the extension object header 4 (RFC 4884 7.1).
fn rfc_payload_offset(ty: &str, buf: &[u8]) -> usize {
    let min = rfc_min(ty);
    match ty {
        "ipv4" => {
            let (off, w) = rfc_pos("ipv4", "header_length");
            (slice(buf, off, w) as usize * 4).max(min)
        }
        "tcp" => {
            let (off, w) = rfc_pos("tcp", "data_offset");
            (slice(buf, off, w) as usize * 4).max(min)
        }
        _ => min,
    }
}

/// where the read side must stop: the end of the buffer, except where an RFC length field bounds the payload
/// and the accessor honours it (IPv6 payload length: octets behind the fixed header; extension object length:
/// octets including the 4-octet object header)
fn rfc_payload_end(ty: &str, buf: &[u8]) -> usize {
    let start = rfc_payload_offset(ty, buf);
    match ty {
        "ipv6" => {
            let (off, w) = rfc_pos("ipv6", "payload_length");
            (start + slice(buf, off, w) as usize).min(buf.len())
        }
        "ext_object" => {
            let (off, w) = rfc_pos("ext_object", "length");
            (slice(buf, off, w) as usize).max(start).min(buf.len())
        }
        _ => buf.len(),
    }
}

// ------------------------------------------------------------------------------------------------
// cases
// ------------------------------------------------------------------------------------------------

fn fmt_value(kind: Kind, v: u128) -> String {
    match kind {
        Kind::Addr4 => hex(&(v as u32).to_be_bytes()),
        Kind::Addr16 => hex(&v.to_be_bytes()),
        _ => v.to_string(),
    }
}
fn parse_value(kind: Kind, s: &str) -> u128 {
    match kind {
        Kind::Addr4 | Kind::Addr16 => unhex(s).iter().fold(0u128, |a, b| (a << 8) | u128::from(*b)),
        _ => s.parse().unwrap(),
    }
}

#[derive(Default)]
struct Stats {
    set_cases: usize,
    get_cases: usize,
    new_cases: usize,
    truncating: usize,
    nonzero_base: usize,
    pay_cases: usize,
    pay_fit: usize,
    pay_exact_fit: usize,
    pay_no_fit: usize,
    pay_with_options: usize,
}

fn set_case(f: &Field, v: u128, other: bool, base: &[u8], out: &mut Out, st: &mut Stats) {
    let (off, w) = rfc_pos(f.ty, f.name);
    let op = if other { "seto" } else { "set" };
    let input = format!("acc {} {} {} {} {}", f.ty, f.name, op, fmt_value(f.kind, v), hex(base));
    st.set_cases += 1;
    if v != low_bits(v, w) { st.truncating += 1; }
    if base.iter().any(|b| *b != 0) { st.nonzero_base += 1; }
    let set = f.set;
    let getn = f.getn;
    STALE.with(|s| *s.borrow_mut() = None);
    let r = std::panic::catch_unwind(|| {
        let mut b = base.to_vec();
        set(&mut b, v, other);
        let back = getn(&b);
        (b, back)
    });
    match r {
        Err(e) => out.case(&input, "fault:panic", &format!("FAIL:C12:panic:{}", crate::panic_msg(e).replace(' ', "_"))),
        Ok((after, back)) => {
            let want = low_bits(v, w);
            let oracle = if after.len() != base.len() {
                format!("FAIL:C12:length_changed:{}->{}", base.len(), after.len())
            } else if slice(&after, off, w) != want {
                format!("FAIL:C12:field_bits={}_expected={}", slice(&after, off, w), want)
            } else if let Some(i) = (0..8 * base.len()).find(|i| (*i < off || *i >= off + w) && bit(&after, *i) != bit(base, *i)) {
                format!("FAIL:C12:bit_{}_outside_[{},{})_changed_{}->{}", i, off, off + w, bit(base, i), bit(&after, i))
            } else if back != want {
                format!("FAIL:C12:getter_reads_back={}_expected={}", back, want)
            } else if let Some(m) = STALE.with(|s| s.borrow_mut().take()) {
                let m: String = m.chars().take(300).collect();
                format!("FAIL:C12:after_the_setter_the_object_disagrees_with_its_buffer:{m}")
            } else {
                "ok".to_string()
            };
            out.case(&input, &hex(&after), &oracle);
        }
    }
}

fn get_case(f: &Field, base: &[u8], out: &mut Out, st: &mut Stats) {
    let (off, w) = rfc_pos(f.ty, f.name);
    let input = format!("acc {} {} get {}", f.ty, f.name, hex(base));
    st.get_cases += 1;
    if base.iter().any(|b| *b != 0) { st.nonzero_base += 1; }
    let get = f.get;
    let getn = f.getn;
    let r = std::panic::catch_unwind(|| {
        let b = base.to_vec();
        let s = get(&b);
        let n = getn(&b);
        (b, s, n)
    });
    match r {
        Err(e) => out.case(&input, "fault:panic", &format!("FAIL:C12:panic:{}", crate::panic_msg(e).replace(' ', "_"))),
        Ok((after, s, n)) => {
            let want = slice(base, off, w);
            let oracle = if after != base {
                "FAIL:C12:view_modified_the_buffer".to_string()
            } else if n != want {
                format!("FAIL:C12:getter={}_rfc_slice={}", n, want)
            } else {
                "ok".to_string()
            };
            out.case(&input, &s, &oracle);
        }
    }
}

fn new_case(name: &str, view: bool, c: Ctor, len: usize, out: &mut Out, st: &mut Stats) {
    let input = format!("{} {} {}", if view { "new_view" } else { "new" }, name, len);
    st.new_cases += 1;
    let min = rfc_min(name);
    let r = std::panic::catch_unwind(|| {
        let mut b = vec![0u8; len];
        c(&mut b)
    });
    match r {
        Err(e) => out.case(&input, "fault:panic", &format!("FAIL:C12:panic:{}", crate::panic_msg(e).replace(' ', "_"))),
        Ok(Ok(())) => {
            let oracle = if len >= min { "ok".to_string() } else { format!("FAIL:C12:accepted_{}_octets_minimum_{}", len, min) };
            out.case(&input, "ok", &oracle);
        }
        Ok(Err(trippy_packet::error::Error::InsufficientPacketBuffer(_, m, p))) => {
            let oracle = if len >= min {
                format!("FAIL:C12:rejected_{}_octets_minimum_{}", len, min)
            } else if m != min || p != len {
                format!("FAIL:C12:error_reports_minimum={}_provided={}", m, p)
            } else {
                "ok".to_string()
            };
            out.case(&input, "err", &oracle);
        }
    }
}

fn optmut_case(base: &[u8], out: &mut Out) {
    let input = format!("c12optmut {}", hex(base));
    // RFC 791: the options are the octets 20 .. 4*IHL of the header (none when IHL <= 5), as far as the buffer goes
    let ihl = (base[0] & 0x0F) as usize;
    let (s, e) = (20usize, (ihl * 4).max(20).min(base.len()));
    let r = std::panic::catch_unwind(|| {
        let mut b = base.to_vec();
        let (n_mut, n_ro) = {
            let mut p = Ipv4Packet::new(&mut b).unwrap();
            let n_ro = p.get_options_raw().len();
            let w = p.get_options_raw_mut();
            for x in w.iter_mut() { *x = !*x; }
            (w.len(), n_ro)
        };
        (b, n_mut, n_ro)
    });
    match r {
        Err(e) => out.case(&input, "fault:panic", &format!("FAIL:C12:panic:{}", crate::panic_msg(e).replace(' ', "_"))),
        Ok((after, n_mut, n_ro)) => {
            let oracle = if after.len() != base.len() {
                format!("FAIL:C12:length_changed:{}->{}", base.len(), after.len())
            } else if n_mut != e - s {
                format!("FAIL:C12:options_window_of_{}_octets_expected_{}", n_mut, e - s)
            } else if n_mut != n_ro {
                format!("FAIL:C12:mutable_window_{}_octets_read_only_window_{}", n_mut, n_ro)
            } else if let Some(i) = (0..base.len()).find(|i| after[*i] != if *i >= s && *i < e { !base[*i] } else { base[*i] }) {
                format!("FAIL:C12:octet_{}_{}_the_options_field_[{},{})_is_{:02x}_was_{:02x}", i, if i >= s && i < e { "inside" } else { "outside" }, s, e, after[i], base[i])
            } else {
                "ok".to_string()
            };
            out.case(&input, &hex(&after), &oracle);
        }
    }
}

fn pay_case(ty: &str, set: SetPayload, read: GetPayload, base: &[u8], payload: &[u8], out: &mut Out, st: &mut Stats) {
    let input = format!("c12pay {} {} {}", ty, hex(base), hex(payload));
    st.pay_cases += 1;
    if base.iter().any(|b| *b != 0) { st.nonzero_base += 1; }
    let off = rfc_payload_offset(ty, base);
    let fits = off + payload.len() <= base.len();
    if fits { st.pay_fit += 1 } else { st.pay_no_fit += 1 }
    if off + payload.len() == base.len() { st.pay_exact_fit += 1; }
    if off > rfc_min(ty) { st.pay_with_options += 1; }
    let r = std::panic::catch_unwind(|| {
        let mut b = base.to_vec();
        set(&mut b, payload);
        let back = read(&b);
        (b, back)
    });
    match r {
        Err(e) => {
            let oracle = if fits {
                format!("FAIL:C12:panic_although_{}_octets_fit_at_{}_of_{}:{}", payload.len(), off, base.len(), crate::panic_msg(e).replace(' ', "_"))
            } else {
                "ok".to_string()
            };
            out.case(&input, "fault:panic", &oracle);
        }
        Ok((after, back)) => {
            let oracle = if !fits {
                format!("FAIL:C12:accepted_{}_octets_at_{}_of_{}", payload.len(), off, base.len())
            } else if after.len() != base.len() {
                format!("FAIL:C12:length_changed:{}->{}", base.len(), after.len())
            } else if let Some(i) = (0..off).find(|i| after[*i] != base[*i]) {
                format!("FAIL:C12:header_octet_{}_before_payload_offset_{}_changed_{:02x}->{:02x}", i, off, base[i], after[i])
            } else if after[off..off + payload.len()] != *payload {
                format!("FAIL:C12:payload_not_at_rfc_offset_{}:found_{}", off, hex(&after[off..off + payload.len()]))
            } else if let Some(i) = (off + payload.len()..base.len()).find(|i| after[*i] != base[*i]) {
                format!("FAIL:C12:octet_{}_behind_the_payload_changed_{:02x}->{:02x}", i, base[i], after[i])
            } else {
                let end = rfc_payload_end(ty, &after);
                let want: &[u8] = if off < end { &after[off..end] } else { &[] };
                if back != want {
                    format!("FAIL:C12:read_side_returns_{}_expected_{}", hex(&back), hex(want))
                } else {
                    "ok".to_string()
                }
            };
            out.case(&input, &hex(&after), &oracle);
        }
    }
}

/// boundary values of an argument type of `bits` bits for a field of width w
fn boundary(bits: usize, w: usize) -> Vec<u128> {
    let max = low_bits(u128::MAX, bits);
    let mut v = vec![0u128, 1, 2, max, max - 1, low_bits(u128::MAX, w), low_bits(0xAAAA_AAAA_AAAA_AAAA_AAAA_AAAA_AAAA_AAAA, bits),
                     low_bits(0x5555_5555_5555_5555_5555_5555_5555_5555, bits)];
    if w < bits {
        v.push(1u128 << w);
        v.push((1u128 << w) + 1);
        v.push(max ^ low_bits(u128::MAX, w)); // only the excess bits set
    }
    if w > 0 { v.push(1u128 << (w - 1)); }
    for j in 0..bits {
        v.push(1u128 << j);
        v.push(max ^ (1u128 << j));
    }
    v.sort_unstable();
    v.dedup();
    v
}

fn random_value(rng: &mut Rng, bits: usize) -> u128 {
    low_bits((u128::from(rng.next()) << 64) | u128::from(rng.next()), bits)
}

pub fn run(args: &Args, out: &mut Out) {
    let fs = fields();
    let cs = ctors();
    let ps = payload_setters();
    let mut st = Stats::default();
    if let Some(path) = &args.replay {
        for l in crate::replay_inputs(path) {
            let t: Vec<&str> = l.split(' ').collect();
            match t[0] {
                "acc" => {
                    let Some(f) = fs.iter().find(|f| f.ty == t[1] && f.name == t[2]) else { continue };
                    match t[3] {
                        "get" => get_case(f, &unhex(t[4]), out, &mut st),
                        "set" | "seto" => set_case(f, parse_value(f.kind, t[4]), t[3] == "seto", &unhex(t[5]), out, &mut st),
                        _ => {}
                    }
                }
                "c12pay" => {
                    let Some(p) = ps.iter().find(|p| p.0 == t[1]) else { continue };
                    pay_case(p.0, p.1, p.2, &unhex(t[2]), &unhex(t[3]), out, &mut st);
                }
                "new" | "new_view" => {
                    let Some(c) = cs.iter().find(|c| c.0 == t[1]) else { continue };
                    let view = t[0] == "new_view";
                    new_case(c.0, view, if view { c.2 } else { c.1 }, t[2].parse().unwrap(), out, &mut st);
                }
                _ => {}
            }
        }
        return;
    }
    let mut rng = Rng::new(args.seed);
    let thorough = args.tier_thorough;
    for f in &fs {
        let (off, w) = rfc_pos(f.ty, f.name);
        let min = rfc_min(f.ty);
        let bits = f.kind.arg_bits();
        // ---- base buffers ----
        let mut main: Vec<Vec<u8>> = vec![vec![0u8; min], vec![0xFFu8; min]];
        for _ in 0..(if thorough { 6 } else { 2 }) { main.push(rng.bytes(min)); }
        let extra = rng.range(1, 8) as usize; // longer than the minimum: the accessors must not care
        main.push(rng.bytes(min + extra));
        let lo = off.saturating_sub(8);
        let hi = (off + w + 8).min(8 * min);
        let mut single: Vec<Vec<u8>> = Vec::new();
        for i in lo..hi {
            let mut z = vec![0u8; min];
            z[i / 8] |= 1 << (7 - i % 8);
            single.push(z);
            let mut o = vec![0xFFu8; min];
            o[i / 8] &= !(1 << (7 - i % 8));
            single.push(o);
        }
        // ---- values ----
        let bnd = boundary(bits, w);
        let mut vals = bnd.clone();
        let exhaustive = thorough && bits <= 16;
        if exhaustive {
            vals = (0..(1u128 << bits)).collect();
        } else {
            for _ in 0..(if thorough { 2000 } else { 100 }) { vals.push(random_value(&mut rng, bits)); }
            // values that differ from a boundary only above the field width
            for _ in 0..20 {
                let r = random_value(&mut rng, bits);
                vals.push(low_bits(r, w) | (r & !low_bits(u128::MAX, w)));
            }
        }
        // ---- set ----
        for (bi, base) in main.iter().enumerate() {
            // the exhaustive 16-bit sweep runs on one random base only (volume); the others get the boundary values
            let vs: &Vec<u128> = if exhaustive && bits == 16 && bi != 2 { &bnd } else { &vals };
            for &v in vs {
                set_case(f, v, false, base, out, &mut st);
            }
            if f.kind == Kind::Enum {
                let vo: Vec<u128> = if thorough { (0..256).collect() } else { bnd.clone() };
                for v in vo { set_case(f, v, true, base, out, &mut st); }
            }
        }
        let few: Vec<u128> = if exhaustive && bits == 8 { vals.clone() } else {
            let max = low_bits(u128::MAX, bits);
            let mut x = vec![0, max, low_bits(u128::MAX, w), low_bits(0xAAAA_AAAA_AAAA_AAAA_AAAA_AAAA_AAAA_AAAA, bits),
                             low_bits(0x5555_5555_5555_5555_5555_5555_5555_5555, bits), random_value(&mut rng, bits)];
            if w < bits { x.push(1u128 << w); x.push(max ^ low_bits(u128::MAX, w)); }
            x
        };
        for base in &single {
            for &v in &few { set_case(f, v, false, base, out, &mut st); }
        }
        // ---- get ----
        for base in main.iter().chain(single.iter()) {
            get_case(f, base, out, &mut st);
        }
        // field contents: exhaustive up to 12 bits wide in the thorough tier (every field that is not made of whole
        // octets), boundary + random otherwise, planted by the generator's own bit writer into a random background;
        // the 16-bit fields are read back on all 2^16 contents by the exhaustive set sweep above
        let contents: Vec<u128> = if thorough && w <= 12 { (0..(1u128 << w)).collect() } else {
            let mut c = boundary(w, w);
            for _ in 0..(if thorough { 500 } else { 40 }) { c.push(random_value(&mut rng, w)); }
            c
        };
        let background = rng.bytes(min);
        for c in contents {
            let mut b = background.clone();
            put_slice(&mut b, off, w, c);
            get_case(f, &b, out, &mut st);
        }
    }
    // ---- construction ----
    for (name, n, nv) in &cs {
        let min = rfc_min(name);
        for len in 0..=(min + 8) {
            new_case(name, false, *n, len, out, &mut st);
            new_case(name, true, *nv, len, out, &mut st);
        }
    }
    // ---- payload setters ----
    // (generated after everything else so that the accessor / construction cases of a seed stay what they were)
    for (ty, set, read) in &ps {
        let min = rfc_min(ty);
        // the header-length nibble decides the offset for IPv4 / TCP: all sixteen values; one pass elsewhere
        let nibble: Option<(usize, usize)> = match *ty {
            "ipv4" => Some(rfc_pos("ipv4", "header_length")),
            "tcp" => Some(rfc_pos("tcp", "data_offset")),
            _ => None,
        };
        let passes: Vec<Option<u128>> = if nibble.is_some() { (0..16).map(Some).collect() } else { vec![None] };
        for hl in passes {
            let off = match hl { Some(v) => (v as usize * 4).max(min), None => min };
            // buffer lengths: the bare minimum, up to the offset (nothing fits, not even the empty payload when
            // the offset lies beyond the end), the offset itself (only the empty payload fits), and room behind it
            let mut lens: Vec<usize> = vec![min, off, off + 1, off + 4, off + rng.range(5, 40) as usize];
            if off > min { lens.push(off - 1); lens.push(min + (off - min) / 2); }
            if thorough { for _ in 0..6 { lens.push(min + rng.range(0, 80) as usize); } }
            lens.sort_unstable();
            lens.dedup();
            for len in lens {
                let mut bases: Vec<Vec<u8>> = vec![rng.bytes(len), vec![0u8; len], vec![0xFFu8; len]];
                for _ in 0..(if thorough { 4 } else { 1 }) { bases.push(rng.bytes(len)); }
                // IPv6 / extension object: the length field bounds the read side; besides the random, zero and
                // all-ones fields above, plant one that cuts the payload region in the middle
                let half = len.saturating_sub(off) / 2;
                if *ty == "ipv6" {
                    let (o, w) = rfc_pos("ipv6", "payload_length");
                    let mut b = rng.bytes(len);
                    put_slice(&mut b, o, w, half as u128);
                    bases.push(b);
                } else if *ty == "ext_object" {
                    let (o, w) = rfc_pos("ext_object", "length");
                    let mut b = rng.bytes(len);
                    put_slice(&mut b, o, w, (off + half) as u128);
                    bases.push(b);
                }
                for mut base in bases {
                    if let (Some((o, w)), Some(v)) = (nibble, hl) { put_slice(&mut base, o, w, v); }
                    let room = len.saturating_sub(off);
                    let mut plens: Vec<usize> = vec![0, 1, room, room + 1, room + 2, room + rng.range(3, 20) as usize];
                    if room >= 1 { plens.push(room - 1); }
                    if room >= 3 { plens.push(rng.range(1, room as u64 - 1) as usize); }
                    plens.sort_unstable();
                    plens.dedup();
                    for pl in plens {
                        // payload octets that differ from the background at every position, so that a write at a
                        // wrong offset cannot go unnoticed
                        let payload: Vec<u8> = (0..pl).map(|j| {
                            let r = rng.next() as u8;
                            let bg = base.get(off + j).copied().unwrap_or(0);
                            let bg0 = base.get(min + j).copied().unwrap_or(0); // where a write without the options term lands
                            let mut x = r;
                            while x == bg || x == bg0 { x = x.wrapping_add(0x5B); }
                            x
                        }).collect();
                        pay_case(ty, *set, *read, &base, &payload, out, &mut st);
                    }
                }
            }
        }
    }
    // ---- the mutable options window of an IPv4 packet ----
    // every IHL; buffers that end before, inside, at the end of and behind the options; every octet of the window
    // the code hands out is complemented, so the line shows exactly which octets the window covers
    let mut n_optmut = 0usize;
    for ihl in 0..16usize {
        let opt_end = (ihl * 4).max(20);
        let mut lens: Vec<usize> = vec![20, 21, opt_end, opt_end + 1, opt_end + 8, 60, 61, 20 + rng.range(0, 60) as usize];
        if opt_end > 21 { lens.push(opt_end - 1); lens.push(20 + (opt_end - 20) / 2); }
        if thorough { for _ in 0..8 { lens.push(20 + rng.range(0, 80) as usize); } }
        lens.sort_unstable();
        lens.dedup();
        for len in lens {
            for k in 0..(if thorough { 4 } else { 2 }) {
                let mut base = match k { 0 => rng.bytes(len), 1 => vec![0u8; len], _ => rng.bytes(len) };
                base[0] = (base[0] & 0xF0) | ihl as u8;
                optmut_case(&base, out);
                n_optmut += 1;
            }
        }
    }
    out.stat("options_window_cases", n_optmut);
    out.stat("accessor_pairs", fs.len());
    out.stat("payload_setters", ps.len());
    out.stat("payload_cases", st.pay_cases);
    out.stat("payload_cases_that_fit", st.pay_fit);
    out.stat("payload_cases_that_fit_exactly", st.pay_exact_fit);
    out.stat("payload_cases_that_do_not_fit", st.pay_no_fit);
    out.stat("payload_cases_with_options", st.pay_with_options);
    out.stat("packet_types", cs.len());
    out.stat("set_cases", st.set_cases);
    out.stat("get_cases", st.get_cases);
    out.stat("new_cases", st.new_cases);
    out.stat("set_cases_with_argument_wider_than_field", st.truncating);
    out.stat("cases_on_nonzero_buffer", st.nonzero_base);
    out.stat("value_domain", if thorough { "exhaustive for 8- and 16-bit arguments (16-bit: on one random base buffer per field); boundary + 2000 random for 32- and 128-bit" } else { "boundary + 120 random per field" });
}
