//! C13: checksum codec and the Paris swap.
use crate::rng::{hex, unhex, Rng};
use crate::sim::{self, Op, SimSocket};
use crate::{Args, Out};
use std::net::{IpAddr, Ipv4Addr, Ipv6Addr};
use std::time::Duration;
use trippy_core::verif::{Channel, ChannelConfig, Network};
use trippy_core::{
    Flags, IcmpExtensionParseMode, PacketSize, PayloadPattern, Port, PrivilegeMode, Probe, Protocol,
    RoundId, Sequence, TimeToLive, TraceId, TypeOfService,
};
use trippy_packet::checksum::*;

/// textbook RFC 1071: one's-complement sum with end-around carry
fn oc_sum(words: impl Iterator<Item = u16>) -> u16 {
    let mut acc: u64 = 0;
    for w in words {
        acc += u64::from(w);
        if acc > 0xFFFF {
            acc = (acc & 0xFFFF) + 1;
        }
    }
    acc as u16
}
fn be_words(d: &[u8]) -> Vec<u16> {
    d.chunks(2)
        .map(|c| if c.len() == 2 { u16::from_be_bytes([c[0], c[1]]) } else { u16::from(c[0]) << 8 })
        .collect()
}
fn pseudo(src: &[u8], dst: &[u8], proto: u8, len: usize) -> Vec<u16> {
    let mut v = be_words(src);
    v.extend(be_words(dst));
    v.push(u16::from(proto));
    v.push(len as u16);
    v
}

fn to4(b: &[u8]) -> Ipv4Addr {
    Ipv4Addr::new(b[0], b[1], b[2], b[3])
}
fn to6(b: &[u8]) -> Ipv6Addr {
    let mut a = [0u8; 16];
    a.copy_from_slice(b);
    Ipv6Addr::from(a)
}

fn cksum_case(kind: &str, d: &[u8], src: &[u8], dst: &[u8], out: &mut Out) {
    let input = format!("cksum {kind} {} {} {}", hex(d), hex(src), hex(dst));
    let r = std::panic::catch_unwind(|| match kind {
        "ipv4hdr" => ipv4_header_checksum(d),
        "icmp4" => icmp_ipv4_checksum(d),
        "icmp6" => icmp_ipv6_checksum(d, to6(src), to6(dst)),
        "udp4" => udp_ipv4_checksum(d, to4(src), to4(dst)),
        "tcp4" => tcp_ipv4_checksum(d, to4(src), to4(dst)),
        "udp6" => udp_ipv6_checksum(d, to6(src), to6(dst)),
        _ => unreachable!(),
    });
    match r {
        Err(e) => out.case(&input, "panic", &format!("FAIL:panic:{}", crate::panic_msg(e))),
        Ok(c) => {
            let (k, proto, keyed) = match kind {
                "ipv4hdr" => (5usize, 0u8, false),
                "icmp4" => (1, 0, false),
                "icmp6" => (1, 58, true),
                "udp4" => (3, 17, true),
                "tcp4" => (8, 6, true),
                _ => (3, 17, true),
            };
            // oracle: insert the checksum, the whole must sum to 0xFFFF (only when the word exists)
            let oracle = if d.len() >= 2 * k + 2 {
                let mut dd = d.to_vec();
                dd[2 * k] = (c >> 8) as u8;
                dd[2 * k + 1] = c as u8;
                let mut ws = if keyed { pseudo(src, dst, proto, d.len()) } else { vec![] };
                ws.extend(be_words(&dd));
                let s = oc_sum(ws.into_iter());
                if s == 0xFFFF { "ok".to_string() } else { format!("FAIL:sum={s:#06x}") }
            } else {
                "ok".to_string()
            };
            out.case(&input, &c.to_string(), &oracle);
        }
    }
}

fn paris_case(v6: bool, sp: u16, dp: u16, seq: u16, src: &[u8], dst: &[u8], out: &mut Out) {
    let input = format!("paris {} {sp} {dp} {seq} {} {}", if v6 { 6 } else { 4 }, hex(src), hex(dst));
    let (s, d): (IpAddr, IpAddr) = if v6 { (to6(src).into(), to6(dst).into()) } else { (to4(src).into(), to4(dst).into()) };
    let r = std::panic::catch_unwind(|| {
        sim::reset();
        let cfg = ChannelConfig {
            privilege_mode: PrivilegeMode::Privileged,
            protocol: Protocol::Udp,
            source_addr: s,
            target_addr: d,
            packet_size: PacketSize(if v6 { 60 } else { 40 }),
            payload_pattern: PayloadPattern(0),
            initial_sequence: Sequence(33434),
            tos: TypeOfService(0),
            icmp_extension_parse_mode: IcmpExtensionParseMode::Disabled,
            read_timeout: Duration::from_millis(10),
            tcp_connect_timeout: Duration::from_millis(1000),
        };
        let mut ch = Channel::<SimSocket>::connect(&cfg).map_err(|e| e.to_string())?;
        let probe = Probe {
            sequence: Sequence(seq),
            identifier: TraceId(0),
            src_port: Port(sp),
            dest_port: Port(dp),
            ttl: TimeToLive(3),
            round: RoundId(0),
            sent: std::time::SystemTime::UNIX_EPOCH,
            flags: Flags::PARIS_CHECKSUM,
        };
        ch.send_probe(probe).map_err(|e| e.to_string())?;
        let bytes = sim::with(|w| {
            w.ops.iter().rev().find_map(|o| if let Op::SendTo(_, b, _) = o { Some(b.clone()) } else { None })
        });
        bytes.ok_or_else(|| "no send_to".to_string())
    });
    match r {
        Err(e) => out.case(&input, "panic", &format!("FAIL:panic:{}", crate::panic_msg(e))),
        Ok(Err(e)) => out.case(&input, &format!("err:{}", e.replace(' ', "_")), "FAIL:error"),
        Ok(Ok(bytes)) => {
            let udp: &[u8] = if v6 { &bytes } else { &bytes[20..] };
            let mut ws = pseudo(src, dst, 17, udp.len());
            ws.extend(be_words(udp));
            let s = oc_sum(ws.into_iter());
            let field = u16::from_be_bytes([udp[6], udp[7]]);
            let oracle = if s != 0xFFFF {
                format!("FAIL:sum={s:#06x}")
            } else if field != seq {
                format!("FAIL:checksum_field={field}")
            } else {
                "ok".to_string()
            };
            out.case(&input, &hex(udp), &oracle);
        }
    }
}

pub fn run(args: &Args, out: &mut Out) {
    if let Some(path) = &args.replay {
        for l in crate::replay_inputs(path) {
            let t: Vec<&str> = l.split(' ').collect();
            match t[0] {
                "cksum" => cksum_case(t[1], &unhex(t[2]), &unhex(t[3]), &unhex(t[4]), out),
                "paris" => paris_case(t[1] == "6", t[2].parse().unwrap(), t[3].parse().unwrap(), t[4].parse().unwrap(), &unhex(t[5]), &unhex(t[6]), out),
                _ => {}
            }
        }
        return;
    }
    let mut rng = Rng::new(args.seed);
    let kinds = ["ipv4hdr", "icmp4", "icmp6", "udp4", "tcp4", "udp6"];
    let reps = if args.tier_thorough { 6 } else { 1 };
    let mut odd = 0usize;
    let mut carry = 0usize;
    for len in 0..=1024usize {
        for kind in kinds {
            for rep in 0..(reps + 1) {
                let v6 = kind.ends_with('6');
                let alen = if v6 { 16 } else { 4 };
                let (d, src, dst) = match rep {
                    0 => (vec![0xFFu8; len], vec![0xFFu8; alen], vec![0xFFu8; alen]),
                    _ => {
                        let mut d = rng.bytes(len);
                        // carry-maximising: mostly 0xFF with a few random bytes
                        if rng.chance(1, 3) {
                            for b in d.iter_mut() {
                                if rng.chance(7, 8) { *b = 0xFF; }
                            }
                            carry += 1;
                        }
                        (d, rng.bytes(alen), rng.bytes(alen))
                    }
                };
                if len % 2 == 1 { odd += 1; }
                cksum_case(kind, &d, &src, &dst, out);
            }
            // all-ones contents with a few small words: whatever the width of the accumulator (16, 32 or 64 bits at a time), k words of
            // all ones plus a remainder below k make the folded halves carry once more - a fold done only once loses that carry
            if len >= 4 && (len % 8 == 0 || len < 128) {
                let alen = if kind.ends_with('6') { 16 } else { 4 };
                for variant in 0..2 {
                    let mut d = vec![0xFFu8; len];
                    let nsmall = 1 + rng.below(3) as usize;
                    for _ in 0..nsmall {
                        let w = rng.below((len / 2) as u64) as usize;
                        d[2 * w] = 0;
                        d[2 * w + 1] = rng.below(12) as u8;
                    }
                    let (src, dst) = if variant == 0 { (vec![0xFFu8; alen], vec![0xFFu8; alen]) } else { (rng.bytes(alen), rng.bytes(alen)) };
                    cksum_case(kind, &d, &src, &dst, out);
                    carry += 1;
                }
            }
            // all-zero contents (also the checksum word holding a stale value) and all-zero addresses: the sum of everything but the
            // checksum word is zero - the negative-zero corner of one's-complement arithmetic
            if len % 4 == 0 || len < 64 {
                let alen = if kind.ends_with('6') { 16 } else { 4 };
                let mut d = vec![0u8; len];
                cksum_case(kind, &d, &vec![0u8; alen], &vec![0u8; alen], out);
                let k = match kind { "ipv4hdr" => 5, "icmp4" | "icmp6" => 1, "udp4" | "udp6" => 3, _ => 8 };
                if len >= 2 * k + 2 { d[2 * k] = 0x12; d[2 * k + 1] = 0x34; cksum_case(kind, &d, &vec![0u8; alen], &vec![0u8; alen], out); }
            }
        }
    }
    // Paris
    let mut seqs: Vec<u16> = vec![0, 1, 2, 255, 256, 257, 0x7FFF, 0x8000, 33434, 65023, 65534, 65535];
    let nrand = if args.tier_thorough { 0 } else { 2000 };
    for _ in 0..nrand { seqs.push(rng.next() as u16); }
    if args.tier_thorough { seqs = (0..=65535u16).collect(); }
    let port_pairs: Vec<(u16, u16)> = if args.tier_thorough { vec![(5000, 33434), (65535, 65535), (0, 1)] } else { vec![(5000, 33434)] };
    let mut nparis = 0usize;
    for v6 in [false, true] {
        let alen = if v6 { 16 } else { 4 };
        for (sp, dp) in &port_pairs {
            let src = rng.bytes(alen);
            let dst = rng.bytes(alen);
            for &s in &seqs {
                let (sp2, dp2) = if args.tier_thorough { (*sp, *dp) } else if rng.chance(1, 2) { (*sp, *dp) } else { (rng.next() as u16, rng.next() as u16) };
                paris_case(v6, sp2, dp2, s, &src, &dst, out);
                nparis += 1;
            }
        }
    }
    // all-0xFF addresses with carry-heavy sequences
    for v6 in [false, true] {
        let alen = if v6 { 16 } else { 4 };
        for s in [0u16, 0xFFFF, 0xFF00, 0x00FF] {
            paris_case(v6, 0xFFFF, 0xFFFF, s, &vec![0xFF; alen], &vec![0xFF; alen], out);
            nparis += 1;
        }
    }
    out.stat("odd_length_cases", odd);
    out.stat("carry_maximising_cases", carry);
    out.stat("paris_cases", nparis);
    out.stat("lengths", "0..=1024 all");
}
