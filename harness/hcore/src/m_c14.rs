//! C14: ICMP multi-part extensions are parsed faithfully and always terminate.
//! Real code under test: TimeExceededPacket / DestinationUnreachablePacket (ICMPv4, ICMPv6) payload(), payload_raw(),
//! extension(); ExtensionsPacket::objects(); MplsLabelStackPacket::members(); trippy_core Extensions::try_from.
//! Oracle (model free): the messages are produced by the RFC builder of pkt.rs, so what was encoded is known;
//! "within / disjoint / in order" is evaluated on the pointers the implementation returned.
use crate::pkt::*;
use crate::rng::{hex, unhex, Rng};
use crate::{Args, Out};
use trippy_core::Extensions;
use trippy_packet::icmp_extension::extension_structure::ExtensionsPacket;
use trippy_packet::icmp_extension::mpls_label_stack::MplsLabelStackPacket;
use trippy_packet::icmp_extension::mpls_label_stack_member::MplsLabelStackMemberPacket;
use trippy_packet::{icmpv4, icmpv6};

struct Obs {
    p: Result<(Vec<u8>, Option<usize>), ()>,
    x: Result<Option<(Vec<u8>, Option<usize>)>, ()>,
    raw: Result<Vec<u8>, ()>,
}
macro_rules! observe {
    ($ty:ty, $msg:ident) => {{
        match <$ty>::new_view($msg) {
            Err(_) => None,
            Ok(pkt) => Some(Obs {
                p: guard(|| { let s = pkt.payload(); (s.to_vec(), offset_in($msg, s)) }),
                x: guard(|| pkt.extension().map(|s| (s.to_vec(), offset_in($msg, s)))),
                raw: guard(|| pkt.payload_raw().to_vec()),
            }),
        }
    }};
}

/// bounded walk over the extension structure: (iterator exceeded its bound?, panicked?)
fn termination_probe(ext: &[u8]) -> (bool, bool) {
    let r = guard(|| {
        let Ok(p) = ExtensionsPacket::new_view(ext) else { return false };
        let (items, over) = objects_capped(&p, ext.len());
        if over {
            return true;
        }
        for it in items {
            let len = usize::from(u16::from_be_bytes([it[0], it[1]]));
            if it[2] == 1 && len >= 8 && len <= it.len() {
                if let Ok(st) = MplsLabelStackPacket::new_view(&it[4..len]) {
                    if members_capped(&st, len - 4).1 {
                        return true;
                    }
                }
            }
        }
        false
    });
    match r { Ok(over) => (over, false), Err(()) => (false, true) }
}

fn exts_result(ext: &[u8]) -> Result<Result<Extensions, ()>, ()> {
    guard(|| Extensions::try_from(ext).map_err(|_| ()))
}

fn c14_case(fam: &str, kind: &str, pm: &str, msg: &[u8], expp: &str, expe: &str, out: &mut Out) {
    let input = format!("c14 {fam} {kind} {pm} {} {expp} {expe}", hex(msg));
    let obs = match (fam, kind) {
        ("4", "te") => observe!(icmpv4::time_exceeded::TimeExceededPacket, msg),
        ("4", _) => observe!(icmpv4::destination_unreachable::DestinationUnreachablePacket, msg),
        ("6", "te") => observe!(icmpv6::time_exceeded::TimeExceededPacket, msg),
        _ => observe!(icmpv6::destination_unreachable::DestinationUnreachablePacket, msg),
    };
    let Some(obs) = obs else {
        out.case(&input, "p=err x=err ne=err", if expp == "?" { "ok" } else { "FAIL:C14:built_message_rejected" });
        return;
    };
    let mut fails: Vec<String> = vec![];
    let p_tok = match &obs.p { Ok((b, _)) => hex(b), Err(()) => { fails.push("C14:panic_in_payload".into()); "fault:panic".into() } };
    let x_tok = match &obs.x {
        Ok(None) => "~".to_string(),
        Ok(Some((b, _))) => hex(b),
        Err(()) => { fails.push("C14:panic_in_extension".into()); "fault:panic".into() }
    };
    // within / disjoint / in order, on the returned pointers
    if let (Ok((p, po)), Ok(x)) = (&obs.p, &obs.x) {
        match po {
            None => fails.push("C14:payload_not_inside_message".into()),
            Some(po) => {
                let pend = if p.is_empty() { 8 } else { po + p.len() };
                if !p.is_empty() && *po < 8 {
                    fails.push("C14:payload_overlaps_icmp_header".into());
                }
                if let Some((xb, xo)) = x {
                    match xo {
                        None => fails.push("C14:extension_not_inside_message".into()),
                        Some(xo) => {
                            if *xo < pend { fails.push("C14:extension_overlaps_payload".into()); }
                            if xo + xb.len() > msg.len() { fails.push("C14:extension_beyond_message".into()); }
                        }
                    }
                }
            }
        }
    }
    // decoded extensions, as the caller obtains them under the parse mode
    let mut exts_tok_s = "-".to_string();
    let mut ne_fault = false;
    let mut ne_err = false;
    let nested: Option<Vec<u8>> = match (pm, kind) {
        ("D", "te") => obs.raw.clone().ok(),
        _ => obs.p.as_ref().ok().map(|(b, _)| b.clone()),
    };
    if nested.is_none() {
        ne_fault = true;
    }
    if pm == "E" {
        match &obs.x {
            Err(()) => ne_fault = true,
            Ok(None) => {}
            Ok(Some((ext, _))) => {
                let (over, panicked) = termination_probe(ext);
                if over {
                    fails.push("C14:iterator_exceeds_len/4".into());
                    ne_fault = true;
                } else if panicked {
                    fails.push("C14:panic_in_iterator".into());
                    ne_fault = true;
                } else {
                    match exts_result(ext) {
                        Err(()) => { fails.push("C14:panic_in_Extensions_try_from".into()); ne_fault = true; }
                        Ok(Err(())) => ne_err = true,
                        Ok(Ok(e)) => exts_tok_s = exts_tok(&e),
                    }
                }
            }
        }
    }
    let ne_tok = if ne_fault { "fault:panic".to_string() } else if ne_err { "err".to_string() } else { format!("{}/{}", hex(nested.as_ref().unwrap()), exts_tok_s) };
    // faithfulness against what the builder encoded
    if expp != "?" && !ne_fault {
        let n = nested.as_ref().unwrap();
        let want = unhex(expp);
        if pm == "E" {
            if *n != want { fails.push(format!("C14:datagram_differs:got_{}_octets_want_{}", n.len(), want.len())); }
            if expe == "err" {
                if !ne_err { fails.push("C14:empty_label_stack_not_rejected".into()); }
            } else if ne_err || exts_tok_s != expe {
                fails.push("C14:extensions_differ".into());
            }
        } else {
            if n.len() < want.len() || n[..want.len()] != want[..] { fails.push("C14:datagram_differs_mode_disabled".into()); }
            if exts_tok_s != "-" { fails.push("C14:extensions_reported_in_disabled_mode".into()); }
        }
    }
    let oracle = if fails.is_empty() { "ok".to_string() } else { format!("FAIL:{}", fails.join(";")) };
    out.case(&input, &format!("p={p_tok} x={x_tok} ne={ne_tok}"), &oracle);
}

fn exts_case(ext: &[u8], out: &mut Out) {
    let input = format!("exts {}", hex(ext));
    let (over, panicked) = termination_probe(ext);
    if over || panicked {
        out.case(&input, "fault:panic", if over { "FAIL:C14:iterator_exceeds_len/4" } else { "FAIL:C14:panic_in_iterator" });
        return;
    }
    match exts_result(ext) {
        Err(()) => out.case(&input, "fault:panic", "FAIL:C14:panic_in_Extensions_try_from"),
        Ok(Err(())) => out.case(&input, "err", "ok"),
        Ok(Ok(e)) => out.case(&input, &exts_tok(&e), "ok"),
    }
}

fn iter_case(which: &str, buf: &[u8], out: &mut Out) {
    let input = format!("iter {which} {}", hex(buf));
    let n = buf.len();
    let r = guard(|| -> Option<(String, bool, usize)> {
        if which == "objs" {
            let p = ExtensionsPacket::new_view(buf).ok()?;
            let (items, over) = objects_capped(&p, n);
            let inside = items.iter().all(|i| offset_in(buf, i).is_some());
            Some((offsets(n, &items), over || !inside, items.len()))
        } else {
            let p = MplsLabelStackPacket::new_view(buf).ok()?;
            let (items, over) = members_capped(&p, n);
            let inside = items.iter().all(|i| offset_in(buf, i).is_some());
            let ms: Vec<String> = items
                .iter()
                .filter_map(|i| MplsLabelStackMemberPacket::new_view(i).ok())
                .map(|m| format!("{}/{}/{}/{}", m.get_label(), m.get_exp(), m.get_bos(), m.get_ttl()))
                .collect();
            Some((format!("{} {}", offsets(n, &items), if ms.is_empty() { "-".to_string() } else { ms.join(",") }), over || !inside, items.len()))
        }
    });
    match r {
        Err(()) => out.case(&input, "fault:panic", "FAIL:C14:panic_in_iterator"),
        Ok(None) => out.case(&input, "err", "ok"),
        Ok(Some((s, bad, k))) => out.case(&input, &s, if bad || k > n / 4 { "FAIL:C14:iterator_exceeds_len/4_or_leaves_buffer" } else { "ok" }),
    }
}

/// tie between the Rust builder (oracle ground truth) and the Coq builder `build_message` (the specification)
fn build_case(v6: bool, fixed: &[u8; 7], orig: &[u8], objs: &[Obj], compliant: bool, out: &mut Out) {
    let input = format!("build {} {} {} {} {}", if v6 { 6 } else { 4 }, hex(fixed), hex(orig), objs_tok(objs), if compliant { "C" } else { "L" });
    out.case(&input, &hex(&build_message(v6, fixed, orig, objs, compliant)), "ok");
}

fn parse_objs(s: &str) -> Vec<Obj> {
    if s == "-" {
        return vec![];
    }
    s.split(',')
        .map(|o| {
            let t: Vec<&str> = o.split(':').collect();
            if t[0] == "M" {
                let st = if t[2] == "-" { vec![] } else {
                    t[2].split(';').map(|e| { let f: Vec<&str> = e.split('/').collect(); Lse { label: f[0].parse().unwrap(), exp: f[1].parse().unwrap(), s: f[2].parse().unwrap(), ttl: f[3].parse().unwrap() } }).collect()
                };
                Obj::Mpls(t[1].parse().unwrap(), st)
            } else {
                Obj::Other(t[1].parse().unwrap(), t[2].parse().unwrap(), unhex(t[3]))
            }
        })
        .collect()
}

fn built(v6: bool, kind: &str, pm: &str, fixed: &[u8; 7], orig: &[u8], objs: &[Obj], compliant: bool, out: &mut Out) -> Vec<u8> {
    let msg = build_message(v6, fixed, orig, objs, compliant);
    let degenerate = compliant && orig.is_empty();
    let expp = if degenerate { "?".to_string() } else { hex(&expected_datagram(v6, orig, compliant)) };
    let expe = if degenerate { "?".to_string() } else {
        match expected_exts(objs) { None => "err".to_string(), Some(v) => { let h = hex(&v); format!("+{}", if h == "-" { String::new() } else { h }) } }
    };
    c14_case(if v6 { "6" } else { "4" }, kind, pm, &msg, &expp, &expe, out);
    msg
}

fn fixed_for(rng: &mut Rng, v6: bool, kind: &str) -> [u8; 7] {
    let ty = match (v6, kind) { (false, "te") => 11, (false, _) => 3, (true, "te") => 3, _ => 1 };
    let b = rng.bytes(6);
    [ty, b[0] % 16, b[1], b[2], b[3], b[4], b[5]]
}

pub fn run(args: &Args, out: &mut Out) {
    if let Some(path) = &args.replay {
        for l in crate::replay_inputs(path) {
            let t: Vec<&str> = l.split(' ').collect();
            match t[0] {
                "c14" if t.len() >= 7 => c14_case(t[1], t[2], t[3], &unhex(t[4]), t[5], t[6], out),
                "exts" => exts_case(&unhex(t[1]), out),
                "iter" => iter_case(t[1], &unhex(t[2]), out),
                "build" => {
                    let f = unhex(t[2]);
                    let mut fixed = [0u8; 7];
                    fixed.copy_from_slice(&f);
                    build_case(t[1] == "6", &fixed, &unhex(t[3]), &parse_objs(t[4]), t[5] == "C", out);
                }
                _ => {}
            }
        }
        return;
    }
    let mut rng = Rng::new(args.seed);
    let th = args.tier_thorough;
    let (mut n_built, mut n_long, mut n_trunc, mut n_flip, mut n_rand, mut n_iter, mut n_mpls_objs, mut n_disabled) = (0usize, 0usize, 0usize, 0usize, 0usize, 0usize, 0usize, 0usize);
    let kinds = ["te", "du"];

    // ---- A. builder stream: every length attribute x padding variants x object lists ----
    for v6 in [false, true] {
        let w = word(v6);
        for l in 1..=255usize {
            let reps = if th { 4 } else { 1 };
            for k in [0usize, 1, w - 1] {
                for rep in 0..reps {
                    let orig = rng.bytes(l * w - k);
                    let nobj = if rep == 0 { (l + k) % 7 } else { rng.below(7) as usize };
                    let objs = random_objs(&mut rng, nobj);
                    n_mpls_objs += objs.iter().filter(|o| matches!(o, Obj::Mpls(..))).count();
                    let kind = kinds[(l + k + rep) % 2];
                    let pm = if rng.chance(1, 8) { n_disabled += 1; "D" } else { "E" };
                    let fixed = fixed_for(&mut rng, v6, kind);
                    built(v6, kind, pm, &fixed, &orig, &objs, true, out);
                    n_built += 1;
                    if l * w > 255 { n_long += 1; }
                }
            }
        }
        // legacy senders: 128-octet quotation, length attribute 0
        for olen in [0usize, 1, 20, 28, 56, 127, 128, 129, 200, 576] {
            for rep in 0..(if th { 16 } else { 4 }) {
                let orig = rng.bytes(olen);
                let objs = random_objs(&mut rng, rep % 7);
                let kind = kinds[rep % 2];
                let fixed = fixed_for(&mut rng, v6, kind);
                built(v6, kind, if rep % 5 == 4 { "D" } else { "E" }, &fixed, &orig, &objs, false, out);
                n_built += 1;
            }
        }
        // object count 0..6 x stack depth 0..8 (depth 0 = an MPLS object without any entry), both modes
        for compliant in [true, false] {
            for nobj in 0..=6usize {
                for depth in 0..=8usize {
                    let mut objs = random_objs(&mut rng, nobj);
                    let wf = rng.chance(3, 4);
                    let st = random_stack(&mut rng, depth, wf);
                    let pos = rng.below(nobj as u64 + 1) as usize;
                    objs.insert(pos, Obj::Mpls(rng.next() as u8, st));
                    let ol = *rng.pick(&[28usize, 48, 128, 136, 300]);
                    let orig = rng.bytes(ol);
                    let kind = kinds[(nobj + depth) % 2];
                    let fixed = fixed_for(&mut rng, v6, kind);
                    built(v6, kind, "E", &fixed, &orig, &objs, compliant, out);
                    n_built += 1;
                }
            }
        }
        // many objects (RFC 4884 sets no limit on their number): 31..100 small objects, an MPLS stack as the last one, both modes
        for compliant in [true, false] {
            for nobj in [31usize, 32, 33, 34, 40, 64, 100] {
                let mut objs: Vec<Obj> = (0..nobj - 1).map(|_| { let pl = 4 * rng.below(2) as usize; Obj::Other(2 + rng.below(250) as u8, rng.next() as u8, rng.bytes(pl)) }).collect();
                objs.push(Obj::Mpls(1, random_stack(&mut rng, 2, true)));
                let orig = rng.bytes(if compliant { 128 } else { 56 });
                let kind = kinds[nobj % 2];
                let fixed = fixed_for(&mut rng, v6, kind);
                built(v6, kind, "E", &fixed, &orig, &objs, compliant, out);
                n_built += 1;
            }
        }
        // degenerate: compliant with an empty quotation (length attribute 0)
        let fixed = fixed_for(&mut rng, v6, "te");
        built(v6, "te", "E", &fixed, &[], &random_objs(&mut rng, 2), true, out);
    }

    // ---- B. corruption stream ----
    let mut bases: Vec<(bool, &str, Vec<u8>, Vec<Obj>, usize)> = vec![]; // (v6, kind, msg, objs, quoted_len)
    for v6 in [false, true] {
        for (olen, compliant) in [(28usize, true), (128, true), (300, true), (56, false)] {
            for nobj in [1usize, 3] {
                let orig = rng.bytes(olen);
                let mut objs = random_objs(&mut rng, nobj - 1);
                objs.push(Obj::Mpls(1, random_stack(&mut rng, 2, true)));
                let kind = kinds[nobj % 2];
                let fixed = fixed_for(&mut rng, v6, kind);
                let msg = build_message(v6, &fixed, &orig, &objs, compliant);
                let q = if compliant { pad_word(v6, &orig).len().max(128) } else { 128 };
                bases.push((v6, kind, msg, objs, q));
            }
        }
    }
    for (v6, kind, msg, objs, q) in &bases {
        let fam = if *v6 { "6" } else { "4" };
        // truncate at every position
        for cut in 0..msg.len() {
            c14_case(fam, kind, "E", &msg[..cut], "?", "?", out);
            n_trunc += 1;
        }
        // every value of the length attribute
        let off = if *v6 { 4 } else { 5 };
        for b in 0..=255u8 {
            let mut m = msg.clone();
            m[off] = b;
            c14_case(fam, kind, if b % 16 == 7 { "D" } else { "E" }, &m, "?", "?", out);
            n_flip += 1;
        }
        // extension header version nibble, every object length field, class octets, S bits
        let ext_at = 8 + q;
        for v in 0..16u8 {
            let mut m = msg.clone();
            m[ext_at] = (v << 4) | (m[ext_at] & 15);
            c14_case(fam, kind, "E", &m, "?", "?", out);
            n_flip += 1;
        }
        let mut at = ext_at + 4;
        for o in objs {
            let olen = enc_obj(o).len();
            let rest = msg.len() - at;
            for v in objlen_domain(olen as i64).into_iter().chain(objlen_domain(rest as i64)) {
                let mut m = msg.clone();
                m[at] = (v >> 8) as u8;
                m[at + 1] = v as u8;
                c14_case(fam, kind, "E", &m, "?", "?", out);
                n_flip += 1;
            }
            for c in [0u8, 1, 2, 255] {
                let mut m = msg.clone();
                m[at + 2] = c;
                c14_case(fam, kind, "E", &m, "?", "?", out);
                n_flip += 1;
            }
            for i in (at + 4..at + olen).step_by(4) {
                if i + 2 < msg.len() {
                    let mut m = msg.clone();
                    m[i + 2] ^= 1;
                    c14_case(fam, kind, "E", &m, "?", "?", out);
                    n_flip += 1;
                }
            }
            at += olen;
        }
    }

    // ---- C. random messages (structure-aware: an extension header is planted where one would be looked for) ----
    let nrand = args.n.unwrap_or(if th { 40000 } else { 8000 });
    for i in 0..nrand {
        let len = match rng.below(4) { 0 => rng.range(0, 20), 1 => rng.range(130, 150), _ => rng.range(0, 420) } as usize;
        let mut m = rng.bytes(len);
        let v6 = i % 2 == 1;
        if len > 6 && rng.chance(1, 2) {
            m[if v6 { 4 } else { 5 }] = *rng.pick(&[0u8, 1, 16, 17, 31, 32, 33, 34, 63, 64, 65]);
        }
        for at in [136usize, 8 + usize::from(m.get(if v6 { 4 } else { 5 }).copied().unwrap_or(0)) * word(v6)] {
            if len > at + 8 && rng.chance(2, 3) {
                m[at] = 0x20;
                let l = *rng.pick(&[4u16, 8, 8, 12, 5, 3, 0, (len - at - 4) as u16]);
                m[at + 4] = (l >> 8) as u8;
                m[at + 5] = l as u8;
                m[at + 6] = rng.below(3) as u8;
            }
        }
        c14_case(if v6 { "6" } else { "4" }, kinds[(i / 2) % 2], if i % 9 == 0 { "D" } else { "E" }, &m, "?", "?", out);
        n_rand += 1;
    }

    // ---- D. the iterators and Extensions::try_from on their own ----
    for len in 0..=(if th { 200usize } else { 72 }) {
        for rep in 0..(if th { 12 } else { 4 }) {
            let mut b = match rep { 0 => vec![0u8; len], 1 => vec![0xFFu8; len], _ => rng.bytes(len) };
            iter_case("mpls", &b, out);
            if rep >= 2 {
                // S bits mostly clear so that the walk goes deep
                for i in (2..len).step_by(4) { if rng.chance(7, 8) { b[i] &= 0xFE; } }
                iter_case("mpls", &b, out);
            }
            if len >= 1 { b[0] = 0x20; }
            // chain of small objects
            let mut at = 4;
            while at + 4 <= len && rep >= 2 {
                let l = *rng.pick(&[4usize, 4, 8, 8, 12, 5, 6, 7, 0, 3, 2, 1, 65535, len - at, len - at + 1]);
                b[at] = (l >> 8) as u8;
                b[at + 1] = l as u8;
                b[at + 2] = rng.below(3) as u8;
                at += l.clamp(4, 16);
            }
            iter_case("objs", &b, out);
            exts_case(&b, out);
            n_iter += 4;
        }
    }

    // ---- E. builder tie (Coq build_message vs the Rust builder) ----
    for i in 0..(if th { 1500 } else { 300 }) {
        let v6 = i % 2 == 0;
        let compliant = i % 3 != 0;
        let olen = if compliant { rng.range(1, (255 * word(v6)) as u64) } else { rng.range(0, 300) } as usize;
        let orig = rng.bytes(olen);
        let no = rng.below(5) as usize;
        let objs = random_objs(&mut rng, no);
        let f = rng.bytes(7);
        let mut fixed = [0u8; 7];
        fixed.copy_from_slice(&f);
        build_case(v6, &fixed, &orig, &objs, compliant, out);
    }

    out.stat("built_messages", n_built);
    out.stat("built_with_quotation_over_255_octets", n_long);
    out.stat("built_parse_mode_disabled", n_disabled);
    out.stat("mpls_objects_in_builder_stream", n_mpls_objs);
    out.stat("length_attributes", "1..=255 all x {aligned, 1 short, word-1 short} x IPv4/IPv6");
    out.stat("truncations", n_trunc);
    out.stat("field_corruptions", n_flip);
    out.stat("random_messages", n_rand);
    out.stat("iterator_cases", n_iter);
}
