//! C16 (second part): the abstract configuration grid, enumerated completely through the real
//! `Builder::build()`; every accepted cell runs 3 rounds of the real strategy + state handler over the
//! simulated network under `catch_unwind`.  Oracle: accepted => no panic.
//! Grid: protocol x strategy x port direction x privilege x family x first_ttl x max_ttl x initial_sequence.
use crate::rng::Rng;
use crate::simnet::{Hop, Knobs, SimEnv};
use crate::strat::{Cfg, Env, ErrK, Log, ScriptNet};
use crate::vclock;
use crate::{Args, Out};
use std::cell::{Cell, RefCell};
use std::net::{IpAddr, Ipv4Addr, Ipv6Addr};
use std::rc::Rc;
use std::time::Duration;
use trippy_core::{Builder, Error, MultipathStrategy, PortDirection, PrivilegeMode, Protocol};

const FIRST_TTLS: [u8; 5] = [0, 1, 2, 254, 255];
const MAX_TTLS: [u8; 6] = [0, 1, 2, 64, 254, 255];
const SEQUENCES: [u16; 5] = [0, 33434, 64511, 64512, 65535];

fn target(v6: bool) -> IpAddr {
    if v6 { IpAddr::V6(Ipv6Addr::new(0x2001, 0xdb8, 0, 0, 0, 0, 0, 1)) } else { IpAddr::V4(Ipv4Addr::new(10, 0, 0, 1)) }
}

pub fn grid() -> Vec<(Cfg, bool)> {
    let mut v = vec![];
    for proto in [Protocol::Icmp, Protocol::Udp, Protocol::Tcp] {
        for strategy in [MultipathStrategy::Classic, MultipathStrategy::Paris, MultipathStrategy::Dublin] {
            for portdir in [PortDirection::None, PortDirection::new_fixed_src(5000), PortDirection::new_fixed_dest(33000), PortDirection::new_fixed_both(5000, 33000)] {
                for unprivileged in [false, true] {
                    for v6 in [false, true] {
                        for first_ttl in FIRST_TTLS {
                            for max_ttl in MAX_TTLS {
                                for initial_sequence in SEQUENCES {
                                    v.push((Cfg {
                                        proto, strategy, portdir, target: target(v6), trace_id: 4242, max_rounds: 3,
                                        first_ttl, max_ttl, grace_ns: 1_000_000, max_inflight: 24, initial_sequence,
                                        min_ns: 1_000_000, max_ns: 20_000_000, max_samples: 256, max_flows: 64,
                                    }, unprivileged));
                                }
                            }
                        }
                    }
                }
            }
        }
    }
    // durations without an upper bound: nothing in the builder (nor in the command-line layer) bounds the round durations or the grace
    // period from above; the value UNBOUNDED (4e18 ns, it still fits the 63-bit integers of the model driver) stands for Duration::MAX ("no time limit")
    for proto in [Protocol::Icmp, Protocol::Udp, Protocol::Tcp] {
        for v6 in [false, true] {
            for (min_ns, max_ns, grace_ns) in [(0u64, UNBOUNDED, 1_000_000u64), (1_000_000, UNBOUNDED, 0), (0, 20_000_000, UNBOUNDED), (UNBOUNDED, UNBOUNDED, 0), (UNBOUNDED, UNBOUNDED, UNBOUNDED)] {
                let portdir = match proto { Protocol::Icmp => PortDirection::None, Protocol::Udp => PortDirection::new_fixed_src(5000), Protocol::Tcp => PortDirection::new_fixed_dest(80) };
                v.push((Cfg {
                    proto, strategy: MultipathStrategy::Classic, portdir, target: target(v6), trace_id: 4242, max_rounds: 3,
                    first_ttl: 1, max_ttl: 30, grace_ns, max_inflight: 24, initial_sequence: 33434, min_ns, max_ns, max_samples: 256, max_flows: 64,
                }, false));
            }
        }
    }
    v
}

const UNBOUNDED: u64 = 4_000_000_000_000_000_000;
fn dur(ns: u64) -> Duration {
    if ns >= UNBOUNDED { Duration::MAX } else { Duration::from_nanos(ns) }
}

/// `Cfg::build` + the privilege mode
pub(crate) fn build(cfg: &Cfg, unprivileged: bool) -> Result<trippy_core::Tracer, Error> {
    Builder::new(cfg.target)
        .privilege_mode(if unprivileged { PrivilegeMode::Unprivileged } else { PrivilegeMode::Privileged })
        .protocol(cfg.proto)
        .multipath_strategy(cfg.strategy)
        .port_direction(cfg.portdir)
        .trace_identifier(cfg.trace_id)
        .first_ttl(cfg.first_ttl)
        .max_ttl(cfg.max_ttl)
        .grace_duration(dur(cfg.grace_ns))
        .max_inflight(cfg.max_inflight)
        .initial_sequence(cfg.initial_sequence)
        .min_round_duration(dur(cfg.min_ns))
        .max_round_duration(dur(cfg.max_ns))
        .max_samples(cfg.max_samples)
        .max_flows(cfg.max_flows)
        .max_rounds(Some(cfg.max_rounds))
        .build()
}

fn sim_env(cfg: &Cfg, seed: u64) -> SimEnv {
    let v6 = cfg.target.is_ipv6();
    let hop = |i: u8| Hop {
        addr: if v6 { IpAddr::V6(Ipv6Addr::new(0x2001, 0xdb8, 0, 0, 0, 0, 1, u16::from(i))) } else { IpAddr::V4(Ipv4Addr::new(10, 1, 0, i)) },
        silent: i == 3, delay_ns: 1_000_000 + u64::from(i) * 1000, dup: i == 2, every: 1, seen: 0,
    };
    SimEnv {
        cfg: cfg.clone(), rng: Rng::new(seed), path: (1..=6).map(hop).collect(), alt_path: vec![], target_dist: 6,
        target_answers: true, pending: vec![], read_timeout_ns: 1_000_000, send_cost_ns: 1000, iter_budget: 4000, iters: 0,
        knobs: Knobs::default(), deliveries: Rc::new(RefCell::new(vec![])), round: 0,
        sent_seqs: std::collections::HashMap::new(), use_alt: false, burst_left: 0,
    }
}

/// -> "reject:<kind>" | "accept run=<ok|err:k|fault:panic> rounds=<n>"
fn run_cell(cfg: &Cfg, unprivileged: bool) -> String {
    let tracer = match build(cfg, unprivileged) {
        Ok(t) => t,
        Err(e) => return format!("reject:{}", ErrK::of(&e).tok()),
    };
    let t0 = vclock::BASE_NS;
    vclock::set(t0);
    vclock::TICK_NS.store(0, std::sync::atomic::Ordering::SeqCst);
    let _ = vclock::take_readings();
    let env: Rc<RefCell<Box<dyn Env>>> = Rc::new(RefCell::new(Box::new(sim_env(cfg, 16))));
    let net = ScriptNet { env, log: Rc::new(RefCell::new(Log::default())) };
    let rounds = Cell::new(0usize);
    let res = std::panic::catch_unwind(std::panic::AssertUnwindSafe(|| {
        tracer.verif_run_with_network(net, |_round| rounds.set(rounds.get() + 1))
    }));
    let _ = vclock::take_readings();
    let run = match &res {
        Ok(Ok(())) => "ok".to_string(),
        Ok(Err(e)) => format!("err:{}", ErrK::of(e).tok()),
        Err(_) => "fault:panic".to_string(),
    };
    // the snapshot must be readable afterwards as well
    let snap = std::panic::catch_unwind(std::panic::AssertUnwindSafe(|| tracer.snapshot().hops().len()));
    format!("accept run={run} rounds={}{}", rounds.get(), if snap.is_err() { " snapshot=fault:panic" } else { "" })
}

fn emit(cfg: &Cfg, unprivileged: bool, out: &mut Out, stats: &mut std::collections::BTreeMap<String, u64>) {
    let input = format!("c16grid {} {}", cfg.render(), if unprivileged { "U" } else { "P" });
    let o = run_cell(cfg, unprivileged);
    let orc = if o.contains("fault:panic") {
        "FAIL:C16:a_configuration_accepted_by_Builder::build_panicked_once_tracing_started".to_string()
    } else if o.starts_with("accept") && !o.contains("run=ok rounds=3") && !((cfg.min_ns >= UNBOUNDED || cfg.grace_ns >= UNBOUNDED) && cfg.max_ns >= UNBOUNDED) {
        format!("FAIL:C16:accepted_cell_did_not_complete_3_rounds:{}", o.replace(' ', "_"))
    } else {
        "ok".to_string()
    };
    *stats.entry(o.split(' ').next().unwrap().to_string()).or_insert(0) += 1;
    if o.contains("fault") { *stats.entry("accepted_and_panicked".to_string()).or_insert(0) += 1; }
    out.case(&input, &o, &orc);
}

pub fn run(args: &Args, out: &mut Out) {
    vclock::enable(vclock::BASE_NS);
    let mut stats = std::collections::BTreeMap::new();
    if let Some(path) = &args.replay {
        for l in crate::replay_inputs(path) {
            let t: Vec<&str> = l.split(' ').collect();
            if t[0] != "c16grid" || t.len() < 2 { continue; }
            let mut cfg = Cfg::parse(t[1]);
            cfg.max_rounds = cfg.max_rounds.max(1);
            emit(&cfg, t.get(2) == Some(&"U"), out, &mut stats);
        }
        return;
    }
    // the grid is enumerated completely in both tiers
    let g = grid();
    for (cfg, unprivileged) in &g { emit(cfg, *unprivileged, out, &mut stats); }
    out.stat("cells", g.len());
    for (k, v) in &stats { out.stat(k, v); }
}
