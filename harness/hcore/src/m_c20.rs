//! C20: controlled-schedule runs of the real Tracer (handler / snapshot / clear) using the yield hook.
//! At chosen yield points inside `State::update_from_round` (i.e. while the real handler holds the write
//! lock mid-update) a reader thread and a clearer thread are released and given a time window; the model
//! predicts "blocked until the round is complete" and that every snapshot is a whole-rounds state.
use crate::m_state::{apply, gen_rounds_pub, render_rounds, render_state, parse_rounds, RoundIn};
use crate::rng::Rng;
use crate::{Args, Out};
use std::sync::atomic::{AtomicBool, AtomicUsize, Ordering};
use std::sync::mpsc::{channel, Sender};
use std::sync::{Arc, Mutex};
use std::time::Duration;
use trippy_core::{Builder, CompletionReason, Round, State, TimeToLive, Tracer};

static CUR_ROUND: AtomicUsize = AtomicUsize::new(0);
static YIELD_IDX: AtomicUsize = AtomicUsize::new(0);
static COUNTING: AtomicBool = AtomicBool::new(false);
static ORDER: AtomicUsize = AtomicUsize::new(0);
static NOT_REACHED: AtomicUsize = AtomicUsize::new(0);

struct Target {
    round: usize,
    yidx: usize,
    go_reader: Sender<()>,
    go_clearer: Option<Sender<()>>,
    reader_done: Arc<AtomicBool>,
    clearer_done: Arc<AtomicBool>,
    /// observed while the handler sat at the yield point: (reader finished?, clearer finished?)
    seen: Arc<Mutex<Option<(bool, bool)>>>,
}
static TARGETS: Mutex<Vec<Target>> = Mutex::new(Vec::new());
static WINDOW_MS: AtomicUsize = AtomicUsize::new(25);

thread_local! { static PARKING_READER: std::cell::Cell<bool> = const { std::cell::Cell::new(false) }; }
static PARK_INSIDE: AtomicBool = AtomicBool::new(false);
static PARK_GO: AtomicBool = AtomicBool::new(false);

fn hook(point: usize) {
    if point == 10 {
        // inside Tracer::snapshot, read lock held: only the designated reader parks here
        if PARKING_READER.with(std::cell::Cell::get) {
            PARK_INSIDE.store(true, Ordering::SeqCst);
            let deadline = std::time::Instant::now() + Duration::from_secs(5);
            while !PARK_GO.load(Ordering::SeqCst) && std::time::Instant::now() < deadline { std::thread::sleep(Duration::from_millis(1)); }
        }
        return;
    }
    let y = YIELD_IDX.fetch_add(1, Ordering::SeqCst);
    if COUNTING.load(Ordering::SeqCst) {
        return;
    }
    let r = CUR_ROUND.load(Ordering::SeqCst);
    let mut hit = vec![];
    if let Ok(ts) = TARGETS.lock() {
        for (i, t) in ts.iter().enumerate() {
            if t.round == r && t.yidx == y {
                let _ = t.go_reader.send(());
                if let Some(c) = &t.go_clearer { let _ = c.send(()); }
                hit.push(i);
            }
        }
    }
    if !hit.is_empty() {
        std::thread::sleep(Duration::from_millis(WINDOW_MS.load(Ordering::SeqCst) as u64));
        if let Ok(ts) = TARGETS.lock() {
            for i in hit {
                let t = &ts[i];
                *t.seen.lock().unwrap() = Some((t.reader_done.load(Ordering::SeqCst), t.clearer_done.load(Ordering::SeqCst)));
            }
        }
    }
}

thread_local! { static WRITER_THREAD: std::cell::Cell<bool> = const { std::cell::Cell::new(false) }; }

/// Further scheduling points without any source change: every `#[instrument]`ed function the thread that publishes rounds
/// enters (State::update_from_round, FlowRegistry::register, Flow::check, ...) creates a `tracing` span; this subscriber
/// turns the creation of a span on that thread into a call of the yield hook.
struct SpanYield;
impl tracing::Subscriber for SpanYield {
    // the verdict depends on the calling thread, so it must not be cached per call site (the default caches the first answer)
    fn register_callsite(&self, _: &'static tracing::Metadata<'static>) -> tracing::subscriber::Interest { tracing::subscriber::Interest::sometimes() }
    fn enabled(&self, _: &tracing::Metadata<'_>) -> bool { WRITER_THREAD.with(std::cell::Cell::get) }
    fn new_span(&self, _: &tracing::span::Attributes<'_>) -> tracing::span::Id {
        if WRITER_THREAD.with(std::cell::Cell::get) { hook(100); }
        tracing::span::Id::from_u64(1)
    }
    fn record(&self, _: &tracing::span::Id, _: &tracing::span::Record<'_>) {}
    fn record_follows_from(&self, _: &tracing::span::Id, _: &tracing::span::Id) {}
    fn event(&self, _: &tracing::Event<'_>) {}
    fn enter(&self, _: &tracing::span::Id) {}
    fn exit(&self, _: &tracing::span::Id) {}
}

fn to_round<'a>(r: &'a RoundIn) -> Round<'a> {
    Round::new(&r.probes, TimeToLive(r.largest_ttl), if r.tf { CompletionReason::TargetFound } else { CompletionReason::RoundTimeLimitExceeded })
}

fn render_snapshot(st: &State) -> String {
    let mut ids: Vec<u64> = vec![0];
    ids.extend(st.flows().iter().map(|(_, id)| id.0));
    // the limits belong to the state: the empty state `clear()` installs must be the tracer's own empty state
    format!("{} lim={}/{}", render_state(st, &ids), st.max_samples(), st.max_flows())
}

/// number of yield calls per round (dry run, sequential)
fn yield_counts(rounds: &[RoundIn], ms: usize, mf: usize) -> Vec<usize> {
    COUNTING.store(true, Ordering::SeqCst);
    let tracer = Builder::new("10.0.0.1".parse().unwrap()).max_samples(ms).max_flows(mf).build().unwrap();
    let mut v = vec![];
    for r in rounds {
        YIELD_IDX.store(0, Ordering::SeqCst);
        tracer.verif_apply_round(&to_round(r));
        v.push(YIELD_IDX.load(Ordering::SeqCst));
    }
    COUNTING.store(false, Ordering::SeqCst);
    v
}

/// reference: rendering of the state after applying rounds b..r to an empty state
fn reference(rounds: &[RoundIn], ms: usize, mf: usize) -> Vec<Vec<String>> {
    COUNTING.store(true, Ordering::SeqCst);
    let n = rounds.len();
    let mut t = vec![vec![String::new(); n + 1]; n + 1];
    for b in 0..=n {
        for r in b..=n {
            t[b][r] = match apply(ms, mf, &rounds[b..r]) { (_, Some(st)) => render_snapshot(&st), (f, None) => f };
        }
    }
    COUNTING.store(false, Ordering::SeqCst);
    t
}

/// one controlled run; `pre` = list of (round, yield index, with_clearer)
fn controlled(ms: usize, mf: usize, rounds: &[RoundIn], pre: &[(usize, usize, bool)], out: &mut Out) {
    let pre_s = pre.iter().map(|(r, y, c)| format!("{r}.{y}.{}", u8::from(*c))).collect::<Vec<_>>().join(",");
    let counts = yield_counts(rounds, ms, mf);
    let refs = reference(rounds, ms, mf);
    let tracer: Tracer = Builder::new("10.0.0.1".parse().unwrap()).max_samples(ms).max_flows(mf).build().unwrap();
    ORDER.store(0, Ordering::SeqCst);
    type Rec = Arc<Mutex<Vec<(usize, String, usize)>>>; // (order, what, writer round index at completion)
    let rec: Rec = Arc::new(Mutex::new(vec![]));
    let mut handles = vec![];
    let mut seen_all = vec![];
    {
        let mut ts = TARGETS.lock().unwrap();
        ts.clear();
        for (i, (r, y, with_c)) in pre.iter().enumerate() {
            let (tx_r, rx_r) = channel::<()>();
            let reader_done = Arc::new(AtomicBool::new(false));
            let clearer_done = Arc::new(AtomicBool::new(false));
            let seen = Arc::new(Mutex::new(None));
            seen_all.push(seen.clone());
            let (t1, rec1, d1) = (tracer.clone(), rec.clone(), reader_done.clone());
            handles.push(std::thread::spawn(move || {
                if rx_r.recv_timeout(Duration::from_secs(5)).is_ok() {
                    let st = t1.snapshot();
                    let o = ORDER.fetch_add(1, Ordering::SeqCst);
                    rec1.lock().unwrap().push((o, format!("R{i}:{}", render_snapshot(&st)), CUR_ROUND.load(Ordering::SeqCst)));
                    d1.store(true, Ordering::SeqCst);
                }
            }));
            let go_clearer = if *with_c {
                let (tx_c, rx_c) = channel::<()>();
                let (t2, rec2, d2) = (tracer.clone(), rec.clone(), clearer_done.clone());
                handles.push(std::thread::spawn(move || {
                    if rx_c.recv_timeout(Duration::from_secs(5)).is_ok() {
                        t2.clear();
                        let o = ORDER.fetch_add(1, Ordering::SeqCst);
                        rec2.lock().unwrap().push((o, format!("C{i}"), CUR_ROUND.load(Ordering::SeqCst)));
                        d2.store(true, Ordering::SeqCst);
                    }
                }));
                Some(tx_c)
            } else { None };
            ts.push(Target { round: *r, yidx: *y, go_reader: tx_r, go_clearer, reader_done, clearer_done, seen });
        }
    }
    // the writer: apply every round through the real handler; after each round wait for released threads
    for (ri, r) in rounds.iter().enumerate() {
        CUR_ROUND.store(ri, Ordering::SeqCst);
        YIELD_IDX.store(0, Ordering::SeqCst);
        tracer.verif_apply_round(&to_round(r));
        CUR_ROUND.store(ri + 1, Ordering::SeqCst);
        // wait until every thread released during this round has finished
        let deadline = std::time::Instant::now() + Duration::from_secs(3);
        loop {
            let pending = TARGETS.lock().unwrap().iter().any(|t| t.round == ri && t.seen.lock().unwrap().is_some()
                && (!t.reader_done.load(Ordering::SeqCst) || (t.go_clearer.is_some() && !t.clearer_done.load(Ordering::SeqCst))));
            if !pending || std::time::Instant::now() > deadline { break; }
            std::thread::sleep(Duration::from_millis(1));
        }
    }
    // targets never reached (yield index beyond the round): release so the threads end
    {
        let ts = TARGETS.lock().unwrap();
        for t in ts.iter() {
            if t.seen.lock().unwrap().is_none() {
                let _ = t.go_reader.send(());
                if let Some(c) = &t.go_clearer { let _ = c.send(()); }
            }
        }
    }
    for h in handles { let _ = h.join(); }
    TARGETS.lock().unwrap().clear();
    let final_state = render_snapshot(&tracer.snapshot());
    let mut recs = rec.lock().unwrap().clone();
    recs.sort_by_key(|x| x.0);
    // render: blocked flags, completion order, and for every snapshot the set of whole-rounds states it equals
    let mut fails = vec![];
    let n = rounds.len();
    let classify = |s: &str| -> Vec<String> {
        let mut v = vec![];
        for b in 0..=n { for r in b..=n { if refs[b][r] == s { v.push(format!("{b}-{r}")); } } }
        v
    };
    let blocked = seen_all.iter().map(|s| match *s.lock().unwrap() { Some((rd, cd)) => format!("{}{}", u8::from(!rd), u8::from(!cd)), None => "--".to_string() }).collect::<Vec<_>>().join(",");
    // every snapshot, in reader (target) index order, as the set of whole-rounds states it equals
    let mut obs: Vec<String> = vec![String::from("-"); pre.len()];
    for (_, what, _at) in &recs {
        if let Some(rest) = what.strip_prefix('R') {
            let (id, snap) = rest.split_once(':').unwrap();
            let cls = classify(snap);
            if cls.is_empty() { fails.push(format!("C20:snapshot_of_reader_{id}_is_not_a_whole-rounds_state")); }
            let i: usize = id.parse().unwrap();
            obs[i] = if cls.is_empty() { "torn".to_string() } else { cls.join("|") };
        }
    }
    // (whether the released reader / clearer stayed blocked at the scheduling point is part of the output compared with the
    //  model; by itself it is not a violation: what the property excludes is a snapshot or final state that is not a
    //  whole-rounds state, judged above and below)
    let fin = classify(&final_state);
    if fin.is_empty() { fails.push("C20:final_state_is_not_a_whole-rounds_state".to_string()); }
    // a clear at rest: what it installs is the tracer's empty state (same sample / flow limits), and rounds applied
    // afterwards respect the configured number of flows
    tracer.clear();
    let cleared = tracer.snapshot();
    if render_snapshot(&cleared) != refs[0][0] {
        fails.push(format!("C20:state_installed_by_clear_is_not_the_empty_state_of_this_tracer(limits_{}_{}_configured_{ms}_{mf})", cleared.max_samples(), cleared.max_flows()));
    }
    for r in rounds { tracer.verif_apply_round(&to_round(r)); }
    let after = tracer.snapshot();
    if after.flows().len() > mf {
        fails.push(format!("C15:{}_flows_after_clear_with_max_flows_{mf}", after.flows().len()));
    }
    if render_snapshot(&after) != refs[0][n] {
        fails.push("C20:rounds_applied_after_clear_do_not_give_the_whole-rounds_state".to_string());
        // C05: the statistics after a clear are those of the rounds applied since, under the configured sample limit
        fails.push("C05:hop_statistics_after_clear_differ_from_the_recomputation_over_the_rounds_since".to_string());
    }
    if after.hops().iter().any(|h| h.samples().len() > ms) {
        fails.push(format!("C05:sample_history_exceeds_the_configured_limit_{ms}_after_clear"));
    }
    // C15 after a clear: more distinct one-hop paths than max_flows must not create more than max_flows flows
    tracer.clear();
    let many = (0..mf + 3).map(|i| format!(
        "1/tf/C:{}.7.5000.{}.1.{}.1000000000000:0a63{:02x}{:02x}:1000000500000:te0:-:-:-:-", 40000 + i, 40000 + i, i, i / 256, i % 256)).collect::<Vec<_>>().join(";");
    for r in &crate::m_state::parse_rounds(&many) { tracer.verif_apply_round(&to_round(r)); }
    let crowded = tracer.snapshot();
    if crowded.flows().len() > mf {
        fails.push(format!("C15:{}_flows_after_clear_with_max_flows_{mf}", crowded.flows().len()));
    }
    // the number of scheduling points of a round depends on the state it is applied to (one span per registered flow that is
    // compared): after a clear released earlier in the same run a later placement may not exist any more.  Such a run exercised
    // a different schedule than the line says; it is not emitted.
    if seen_all.iter().any(|s| s.lock().unwrap().is_none()) && !fails.iter().any(|f| f.starts_with("C20:")) {
        NOT_REACHED.fetch_add(1, Ordering::SeqCst);
        return;
    }
    let output = format!("blocked={} obs={} final={}", if blocked.is_empty() { "-".to_string() } else { blocked },
        if obs.is_empty() { "-".to_string() } else { obs.join(";") }, if fin.is_empty() { "torn".to_string() } else { fin.join("|") });
    let input = format!("c20 {ms} {mf} {} {} {}", counts.iter().map(usize::to_string).collect::<Vec<_>>().join(","), if pre_s.is_empty() { "-".to_string() } else { pre_s }, render_rounds(rounds));
    out.case(&input, &output, &crate::oracles::verdict(&fails));
}


/// a reader parked INSIDE snapshot() (read lock held, before the clone) while the tracer publishes the remaining rounds:
/// no round may be lost, the reader's value and the final state are whole-rounds states
fn parked_reader(ms: usize, mf: usize, rounds: &[RoundIn], k: usize, out: &mut Out) {
    let n = rounds.len();
    let refs = reference(rounds, ms, mf);
    COUNTING.store(true, Ordering::SeqCst); // the controlled pre-emption of points 0..3 is off in this scenario
    let tracer: Tracer = Builder::new("10.0.0.1".parse().unwrap()).max_samples(ms).max_flows(mf).build().unwrap();
    for r in &rounds[..k] { tracer.verif_apply_round(&to_round(r)); }
    PARK_INSIDE.store(false, Ordering::SeqCst);
    PARK_GO.store(false, Ordering::SeqCst);
    let t1 = tracer.clone();
    let reader = std::thread::spawn(move || {
        PARKING_READER.with(|p| p.set(true));
        let st = t1.snapshot();
        PARKING_READER.with(|p| p.set(false));
        render_snapshot(&st)
    });
    let deadline = std::time::Instant::now() + Duration::from_secs(3);
    while !PARK_INSIDE.load(Ordering::SeqCst) && std::time::Instant::now() < deadline { std::thread::sleep(Duration::from_millis(1)); }
    let done = Arc::new(AtomicBool::new(false));
    let (t2, d2) = (tracer.clone(), done.clone());
    let rest: Vec<RoundIn> = rounds[k..].to_vec();
    let writer = std::thread::spawn(move || { for r in &rest { t2.verif_apply_round(&to_round(r)); } d2.store(true, Ordering::SeqCst); });
    std::thread::sleep(Duration::from_millis(WINDOW_MS.load(Ordering::SeqCst) as u64 + 15));
    let blocked = !done.load(Ordering::SeqCst);
    PARK_GO.store(true, Ordering::SeqCst);
    let seen = reader.join().unwrap_or_else(|_| "panic".to_string());
    let _ = writer.join();
    COUNTING.store(false, Ordering::SeqCst);
    let fin = render_snapshot(&tracer.snapshot());
    let classify = |s: &str| -> Vec<String> {
        let mut v = vec![];
        for b in 0..=n { for r in b..=n { if refs[b][r] == s { v.push(format!("{b}-{r}")); } } }
        v
    };
    let mut fails = vec![];
    let rc = classify(&seen);
    if rc.is_empty() { fails.push("C20:snapshot_taken_across_round_publications_is_not_a_whole-rounds_state".to_string()); }
    if fin != refs[0][n] { fails.push(format!("C20:after_all_{n}_rounds_the_state_is_not_rounds_0..{n}_applied_to_an_empty_state(a_round_was_lost_or_reordered)")); }
    let input = format!("c20park {ms} {mf} {k} {n} {}", render_rounds(rounds));
    let output = format!("blocked={} reader={} final={}", u8::from(blocked), if rc.is_empty() { "torn".to_string() } else { rc.join("|") },
        if fin == refs[0][n] { format!("0-{n}") } else { "other".to_string() });
    out.case(&input, &output, &crate::oracles::verdict(&fails));
}

/// free-running stress: many readers and a clearer, no control; every snapshot must be a whole-rounds state
fn stress(ms: usize, mf: usize, rounds: &[RoundIn], readers: usize, out: &mut Out) {
    let refs = reference(rounds, ms, mf);
    let n = rounds.len();
    let tracer: Tracer = Builder::new("10.0.0.1".parse().unwrap()).max_samples(ms).max_flows(mf).build().unwrap();
    let stop = Arc::new(AtomicBool::new(false));
    let bad = Arc::new(AtomicUsize::new(0));
    let total = Arc::new(AtomicUsize::new(0));
    let all: Arc<Vec<String>> = Arc::new(refs.iter().enumerate().flat_map(|(b, row)| row[b..].to_vec()).collect());
    let mut hs = vec![];
    for _ in 0..readers {
        let (t, stop, bad, total, all) = (tracer.clone(), stop.clone(), bad.clone(), total.clone(), all.clone());
        hs.push(std::thread::spawn(move || {
            while !stop.load(Ordering::SeqCst) {
                let s = render_snapshot(&t.snapshot());
                total.fetch_add(1, Ordering::SeqCst);
                if !all.contains(&s) { bad.fetch_add(1, Ordering::SeqCst); }
            }
        }));
    }
    let (t, stop2) = (tracer.clone(), stop.clone());
    hs.push(std::thread::spawn(move || { while !stop2.load(Ordering::SeqCst) { std::thread::sleep(Duration::from_micros(300)); t.clear(); } }));
    for _rep in 0..20 {
        for r in rounds { tracer.verif_apply_round(&to_round(r)); }
        tracer.clear();
    }
    stop.store(true, Ordering::SeqCst);
    for h in hs { let _ = h.join(); }
    let _ = n;
    let fails = if bad.load(Ordering::SeqCst) > 0 { vec![format!("C20:{}_of_{}_free-running_snapshots_are_not_whole-rounds_states", bad.load(Ordering::SeqCst), total.load(Ordering::SeqCst))] } else { vec![] };
    out.case(&format!("c20stress {ms} {mf} {readers} {}", render_rounds(rounds)), &format!("bad={}", bad.load(Ordering::SeqCst)), &crate::oracles::verdict(&fails));
    out.stat("stress_snapshots", total.load(Ordering::SeqCst));
}

pub fn run(args: &Args, out: &mut Out) {
    trippy_core::verif::set_yield_hook(Some(hook));
    let _ = tracing::subscriber::set_global_default(SpanYield);
    WRITER_THREAD.with(|w| w.set(true));
    if let Some(path) = &args.replay {
        for l in crate::replay_inputs(path) {
            let t: Vec<&str> = l.split(' ').collect();
            if t[0] == "c20" {
                let pre: Vec<(usize, usize, bool)> = if t[4] == "-" { vec![] } else { t[4].split(',').map(|x| { let p: Vec<&str> = x.split('.').collect(); (p[0].parse().unwrap(), p[1].parse().unwrap(), p[2] == "1") }).collect() };
                controlled(t[1].parse().unwrap(), t[2].parse().unwrap(), &parse_rounds(t[5]), &pre, out);
            } else if t[0] == "c20park" {
                parked_reader(t[1].parse().unwrap(), t[2].parse().unwrap(), &parse_rounds(t[5]), t[3].parse().unwrap(), out);
            } else if t[0] == "c20stress" {
                stress(t[1].parse().unwrap(), t[2].parse().unwrap(), &parse_rounds(t[4]), t[3].parse().unwrap(), out);
            }
        }
        trippy_core::verif::set_yield_hook(None);
        return;
    }
    let mut rng = Rng::new(args.seed ^ 0xC20);
    let histories = if args.tier_thorough { 6 } else { 2 };
    let mut placements = 0usize;
    for _ in 0..histories {
        let (_, _, mut rounds) = gen_rounds_pub(&mut rng);
        rounds.truncate(if args.tier_thorough { 4 } else { 3 });
        if rounds.is_empty() { continue; }
        let (ms, mf) = (10usize, 4usize);
        let counts = yield_counts(&rounds, ms, mf);
        // every single pre-emption placement (with a clearer)
        for (ri, c) in counts.iter().enumerate() {
            for y in 0..*c {
                if !args.tier_thorough && y % 2 == 1 && *c > 6 { continue; }
                controlled(ms, mf, &rounds, &[(ri, y, true)], out);
                placements += 1;
            }
        }
        // double pre-emptions: reader-only at one point, reader+clearer at another
        let all: Vec<(usize, usize)> = counts.iter().enumerate().flat_map(|(ri, c)| (0..*c).map(move |y| (ri, y))).collect();
        let ndouble = if args.tier_thorough { 40 } else { 6 };
        for _ in 0..ndouble {
            if all.len() < 2 { break; }
            let a = *rng.pick(&all);
            let b = *rng.pick(&all);
            if a == b { continue; }
            controlled(ms, mf, &rounds, &[(a.0, a.1, false), (b.0, b.1, true)], out);
            placements += 1;
        }
        // a reader parked inside snapshot() while two or more rounds are published
        if rounds.len() >= 2 {
            for k in 0..=rounds.len() - 2 { parked_reader(ms, mf, &rounds, k, out); }
        }
        if args.tier_thorough { stress(ms, mf, &rounds, 6, out); }
    }
    // the steady state of a multi-flow trace: two flows are known and the round being published exactly matches one of them
    // (no registration, only a lookup); a clear requested at every scheduling point of that round
    {
        let one = |i: usize, host: u8| format!("1/tf/C:{}.7.5000.{}.1.{i}.1000000000000:0a6300{host:02x}:1000000500000:te0:-:-:-:-", 40000 + i, 40000 + i);
        let rounds = parse_rounds(&[one(0, 1), one(1, 2), one(2, 2), one(3, 1)].join(";"));
        let (ms, mf) = (10usize, 4usize);
        let counts = yield_counts(&rounds, ms, mf);
        for ri in 2..rounds.len() {
            for y in 0..counts[ri] {
                controlled(ms, mf, &rounds, &[(ri, y, true)], out);
                placements += 1;
            }
        }
    }
    // a short stress run in the quick tier as well
    let (_, _, mut rounds) = gen_rounds_pub(&mut rng);
    rounds.truncate(4);
    if !rounds.is_empty() { stress(10, 4, &rounds, 3, out); }
    out.stat("controlled_placements", placements);
    out.stat("placements_not_reached_after_an_earlier_clear_(not_emitted)", NOT_REACHED.load(Ordering::SeqCst));
    trippy_core::verif::set_yield_hook(None);
}
