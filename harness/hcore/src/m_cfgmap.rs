//! C16 / C11: every setting given to `Builder` reaches the configuration the core executes with.
//! A tracer is built through the real `Builder::build` with random, pairwise distinct values; the channel, strategy and
//! state configurations are read back through the hooks (`verif_channel_config`, `verif_strategy_config`, `snapshot()` before
//! and after `clear()`) and through the public getters.  Oracle: each field equals the value given to the builder.
use crate::rng::Rng;
use crate::{Args, Out};
use std::net::{IpAddr, Ipv4Addr, Ipv6Addr};
use std::time::Duration;
use trippy_core::{
    Builder, IcmpExtensionParseMode, MultipathStrategy, PortDirection, PrivilegeMode, Protocol,
};

#[derive(Clone, Debug)]
struct Settings {
    target: IpAddr, source: IpAddr, unprivileged: bool, proto: Protocol, size: u16, pattern: u8, tos: u8, ext: bool,
    read_ms: u64, connect_ms: u64, trace_id: u16, max_rounds: Option<usize>, first_ttl: u8, max_ttl: u8, grace_ms: u64,
    inflight: u8, init_seq: u16, strategy: MultipathStrategy, portdir: PortDirection, min_ms: u64, max_ms: u64,
    samples: usize, flows: usize,
}

fn pd_str(p: PortDirection) -> String {
    match p {
        PortDirection::None => "N".to_string(),
        PortDirection::FixedSrc(s) => format!("S{}", s.0),
        PortDirection::FixedDest(d) => format!("D{}", d.0),
        PortDirection::FixedBoth(s, d) => format!("B{}:{}", s.0, d.0),
    }
}

impl Settings {
    /// the canonical text of what the three configurations must contain
    fn expected(&self) -> String {
        let priv_s = if self.unprivileged { "u" } else { "p" };
        let cc = format!("cc:{priv_s},{:?},{},{},{},{},{},{},{},{},{}", self.proto, self.source, self.target, self.size, self.pattern, self.init_seq, self.tos,
            u8::from(self.ext), self.read_ms, self.connect_ms);
        let sc = format!("sc:{},{:?},{},{},{},{},{},{},{},{:?},{},{},{}", self.target, self.proto, self.trace_id,
            self.max_rounds.map_or("-".to_string(), |n| n.to_string()), self.first_ttl, self.max_ttl, self.grace_ms, self.inflight, self.init_seq,
            self.strategy, pd_str(self.portdir), self.min_ms, self.max_ms);
        let st = format!("st:{},{}", self.samples, self.flows);
        format!("{cc};{sc};{st};after_clear:{st};getters:{},{},{},{},{}", self.samples, self.flows, self.tos, self.size, self.pattern)
    }
    fn build(&self) -> Result<trippy_core::Tracer, trippy_core::Error> {
        Builder::new(self.target)
            .source_addr(Some(self.source))
            .privilege_mode(if self.unprivileged { PrivilegeMode::Unprivileged } else { PrivilegeMode::Privileged })
            .protocol(self.proto)
            .packet_size(self.size)
            .payload_pattern(self.pattern)
            .tos(self.tos)
            .icmp_extension_parse_mode(if self.ext { IcmpExtensionParseMode::Enabled } else { IcmpExtensionParseMode::Disabled })
            .read_timeout(Duration::from_millis(self.read_ms))
            .tcp_connect_timeout(Duration::from_millis(self.connect_ms))
            .trace_identifier(self.trace_id)
            .max_rounds(self.max_rounds)
            .first_ttl(self.first_ttl)
            .max_ttl(self.max_ttl)
            .grace_duration(Duration::from_millis(self.grace_ms))
            .max_inflight(self.inflight)
            .initial_sequence(self.init_seq)
            .multipath_strategy(self.strategy)
            .port_direction(self.portdir)
            .min_round_duration(Duration::from_millis(self.min_ms))
            .max_round_duration(Duration::from_millis(self.max_ms))
            .max_samples(self.samples)
            .max_flows(self.flows)
            .build()
    }
}

fn actual(s: &Settings, t: &trippy_core::Tracer) -> String {
    let c = t.verif_channel_config(s.source);
    let priv_s = if c.privilege_mode == PrivilegeMode::Unprivileged { "u" } else { "p" };
    let cc = format!("cc:{priv_s},{:?},{},{},{},{},{},{},{},{},{}", c.protocol, c.source_addr, c.target_addr, c.packet_size.0, c.payload_pattern.0, c.initial_sequence.0,
        c.tos.0, u8::from(c.icmp_extension_parse_mode == IcmpExtensionParseMode::Enabled), c.read_timeout.as_millis(), c.tcp_connect_timeout.as_millis());
    let k = t.verif_strategy_config();
    let sc = format!("sc:{},{:?},{},{},{},{},{},{},{},{:?},{},{},{}", k.target_addr, k.protocol, k.trace_identifier.0,
        k.max_rounds.map_or("-".to_string(), |n| n.0.get().to_string()), k.first_ttl.0, k.max_ttl.0, k.grace_duration.as_millis(), k.max_inflight.0, k.initial_sequence.0,
        k.multipath_strategy, pd_str(k.port_direction), k.min_round_duration.as_millis(), k.max_round_duration.as_millis());
    let st0 = t.snapshot();
    let st = format!("st:{},{}", st0.max_samples(), st0.max_flows());
    t.clear();
    let st1 = t.snapshot();
    format!("{cc};{sc};{st};after_clear:st:{},{};getters:{},{},{},{},{}", st1.max_samples(), st1.max_flows(), t.max_samples(), t.max_flows(), t.tos().0, t.packet_size().0, t.payload_pattern().0)
}

fn case(s: &Settings, out: &mut Out) {
    let want = s.expected();
    let input = format!("cfgmap {}", want.replace(' ', "_"));
    match std::panic::catch_unwind(|| s.build().map(|t| actual(s, &t))) {
        Err(_) => out.case(&input, "fault:panic", "FAIL:C16:panic_building_the_tracer"),
        Ok(Err(_)) => out.case(&input, "rejected", "ok"),
        Ok(Ok(got)) => {
            let got = got.replace(' ', "_");
            let want = want.replace(' ', "_");
            let mut fails = vec![];
            if got != want {
                let (g, w): (Vec<&str>, Vec<&str>) = (got.split(';').collect(), want.split(';').collect());
                for (a, b) in g.iter().zip(w.iter()) {
                    if a != b {
                        let part = a.split(':').next().unwrap_or("?");
                        fails.push(format!("C16:{part}_differs_from_the_builder_settings:{a}_expected_{b}"));
                        if part == "cc" { fails.push(format!("C11:channel_configuration_not_as_configured:{a}_expected_{b}")); }
                        if part == "st" || part == "after_clear" { fails.push(format!("C15:state_limits_not_as_configured:{a}_expected_{b}")); }
                    }
                }
            }
            out.case(&input, &got, &if fails.is_empty() { "ok".to_string() } else { format!("FAIL:{}", fails.join(";")) });
        }
    }
}

/// the inverse of `Settings::expected`
fn parse(want: &str) -> Option<Settings> {
    let parts: Vec<&str> = want.split(';').collect();
    let cc: Vec<&str> = parts.first()?.strip_prefix("cc:")?.split(',').collect();
    let sc: Vec<&str> = parts.get(1)?.strip_prefix("sc:")?.split(',').collect();
    let st: Vec<&str> = parts.get(2)?.strip_prefix("st:")?.split(',').collect();
    let proto = match cc[1] { "Icmp" => Protocol::Icmp, "Udp" => Protocol::Udp, _ => Protocol::Tcp };
    let strategy = match sc[9] { "Classic" => MultipathStrategy::Classic, "Paris" => MultipathStrategy::Paris, _ => MultipathStrategy::Dublin };
    let pd = sc[10];
    let portdir = match pd.as_bytes()[0] {
        b'N' => PortDirection::None,
        b'S' => PortDirection::new_fixed_src(pd[1..].parse().ok()?),
        b'D' => PortDirection::new_fixed_dest(pd[1..].parse().ok()?),
        _ => { let (a, b) = pd[1..].split_once(':')?; PortDirection::new_fixed_both(a.parse().ok()?, b.parse().ok()?) }
    };
    Some(Settings {
        target: cc[3].parse().ok()?, source: cc[2].parse().ok()?, unprivileged: cc[0] == "u", proto,
        size: cc[4].parse().ok()?, pattern: cc[5].parse().ok()?, tos: cc[7].parse().ok()?, ext: cc[8] == "1",
        read_ms: cc[9].parse().ok()?, connect_ms: cc[10].parse().ok()?, trace_id: sc[2].parse().ok()?,
        max_rounds: if sc[3] == "-" { None } else { Some(sc[3].parse().ok()?) }, first_ttl: sc[4].parse().ok()?, max_ttl: sc[5].parse().ok()?,
        grace_ms: sc[6].parse().ok()?, inflight: sc[7].parse().ok()?, init_seq: sc[8].parse().ok()?, strategy, portdir,
        min_ms: sc[11].parse().ok()?, max_ms: sc[12].parse().ok()?, samples: st[0].parse().ok()?, flows: st[1].parse().ok()?,
    })
}

pub fn run(args: &Args, out: &mut Out) {
    if let Some(path) = &args.replay {
        for l in crate::replay_inputs(path) {
            let t: Vec<&str> = l.split(' ').collect();
            if t[0] != "cfgmap" { continue; }
            if let Some(s) = parse(t[1]) { case(&s, out); }
        }
        return;
    }
    let mut rng = Rng::new(args.seed);
    let n = if args.tier_thorough { 5000 } else { 400 };
    for _ in 0..n {
        let v6 = rng.chance(1, 2);
        let proto = *rng.pick(&[Protocol::Icmp, Protocol::Udp, Protocol::Tcp]);
        let strategy = if proto == Protocol::Udp { *rng.pick(&[MultipathStrategy::Classic, MultipathStrategy::Paris, MultipathStrategy::Dublin]) } else { MultipathStrategy::Classic };
        let unprivileged = proto != Protocol::Tcp && strategy == MultipathStrategy::Classic && rng.chance(1, 3);
        let portdir = match proto {
            Protocol::Icmp => PortDirection::None,
            Protocol::Tcp => if rng.chance(1, 2) { PortDirection::new_fixed_src(1024 + rng.below(60000) as u16) } else { PortDirection::new_fixed_dest(1 + rng.below(60000) as u16) },
            Protocol::Udp => match rng.below(3) {
                0 => PortDirection::new_fixed_src(1024 + rng.below(60000) as u16),
                1 => PortDirection::new_fixed_dest(1 + rng.below(60000) as u16),
                _ => if strategy == MultipathStrategy::Classic { PortDirection::new_fixed_src(5000) } else { PortDirection::new_fixed_both(1024 + rng.below(30000) as u16, 40000 + rng.below(20000) as u16) },
            },
        };
        // pairwise distinct durations and sizes so that a swap of two settings of the same type shows
        let base = 10 + rng.below(50);
        let addr = |rng: &mut Rng| -> IpAddr { if v6 { IpAddr::V6(Ipv6Addr::new(0x2001, 0xdb8, rng.next() as u16, 0, 0, 0, 0, 1 + rng.below(65000) as u16)) } else { IpAddr::V4(Ipv4Addr::new(10, rng.next() as u8, rng.next() as u8, 1 + rng.below(250) as u8)) } };
        let first_ttl = 1 + rng.below(20) as u8;
        let s = Settings {
            target: addr(&mut rng), source: addr(&mut rng), unprivileged, proto,
            size: (if v6 { 48 } else { 28 }) + rng.below(900) as u16, pattern: rng.next() as u8, tos: rng.next() as u8, ext: rng.chance(1, 2),
            read_ms: base, connect_ms: base + 1000, trace_id: rng.next() as u16,
            max_rounds: if rng.chance(1, 4) { None } else { Some(1 + rng.below(1000) as usize) },
            first_ttl, max_ttl: first_ttl + 1 + rng.below(200) as u8, grace_ms: base + 2000, inflight: 1 + rng.below(250) as u8,
            init_seq: 1 + rng.below(64000) as u16, strategy, portdir, min_ms: base + 3000, max_ms: base + 4000,
            samples: 1 + rng.below(500) as usize, flows: 600 + rng.below(500) as usize,
        };
        case(&s, out);
    }
    out.stat("builder_settings_round_trips", n);
}
