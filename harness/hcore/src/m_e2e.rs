//! End to end at the byte level: the real `Tracer` (from the real `Builder`) runs the real `Strategy` over the real
//! `Channel` on a simulated socket layer.  The network behind the socket is simulated here: a path of L-1 routers and the
//! target at distance L; every datagram the channel hands to `send_to` (or every `connect` of a TCP probe) is answered the way
//! a conforming router / target answers it (ICMP Time Exceeded quoting the datagram, echo reply, port unreachable, SYN-ACK /
//! RST), built by the independent encoder of mode `recv`.  No response is lost unless the scenario says so.
//!
//! Oracle (model free, from the ground truth of the simulation): the run completes exactly N rounds without panic or error
//! (C16 "accepted configurations can run", C09), and in the snapshot every probed hop t <= L shows N probes sent, N answered,
//! all from router t (the target at L) - a probe matched to the wrong response, lost in the glue or counted twice shows here
//! (C01, C02) - and the hop table is exactly first_ttl..min(L, max_ttl) (C10).
use crate::m_recv::{echo_reply, ip4_hdr, ip6_hdr, quote, tcp_syn, ExtForm, Peer};
use crate::rng::{hex, Rng};
use crate::sim::{self, Op, SimSocket, TcpOutcome};
use crate::strat::{addr_bytes, Cfg, ErrK};
use crate::{vclock, Args, Out};
use std::cell::Cell;
use std::net::{IpAddr, Ipv4Addr, Ipv6Addr, SocketAddr};
use trippy_core::verif::Channel;
use trippy_core::{MultipathStrategy, PortDirection, Protocol};

fn router(v6: bool, i: u8) -> IpAddr {
    if v6 { IpAddr::V6(Ipv6Addr::new(0x2001, 0xdb8, 0, 0, 0, 0, 1, u16::from(i))) } else { IpAddr::V4(Ipv4Addr::new(10, 1, 0, i)) }
}
fn source(v6: bool) -> IpAddr {
    if v6 { IpAddr::V6(Ipv6Addr::new(0x2001, 0xdb8, 0, 0, 0, 0, 0, 2)) } else { IpAddr::V4(Ipv4Addr::new(192, 0, 2, 2)) }
}
fn target(v6: bool) -> IpAddr {
    if v6 { IpAddr::V6(Ipv6Addr::new(0x2001, 0xdb8, 0, 0, 0, 0, 9, 9)) } else { IpAddr::V4(Ipv4Addr::new(203, 0, 113, 9)) }
}

/// the last ttl / hop limit set on socket `id`, and the port it is bound to
fn sock_facts(id: usize) -> (Option<u8>, Option<u16>) {
    sim::with(|w| {
        let ttl = w.ops.iter().rev().find_map(|o| match o {
            Op::SetTtl(i, v) if *i == id => Some(*v as u8),
            Op::SetUnicastHopsV6(i, v) if *i == id => Some(*v),
            _ => None,
        });
        let port = w.ops.iter().rev().find_map(|o| match o { Op::Bind(i, a) if *i == id => Some(a.port()), _ => None });
        (ttl, port)
    })
}

#[derive(Clone)]
struct Scn { cfg: Cfg, dist: u8, silent_hop: u8, all_silent: bool, rounds: usize }

impl Scn {
    fn line(&self) -> String {
        format!("e2e {} {} {} {} {}", self.cfg.render(), self.dist, self.silent_hop, u8::from(self.all_silent), self.rounds)
    }
}

/// what the network sends back for a datagram that left with `ttl`: (delay ns, bytes as the receive socket sees them, source)
fn answer(s: &Scn, v6: bool, ttl: u8, dgram: &[u8], icmp_ident: Option<(u16, u16, Vec<u8>)>) -> Vec<(u64, Vec<u8>, Option<SocketAddr>)> {
    if s.all_silent || ttl == 0 || ttl == s.silent_hop { return vec![]; }
    let me = addr_bytes(source(v6));
    let delay = 200_000 + u64::from(ttl.min(s.dist)) * 50_000;
    if ttl < s.dist {
        let r = router(v6, ttl);
        let p = Peer { router: addr_bytes(r), du_code: None, n: if v6 { dgram.len().min(1232) } else { 28.max((dgram[0] as usize & 0xf) * 4 + 8) }, ttl2: 1, tos2: 0, ext: ExtForm::Absent, outer_opt_words: 0 };
        let (b, _) = quote(v6, &me, &p, dgram);
        vec![(delay, b, if v6 { Some(SocketAddr::new(r, 0)) } else { None })]
    } else {
        let t = target(v6);
        match (s.cfg.proto, icmp_ident) {
            (Protocol::Icmp, Some((id, seq, payload))) => vec![(delay, echo_reply(v6, &me, &addr_bytes(t), id, seq, &payload, 0), if v6 { Some(SocketAddr::new(t, 0)) } else { None })],
            (Protocol::Udp, _) => {
                let p = Peer { router: addr_bytes(t), du_code: Some(if v6 { 4 } else { 3 }), n: if v6 { dgram.len().min(1232) } else { 28 }, ttl2: 1, tos2: 0, ext: ExtForm::Absent, outer_opt_words: 0 };
                let (b, _) = quote(v6, &me, &p, dgram);
                vec![(delay, b, if v6 { Some(SocketAddr::new(t, 0)) } else { None })]
            }
            _ => vec![],
        }
    }
}

fn run_scn(s: &Scn, out: &mut Out) {
    let v6 = s.cfg.target.is_ipv6();
    let mut cfg = s.cfg.clone();
    cfg.max_rounds = s.rounds;
    let tracer = match crate::m_c16grid::build(&cfg, false) {
        Ok(t) => t,
        Err(e) => { out.case(&s.line(), &format!("reject:{}", ErrK::of(&e).tok()), "ok"); return; }
    };
    vclock::set(vclock::BASE_NS);
    vclock::TICK_NS.store(0, std::sync::atomic::Ordering::SeqCst);
    let _ = vclock::take_readings();
    sim::reset();
    let (sc, sc2) = (s.clone(), s.clone());
    sim::with(|w| {
        w.send_cost_ns = 1000;
        w.on_send = Some(Box::new(move |buf: &[u8], _addr: SocketAddr, _now: u64| {
            let id = sim::with(|w| w.ops.iter().rev().find_map(|o| match o { Op::SendTo(i, _, _) => Some(*i), _ => None })).unwrap_or(0);
            let src = addr_bytes(source(v6));
            let dst = addr_bytes(target(v6));
            // the datagram as it is on the wire
            let (ttl, dgram) = if v6 {
                let hop = sock_facts(id).0.unwrap_or(64);
                let nh = if sc.cfg.proto == Protocol::Icmp { 58 } else { 17 };
                let mut d = ip6_hdr(0, 0, buf.len() as u16, nh, hop, &src, &dst);
                d.extend_from_slice(buf);
                (hop, d)
            } else {
                (buf.get(8).copied().unwrap_or(0), buf.to_vec())
            };
            let t_off = if v6 { 40 } else { (dgram[0] as usize & 0xf) * 4 };
            let ident = if sc.cfg.proto == Protocol::Icmp && dgram.len() >= t_off + 8 {
                Some((u16::from_be_bytes([dgram[t_off + 4], dgram[t_off + 5]]), u16::from_be_bytes([dgram[t_off + 6], dgram[t_off + 7]]), dgram[t_off + 8..].to_vec()))
            } else { None };
            answer(&sc, v6, ttl, &dgram, ident)
        }));
        w.on_connect = Some(Box::new(move |id: usize, peer: SocketAddr, _now: u64| {
            let (ttl, port) = sock_facts(id);
            let ttl = ttl.unwrap_or(64);
            if sc2.all_silent || ttl == sc2.silent_hop { return (TcpOutcome::Pending, vec![]); }
            if ttl >= sc2.dist {
                return (if peer.port() % 2 == 0 { TcpOutcome::Connected(target(v6)) } else { TcpOutcome::Refused }, vec![]);
            }
            let src = addr_bytes(source(v6));
            let dst = addr_bytes(target(v6));
            let syn = tcp_syn(port.unwrap_or(0), peer.port(), 0x1234_5678, 5);
            let dgram = if v6 {
                let mut d = ip6_hdr(0, 0x12345, syn.len() as u16, 6, ttl, &src, &dst);
                d.extend(syn);
                d
            } else {
                let mut d = ip4_hdr(0, (20 + syn.len()) as u16, 0x4321, ttl, 6, &src, &dst, &[]);
                d.extend(syn);
                d
            };
            (TcpOutcome::Pending, answer(&sc2, v6, ttl, &dgram, None))
        }));
    });
    let rounds = Cell::new(0usize);
    let nsent = Cell::new(0usize);
    let res = std::panic::catch_unwind(std::panic::AssertUnwindSafe(|| {
        let ch = Channel::<SimSocket>::connect(&tracer.verif_channel_config(source(v6)))?;
        tracer.verif_run_with_network(ch, |round| { rounds.set(rounds.get() + 1); nsent.set(nsent.get() + round.probes.len()); })
    }));
    let _ = vclock::take_readings();
    let run = match &res {
        Ok(Ok(())) => "ok".to_string(),
        Ok(Err(e)) => format!("err:{}", ErrK::of(e).tok()),
        Err(_) => "fault:panic".to_string(),
    };
    sim::reset();
    let mut fails = vec![];
    let n = s.rounds;
    if run != "ok" || rounds.get() != n {
        fails.push(format!("C16:accepted_configuration_did_not_run_{n}_rounds_over_the_real_channel:run={run},rounds={}", rounds.get()));
        fails.push(format!("C09:run={run},rounds={}_of_{n}", rounds.get()));
        if run == "fault:panic" { fails.push("C04:panic_in_the_end_to_end_run".to_string()); }
    }
    let mut hops_txt = vec![];
    let snap = std::panic::catch_unwind(std::panic::AssertUnwindSafe(|| tracer.snapshot()));
    match snap {
        Err(_) => fails.push("C16:snapshot_panicked".to_string()),
        Ok(st) if run == "ok" => {
            let reach = s.dist.min(cfg.max_ttl);
            let hops = st.hops();
            for h in hops { hops_txt.push(format!("{}:{}/{}", h.ttl(), h.total_sent(), h.total_recv())); }
            if !s.all_silent {
                // C10: the table is exactly first_ttl..reach (an unanswered last hop shortens it legitimately)
                let want: Vec<u8> = (cfg.first_ttl..=reach).collect();
                let got: Vec<u8> = hops.iter().map(|h| h.ttl()).collect();
                // (a silent router cannot be passed with a window of one probe in flight)
                if s.silent_hop != reach && (s.silent_hop == 0 || cfg.max_inflight >= 2) && got != want { fails.push(format!("C10:hop_table_{got:?}_expected_{want:?}")); }
                for h in hops {
                    let t = h.ttl();
                    if t < cfg.first_ttl || t > reach { continue; }
                    let answered = t != s.silent_hop;
                    let (ws, wr) = (n, if answered { n } else { 0 });
                    if h.total_sent() != ws || h.total_recv() != wr {
                        fails.push(format!("C01:hop_{t}_shows_{}_sent_{}_answered_but_the_network_saw_{ws}_and_answered_{wr}", h.total_sent(), h.total_recv()));
                    }
                    let want_addr = if t == s.dist { target(v6) } else { router(v6, t) };
                    let addrs: Vec<(IpAddr, usize)> = h.addrs_with_counts().map(|(a, c)| (*a, *c)).collect();
                    if answered && addrs != vec![(want_addr, n)] {
                        fails.push(format!("C02:hop_{t}_attributed_{addrs:?}_but_only_{want_addr}_answered_its_probes"));
                    }
                    if !answered && !addrs.is_empty() { fails.push(format!("C02:silent_hop_{t}_attributed_{addrs:?}")); }
                    // C19: nothing on the simulated path rewrites a datagram
                    if answered && h.last_nat_status() == trippy_core::NatStatus::Detected {
                        fails.push(format!("C19:hop_{t}_shows_NAT_detected_on_a_path_without_any_rewriting"));
                    }
                    let dublin4 = cfg.proto == Protocol::Udp && cfg.strategy == MultipathStrategy::Dublin && !v6;
                    if answered && dublin4 && h.last_nat_status() != trippy_core::NatStatus::NotDetected {
                        fails.push(format!("C19:hop_{t}_status_{:?}_for_an_answered_Dublin_IPv4_probe", h.last_nat_status()));
                    }
                }
            } else if hops.iter().any(|h| h.total_recv() != 0) {
                fails.push("C01:responses_counted_on_a_silent_network".to_string());
            }
        }
        Ok(_) => {}
    }
    let o = format!("accept run={run} rounds={} sent={} hops={}", rounds.get(), nsent.get(), if hops_txt.is_empty() { "-".to_string() } else { hops_txt.join(",") });
    out.case(&s.line(), &o, &if fails.is_empty() { "ok".to_string() } else { format!("FAIL:{}", fails.join(";")) });
}

/// a source address given to the builder: whatever the builder accepts must be able to open its channel
fn run_fam(cfg: &Cfg, src: IpAddr, out: &mut Out) {
    use trippy_core::{Builder, PrivilegeMode};
    let input = format!("e2efam {} {}", cfg.render(), hex(&addr_bytes(src)));
    let built = Builder::new(cfg.target).privilege_mode(PrivilegeMode::Privileged).protocol(cfg.proto).multipath_strategy(cfg.strategy)
        .port_direction(cfg.portdir).trace_identifier(cfg.trace_id).first_ttl(cfg.first_ttl).max_ttl(cfg.max_ttl)
        .max_inflight(cfg.max_inflight).initial_sequence(cfg.initial_sequence).source_addr(Some(src)).max_rounds(Some(1)).build();
    let tracer = match built {
        Ok(t) => t,
        Err(e) => { out.case(&input, &format!("reject:{}", ErrK::of(&e).tok()), "ok"); return; }
    };
    sim::reset();
    let res = std::panic::catch_unwind(std::panic::AssertUnwindSafe(|| Channel::<SimSocket>::connect(&tracer.verif_channel_config(src)).map(|_| ())));
    sim::reset();
    let (o, orc) = match res {
        Ok(Ok(())) => ("accept connect=ok".to_string(), "ok".to_string()),
        Ok(Err(e)) => (format!("accept connect=err:{}", ErrK::of(&e).tok()), "FAIL:C16:a_configuration_accepted_by_Builder::build_cannot_open_its_channel".to_string()),
        Err(_) => ("accept connect=fault:panic".to_string(), "FAIL:C16:a_configuration_accepted_by_Builder::build_panicked_in_Channel::connect_(source_and_target_of_different_families)".to_string()),
    };
    out.case(&input, &o, &orc);
}

pub fn run(args: &Args, out: &mut Out) {
    vclock::enable(vclock::BASE_NS);
    if let Some(path) = &args.replay {
        for l in crate::replay_inputs(path) {
            let t: Vec<&str> = l.split(' ').collect();
            if t[0] == "e2efam" && t.len() >= 3 { run_fam(&Cfg::parse(t[1]), crate::strat::addr_from(&crate::rng::unhex(t[2])), out); continue; }
            if t[0] != "e2e" || t.len() < 6 { continue; }
            run_scn(&Scn { cfg: Cfg::parse(t[1]), dist: t[2].parse().unwrap(), silent_hop: t[3].parse().unwrap(), all_silent: t[4] == "1", rounds: t[5].parse().unwrap() }, out);
        }
        return;
    }
    let thorough = args.tier_thorough;
    let mut rng = Rng::new(args.seed);
    let mut n = 0usize;
    let cells: Vec<(Protocol, MultipathStrategy, PortDirection)> = vec![
        (Protocol::Icmp, MultipathStrategy::Classic, PortDirection::None),
        (Protocol::Udp, MultipathStrategy::Classic, PortDirection::new_fixed_src(5000)),
        (Protocol::Udp, MultipathStrategy::Classic, PortDirection::new_fixed_dest(33500)),
        (Protocol::Udp, MultipathStrategy::Paris, PortDirection::new_fixed_src(5000)),
        (Protocol::Udp, MultipathStrategy::Paris, PortDirection::new_fixed_both(5000, 33500)),
        (Protocol::Udp, MultipathStrategy::Dublin, PortDirection::new_fixed_src(5000)),
        (Protocol::Udp, MultipathStrategy::Dublin, PortDirection::new_fixed_dest(33500)),
        (Protocol::Udp, MultipathStrategy::Dublin, PortDirection::new_fixed_both(5000, 33500)),
        (Protocol::Tcp, MultipathStrategy::Classic, PortDirection::new_fixed_src(5000)),
        (Protocol::Tcp, MultipathStrategy::Classic, PortDirection::new_fixed_dest(80)),
    ];
    for (proto, strategy, portdir) in &cells {
        for v6 in [false, true] {
            let base = Cfg {
                proto: *proto, strategy: *strategy, portdir: *portdir, target: target(v6), trace_id: 4242, max_rounds: 1, first_ttl: 1, max_ttl: 30,
                grace_ns: 50_000_000, max_inflight: 24, initial_sequence: 33434, min_ns: 200_000_000, max_ns: 400_000_000, max_samples: 256, max_flows: 64,
            };
            // (a) answered paths of several lengths, a silent router, first_ttl > 1, a target beyond max_ttl, sequence space near its end
            let reps = if thorough { 12 } else { 3 };
            for r in 0..reps {
                let mut cfg = base.clone();
                let dist = 1 + rng.below(12) as u8;
                cfg.first_ttl = if r % 3 == 2 { 1 + rng.below(u64::from(dist)) as u8 } else { 1 };
                cfg.max_ttl = if r % 4 == 3 { cfg.first_ttl.max(dist.saturating_sub(2)).max(1) } else { 30 };
                cfg.initial_sequence = *rng.pick(&[33434u16, 1, 64000, 60000, 1024]);
                cfg.max_inflight = *rng.pick(&[24u8, 24, 1, 3, 64]);
                let silent_hop = if r % 3 == 1 && dist > 2 { cfg.first_ttl + rng.below(u64::from(dist - cfg.first_ttl)) as u8 } else { 0 };
                let rounds = if thorough { 4 + rng.below(40) as usize } else { 3 + rng.below(10) as usize };
                run_scn(&Scn { cfg, dist, silent_hop: if silent_hop >= dist { 0 } else { silent_hop }, all_silent: false, rounds }, out);
                n += 1;
            }
            // (b) long runs on a silent network: every round issues max_inflight probes, so the sequence space is walked quickly
            //     (the Dublin/IPv6 payload-length encoding and the sequence wrap are crossed several times)
            for (mi, rounds) in [(24u8, if thorough { 120 } else { 40 }), (100, if thorough { 40 } else { 12 })] {
                let mut cfg = base.clone();
                cfg.max_ttl = 100;
                cfg.max_inflight = mi;
                // one probe is sent per loop iteration and each iteration waits one read timeout (10 ms) on a silent network
                cfg.min_ns = (u64::from(mi) + 3) * 10_000_000;
                cfg.max_ns = (u64::from(mi) + 4) * 10_000_000;
                cfg.initial_sequence = *rng.pick(&[33434u16, 64000]);
                run_scn(&Scn { cfg, dist: 200, silent_hop: 0, all_silent: true, rounds }, out);
                n += 1;
            }
        }
    }
    // (c) UDP checksums that compute to zero (RFC 768: zero on the wire means "no checksum"): Dublin / Paris / classic over IPv4 with
    //     both ports fixed, the destination port chosen so that the checksum of the probes of the run computes to 0x0000 resp. 0xFFFF
    for strategy in [MultipathStrategy::Dublin, MultipathStrategy::Paris] {
        for want in [0u16, 0xFFFF, 0x0001] {
            let (src, dst) = (addr_bytes(source(false)), addr_bytes(target(false)));
            let payload = vec![0u8; 84 - 28];
            let dp = (1024u16..=65535).find(|dp| {
                let u = crate::m_recv::udp(5000, *dp, None, &payload, &src, &dst);
                u16::from_be_bytes([u[6], u[7]]) == want
            });
            if let Some(dp) = dp {
                let cfg = Cfg {
                    proto: Protocol::Udp, strategy, portdir: PortDirection::new_fixed_both(5000, dp), target: target(false), trace_id: 4242, max_rounds: 1, first_ttl: 1, max_ttl: 30,
                    grace_ns: 50_000_000, max_inflight: 24, initial_sequence: 33434, min_ns: 200_000_000, max_ns: 400_000_000, max_samples: 256, max_flows: 64,
                };
                run_scn(&Scn { cfg, dist: 5, silent_hop: 0, all_silent: false, rounds: 4 }, out);
                n += 1;
            }
        }
    }
    // (d) a source address handed to the builder: same and other family than the target
    for (proto, strategy, portdir) in &cells {
        for v6 in [false, true] {
            let cfg = Cfg {
                proto: *proto, strategy: *strategy, portdir: *portdir, target: target(v6), trace_id: 4242, max_rounds: 1, first_ttl: 1, max_ttl: 30,
                grace_ns: 50_000_000, max_inflight: 24, initial_sequence: 33434, min_ns: 200_000_000, max_ns: 400_000_000, max_samples: 256, max_flows: 64,
            };
            run_fam(&cfg, source(v6), out);
            run_fam(&cfg, source(!v6), out);
            n += 2;
        }
    }
    out.stat("end_to_end_scenarios", n);
    let _ = hex(&[]);
}
