//! C09: bounded-exhaustive fault injection - every send outcome and receive outcome at every step of the
//! loop for small configurations (the environment is a script indexed by the call number).
use crate::oracles;
use crate::simnet::SimEnv;
use crate::strat::{exec, exec_replay, parse_iters, Cfg, Env, ErrK, RecvO, SendO};
use crate::vclock;
use crate::{Args, Out};
use trippy_core::verif::{IcmpPacketCode, Response, ResponseData};
use trippy_core::{MultipathStrategy, PortDirection, Probe, Protocol};

struct FaultEnv {
    cfg: Cfg,
    sends: Vec<u8>, // per send call: 0 sent, 1 probe failed, 2 address in use, 3 fatal io
    recvs: Vec<u8>, // per recv call: 0 timeout, 1 genuine time-exceeded for the last probe, 2 genuine target reply, 3 fatal io, 4 duplicate of the previous response
    si: usize,
    ri: usize,
    last: Option<Probe>,
    last_resp: Option<(Response, Option<(u16, usize)>)>,
    truth: std::rc::Rc<std::cell::RefCell<oracles::Truth>>,
    sent_ok: bool,
}
impl Env for FaultEnv {
    fn on_send(&mut self, probe: &Probe) -> SendO {
        vclock::advance(1000);
        let k = self.sends.get(self.si).copied().unwrap_or(0);
        self.si += 1;
        self.last = Some(probe.clone());
        self.sent_ok = k == 0;
        match k { 0 => SendO::Sent, 1 => SendO::Failed, 2 => SendO::InUse, _ => SendO::Fatal(ErrK::Io) }
    }
    fn on_recv(&mut self) -> RecvO {
        vclock::advance(2000);
        if self.ri >= self.recvs.len() {
            return RecvO::Fatal(ErrK::Other); // script exhausted: stop the run
        }
        let k = self.recvs[self.ri];
        self.ri += 1;
        match (k, self.last.clone()) {
            (3, _) => RecvO::Fatal(ErrK::Io),
            (1 | 2, Some(p)) => {
                let pr = SimEnv::proto_resp(&self.cfg, &p, None);
                let now = vclock::now();
                let from = if k == 2 { self.cfg.target } else { "10.9.9.9".parse().unwrap() };
                let d = ResponseData::new(vclock::from_ns(now), from, pr);
                let r = if k == 2 && self.cfg.proto == Protocol::Icmp { Response::EchoReply(d, IcmpPacketCode(0)) } else { Response::TimeExceeded(d, IcmpPacketCode(0), None) };
                let tr = if self.sent_ok { Some((p.sequence.0, p.round.0)) } else { None };
                self.last_resp = Some((r.clone(), tr));
                self.truth.borrow_mut().push(tr);
                RecvO::Resp(r)
            }
            (4, _) if self.last_resp.is_some() => {
                let (r, tr) = self.last_resp.clone().unwrap();
                self.truth.borrow_mut().push(tr);
                RecvO::Resp(r)
            }
            _ => RecvO::Timeout,
        }
    }
}

fn digits(mut n: usize, base: usize, len: usize) -> Vec<u8> {
    let mut v = vec![];
    for _ in 0..len { v.push((n % base) as u8); n /= base; }
    v
}

pub fn run(args: &Args, out: &mut Out) {
    vclock::enable(vclock::BASE_NS);
    if let Some(path) = &args.replay {
        for l in crate::replay_inputs(path) {
            let t: Vec<&str> = l.split(' ').collect();
            if t[0] != "run" { continue; }
            let cfg = Cfg::parse(t[1]);
            let r = exec_replay(&cfg, t[2].parse().unwrap(), parse_iters(t[3]));
            let truth = oracles::parse_truth(t.get(4).copied().unwrap_or("-"));
            out.case(&l, &r.render(), &crate::m_run::full_oracle(&cfg, &r, &truth, false));
        }
        return;
    }
    let steps = if args.tier_thorough { 5 } else { 3 };
    let mut n = 0usize;
    for proto in [Protocol::Icmp, Protocol::Tcp] {
        let cfg = Cfg {
            proto, strategy: MultipathStrategy::Classic,
            portdir: if proto == Protocol::Tcp { PortDirection::new_fixed_src(5000) } else { PortDirection::None },
            target: "10.0.0.9".parse().unwrap(), trace_id: 77, max_rounds: 2, first_ttl: 1, max_ttl: 3,
            grace_ns: 0, max_inflight: 24, initial_sequence: 33434, min_ns: 0, max_ns: 5500, max_samples: 256, max_flows: 64,
        };
        let send_base = if proto == Protocol::Tcp { 4 } else { 3 };   // address-in-use only matters for TCP (fatal otherwise: covered by kind 3)
        let nsend = send_base_pow(send_base, steps);
        let nrecv = send_base_pow(5, steps);
        for sc in 0..nsend {
            for rc in 0..nrecv {
                let mut sends = digits(sc, send_base, steps);
                if send_base == 3 { for s in sends.iter_mut() { if *s == 2 { *s = 3; } } }
                let recvs = digits(rc, 5, steps);
                let truth = std::rc::Rc::new(std::cell::RefCell::new(vec![]));
                let env = FaultEnv { cfg: cfg.clone(), sends, recvs, si: 0, ri: 0, last: None, last_resp: None, truth: truth.clone(), sent_ok: false };
                let t0 = vclock::BASE_NS;
                vclock::set(t0);
                let r = exec(&cfg, Box::new(env), t0, 0);
                let tr = truth.borrow().clone();
                out.case(&crate::m_run::case_line(&cfg, &r, &tr), &r.render(), &crate::m_run::full_oracle(&cfg, &r, &tr, false));
                n += 1;
            }
        }
    }
    // the round's sequence budget (512): TCP, `pre` probes sent normally, then a burst of address-in-use outcomes that
    // uses up the budget exactly / almost / beyond, then more ttls to send within the same round
    let mut edge = 0usize;
    for pre in 0..=2usize {
        for burst in [508usize, 509, 510, 511, 512, 513] {
            for pd in [PortDirection::new_fixed_src(5000), PortDirection::new_fixed_dest(80)] {
                let cfg = Cfg {
                    proto: Protocol::Tcp, strategy: MultipathStrategy::Classic, portdir: pd,
                    target: "10.0.0.9".parse().unwrap(), trace_id: 0, max_rounds: 2, first_ttl: 1, max_ttl: 6,
                    // (a refused attempt costs virtual time: the round must outlast the whole burst)
                    grace_ns: 0, max_inflight: 24, initial_sequence: 33434, min_ns: 0, max_ns: 5_000_000_000, max_samples: 256, max_flows: 64,
                };
                let mut sends = vec![0u8; pre];
                sends.extend(std::iter::repeat(2u8).take(burst));
                sends.extend([0u8; 6]);
                let truth = std::rc::Rc::new(std::cell::RefCell::new(vec![]));
                let env = FaultEnv { cfg: cfg.clone(), sends, recvs: vec![0; 8], si: 0, ri: 0, last: None, last_resp: None, truth: truth.clone(), sent_ok: false };
                let t0 = vclock::BASE_NS;
                vclock::set(t0);
                let r = exec(&cfg, Box::new(env), t0, 0);
                let tr = truth.borrow().clone();
                out.case(&crate::m_run::case_line(&cfg, &r, &tr), &r.render(), &crate::m_run::full_oracle(&cfg, &r, &tr, false));
                edge += 1;
            }
        }
    }
    // the bound on the initial sequence is what keeps two consecutive rounds apart (C07): every cell x values around 64511
    let mut bnd = 0usize;
    for (proto, strategy, v6) in [
        (Protocol::Icmp, MultipathStrategy::Classic, false), (Protocol::Icmp, MultipathStrategy::Classic, true),
        (Protocol::Udp, MultipathStrategy::Classic, false), (Protocol::Udp, MultipathStrategy::Classic, true),
        (Protocol::Udp, MultipathStrategy::Paris, false), (Protocol::Udp, MultipathStrategy::Paris, true),
        (Protocol::Udp, MultipathStrategy::Dublin, false), (Protocol::Udp, MultipathStrategy::Dublin, true),
        (Protocol::Tcp, MultipathStrategy::Classic, false), (Protocol::Tcp, MultipathStrategy::Classic, true),
    ] {
        for initial_sequence in [64510u16, 64511, 64512, 65022, 65023, 65281, 65282, 65535] {
            let cfg = Cfg {
                proto, strategy, portdir: if proto == Protocol::Icmp { PortDirection::None } else { PortDirection::new_fixed_src(5000) },
                target: if v6 { "2001:db8::9".parse().unwrap() } else { "10.0.0.9".parse().unwrap() }, trace_id: 77, max_rounds: 2, first_ttl: 1, max_ttl: 3,
                grace_ns: 0, max_inflight: 24, initial_sequence, min_ns: 0, max_ns: 5500, max_samples: 256, max_flows: 64,
            };
            let truth = std::rc::Rc::new(std::cell::RefCell::new(vec![]));
            let env = FaultEnv { cfg: cfg.clone(), sends: vec![0; 8], recvs: vec![0; 8], si: 0, ri: 0, last: None, last_resp: None, truth: truth.clone(), sent_ok: false };
            let t0 = vclock::BASE_NS;
            vclock::set(t0);
            let r = exec(&cfg, Box::new(env), t0, 0);
            let tr = truth.borrow().clone();
            let mut verdict = crate::m_run::full_oracle(&cfg, &r, &tr, false);
            if initial_sequence > 64511 && !r.result.starts_with("err:badconfig") {
                let m = format!("C07:builder_accepts_initial_sequence_{initial_sequence}_above_64511_consecutive_rounds_are_no_longer_kept_apart");
                verdict = if verdict == "ok" { format!("FAIL:{m}") } else { format!("{verdict};{m}") };
            }
            out.case(&crate::m_run::case_line(&cfg, &r, &tr), &r.render(), &verdict);
            bnd += 1;
        }
    }
    out.stat("initial_sequence_boundary_configurations", bnd);
    // a failure BEFORE the loop starts (the source address cannot be bound: no network needed) must end the run with an error
    // and be visible in the snapshot
    vclock::disable();
    for v6 in [false, true] {
        let (target, source): (std::net::IpAddr, std::net::IpAddr) = if v6 { ("2001:db8::9".parse().unwrap(), "2001:db8::77".parse().unwrap()) } else { ("192.0.2.9".parse().unwrap(), "192.0.2.1".parse().unwrap()) };
        let res = std::panic::catch_unwind(|| {
            let tracer = trippy_core::Builder::new(target).source_addr(Some(source)).max_rounds(Some(1)).build().unwrap();
            let r = tracer.run();
            let before = tracer.snapshot().error().map(ToString::to_string);
            // a request to clear the trace data does not make the tracer run again: the error must stay visible
            tracer.clear();
            (r.is_err(), r.err().map(|e| e.to_string()), before, tracer.snapshot().error().map(ToString::to_string))
        });
        let input = format!("startup {}", if v6 { 6 } else { 4 });
        match res {
            Err(_) => out.case(&input, "fault:panic", "FAIL:C09:panic_at_startup"),
            Ok((is_err, e, snap, after_clear)) => {
                let mut fails = vec![];
                if !is_err { fails.push("C09:run_with_an_unusable_source_address_returned_ok".to_string()); }
                if is_err && snap != e { fails.push("C09:startup_error_not_visible_in_the_snapshot".to_string()); }
                if is_err && after_clear != e { fails.push("C09:error_of_the_ended_run_no_longer_visible_in_snapshots_after_clear()".to_string()); }
                out.case(&input, &format!("err={} visible={} after_clear={}", u8::from(is_err), u8::from(snap.is_some()), u8::from(after_clear.is_some())), &if fails.is_empty() { "ok".to_string() } else { format!("FAIL:{}", fails.join(";")) });
            }
        }
    }
    // the same failing start while another thread keeps calling clear(): whatever the interleaving, the error must be in the snapshots
    // taken after both have finished
    for v6 in [false, true] {
        let (target, source): (std::net::IpAddr, std::net::IpAddr) = if v6 { ("2001:db8::9".parse().unwrap(), "2001:db8::77".parse().unwrap()) } else { ("192.0.2.9".parse().unwrap(), "192.0.2.1".parse().unwrap()) };
        let runs = if args.tier_thorough { 2000 } else { 300 };
        let mut lost = 0usize;
        let mut errs = 0usize;
        for _ in 0..runs {
            let Ok(tracer) = trippy_core::Builder::new(target).source_addr(Some(source)).max_rounds(Some(1)).build() else { continue };
            let t2 = tracer.clone();
            let done = std::sync::Arc::new(std::sync::atomic::AtomicBool::new(false));
            let d2 = done.clone();
            let h = std::thread::spawn(move || { let r = t2.run(); d2.store(true, std::sync::atomic::Ordering::SeqCst); r.is_err() });
            while !done.load(std::sync::atomic::Ordering::SeqCst) { tracer.clear(); }
            let is_err = h.join().unwrap_or(false);
            tracer.clear();
            if is_err { errs += 1; if tracer.snapshot().error().is_none() { lost += 1; } }
        }
        let input = format!("startuprace {}", if v6 { 6 } else { 4 });
        let fails = if lost > 0 { format!("FAIL:C09:error_of_the_ended_run_lost_by_a_concurrent_clear()_in_{lost}_of_{errs}_runs") } else { "ok".to_string() };
        out.case(&input, &format!("lost={}", u8::from(lost > 0)), &fails);
    }
    vclock::enable(vclock::BASE_NS);
    out.stat("sequence_budget_edge_scripts", edge);
    out.stat("fault_scripts", n);
    out.stat("steps_per_script", steps);
}

fn send_base_pow(b: usize, e: usize) -> usize { (0..e).fold(1, |a, _| a * b) }
