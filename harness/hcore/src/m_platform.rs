//! The real platform socket (net/platform/unix.rs `SocketImpl`, through the hook re-export) on loopback datagram sockets: what
//! `is_readable` returns when nothing arrives, when a datagram arrives, and when the waiting thread is hit by a stream of signals
//! (handler installed without SA_RESTART, so select(2) returns EINTR).  Real time; no virtual clock.  If the sandbox does not allow
//! a loopback datagram socket the lines are not emitted (stat `platform_sockets_unavailable`).
use crate::{Args, Out};
use std::net::{IpAddr, Ipv4Addr, SocketAddr};
use std::sync::atomic::{AtomicBool, AtomicUsize, Ordering};
use std::time::{Duration, Instant};
use trippy_core::verif::{Socket, SocketImpl};

static SIGNALS_SEEN: AtomicUsize = AtomicUsize::new(0);
extern "C" fn on_signal(_: libc::c_int) {
    SIGNALS_SEEN.fetch_add(1, Ordering::SeqCst);
}

fn install_handler() {
    unsafe {
        let mut sa: libc::sigaction = std::mem::zeroed();
        sa.sa_sigaction = on_signal as usize;
        sa.sa_flags = 0; // no SA_RESTART: a blocking call returns EINTR
        libc::sigemptyset(&mut sa.sa_mask);
        libc::sigaction(libc::SIGUSR1, &sa, std::ptr::null_mut());
    }
}

fn bound_socket(port: u16) -> Option<SocketImpl> {
    let mut s = SocketImpl::new_udp_dgram_socket_ipv4().ok()?;
    s.bind(SocketAddr::new(IpAddr::V4(Ipv4Addr::LOCALHOST), port)).ok()?;
    Some(s)
}

fn render(r: &Result<bool, trippy_core::verif::IoError>) -> String {
    match r { Ok(true) => "ready".to_string(), Ok(false) => "nothing".to_string(), Err(e) => {
            let code = match e { trippy_core::verif::IoError::Bind(x, _) | trippy_core::verif::IoError::Connect(x, _) | trippy_core::verif::IoError::SendTo(x, _) | trippy_core::verif::IoError::Other(x, _) => x.raw_os_error().unwrap_or(-1) };
            format!("err:{code}")
        }
    }
}

pub fn run(args: &Args, out: &mut Out) {
    crate::vclock::disable();
    let base = 40000 + (std::process::id() % 20000) as u16;
    let Some(mut a) = (0..50).find_map(|i| bound_socket(base + i)) else { out.stat("platform_sockets_unavailable", 1); return; };
    // 1. nothing arrives: every wait times out, after about the timeout
    {
        let mut res = vec![];
        let mut fails = vec![];
        for _ in 0..3 {
            let t0 = Instant::now();
            let r = a.is_readable(Duration::from_millis(30));
            let el = t0.elapsed();
            if r.is_ok() && (el < Duration::from_millis(20) || el > Duration::from_secs(2)) { fails.push(format!("C08:a_wait_of_30ms_with_nothing_to_read_took_{}ms", el.as_millis())); }
            res.push(render(&r));
        }
        out.case("platform idle t,t,t", &res.join(","), &crate::oracles::verdict(&fails));
    }
    // 2. a stream of signals hits the waiting thread: an interrupted wait is a wait that found nothing, never an error
    {
        install_handler();
        let me = unsafe { libc::pthread_self() } as usize;
        let stop = std::sync::Arc::new(AtomicBool::new(false));
        let stop2 = stop.clone();
        let h = std::thread::spawn(move || {
            while !stop2.load(Ordering::SeqCst) {
                unsafe { libc::pthread_kill(me as libc::pthread_t, libc::SIGUSR1); }
                std::thread::sleep(Duration::from_millis(2));
            }
        });
        let n = if args.tier_thorough { 200 } else { 25 };
        let before = SIGNALS_SEEN.load(Ordering::SeqCst);
        let mut res = vec![];
        for _ in 0..n { res.push(render(&a.is_readable(Duration::from_millis(20)))); }
        stop.store(true, Ordering::SeqCst);
        let _ = h.join();
        let seen = SIGNALS_SEEN.load(Ordering::SeqCst) - before;
        let mut fails = vec![];
        if res.iter().any(|r| r.starts_with("err")) { fails.push("C09:a_wait_interrupted_by_a_signal_returned_an_error_(the_run_would_end_with_it)".to_string()); }
        out.stat("signals_delivered_while_waiting", seen);
        // every call was interrupted or timed out: both read "nothing"
        let sels = vec!["i"; n].join(",");
        out.case(&format!("platform signals {sels}"), &res.join(","), &crate::oracles::verdict(&fails));
    }
    // 3. a datagram arrives: the wait reports it and the datagram is read with its source
    if let Some(mut b) = (50..100).find_map(|i| bound_socket(base + i)) {
        let mut fails = vec![];
        let to = SocketAddr::new(IpAddr::V4(Ipv4Addr::LOCALHOST), a_port(&a, base));
        let payload = [0x74u8, 0x72, 0x69, 0x70];
        let sent = b.send_to(&payload, to);
        let r = a.is_readable(Duration::from_millis(500));
        let mut buf = [0u8; 64];
        let got = a.recv_from(&mut buf);
        match (&sent, &got) {
            (Ok(()), Ok((n, from))) => {
                if &buf[..*n] != payload { fails.push("C01:the_datagram_read_is_not_the_datagram_sent".to_string()); }
                if from.map(|f| f.ip()) != Some(IpAddr::V4(Ipv4Addr::LOCALHOST)) { fails.push("C01:source_of_the_datagram_not_reported".to_string()); }
            }
            _ => {}
        }
        if sent.is_ok() { out.case("platform arrival r", &render(&r), &crate::oracles::verdict(&fails)); }
        let w = b.is_writable();
        out.case("platform writable r", &render(&w), "ok");
    }
}

/// the port `a` was bound to (the first free one from `base`): found again by trying to bind
fn a_port(_a: &SocketImpl, base: u16) -> u16 {
    // ports base.. are tried in order by bound_socket; the first one that cannot be bound NOW is the one `a` holds
    (0..50).map(|i| base + i).find(|p| std::net::UdpSocket::bind((Ipv4Addr::LOCALHOST, *p)).is_err()).unwrap_or(base)
}
