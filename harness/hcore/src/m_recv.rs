//! C04 (receive half) and C02 (decode half): the real `Channel<SimSocket>::recv_probe` on arbitrary bytes.
//!
//! Case lines
//!   recv    <rcfg> <from> <bytes> <expect>          one datagram on the receive socket
//!   tcpsock <rcfg> <outcome> <sp> <dp> <expect>     one TCP probe socket outcome (recv_tcp_socket)
//!   probe   <rcfg> <size> <tos> <initseq> <seq> <tid> <sp> <dp> <ttl> <flags>   bytes handed to send_to by the real dispatch
//! rcfg   = {I|U|T},{p|u},{e|d},<src hex>,<dst hex>,<pattern>
//! expect = `-` | own=<strategy cfg (strat::Cfg::render)>=<sequence> | foreign=<strategy cfg>=<facet>
//! Output = none | err:<kind> | fault:panic | <response, recv time zeroed>[ acc=<0|1> seq=<n> tid=<n>]
//! The encoders below are written from the RFCs (791, 792, 768, 793, 8200, 4443, 4884, 4950), not with trippy-packet.
use crate::rng::{hex, unhex, Rng};
use crate::sim::{self, Op, SimSocket, TcpOutcome};
use crate::strat::{self, addr_bytes, addr_from, Cfg, ErrK};
use crate::{Args, Out};
use std::net::{IpAddr, SocketAddr};
use std::panic::{catch_unwind, AssertUnwindSafe};
use std::time::Duration;
use trippy_core::verif::{Channel, ChannelConfig, Network, Response, TracerStateHandle};
use trippy_core::{
    Flags, IcmpExtensionParseMode, MultipathStrategy, PacketSize, PayloadPattern, Port, PortDirection,
    PrivilegeMode, Probe, Protocol, RoundId, Sequence, TimeToLive, TraceId, TypeOfService,
};

// ------------------------------------------------------------------ configuration
#[derive(Clone, Debug)]
pub struct RCfg {
    pub proto: Protocol,
    pub privileged: bool,
    pub ext: bool,
    pub src: IpAddr,
    pub dst: IpAddr,
    pub pattern: u8,
}
impl RCfg {
    pub fn render(&self) -> String {
        format!(
            "{},{},{},{},{},{}",
            match self.proto { Protocol::Icmp => "I", Protocol::Udp => "U", Protocol::Tcp => "T" },
            if self.privileged { "p" } else { "u" },
            if self.ext { "e" } else { "d" },
            hex(&addr_bytes(self.src)), hex(&addr_bytes(self.dst)), self.pattern
        )
    }
    pub fn parse(s: &str) -> RCfg {
        let t: Vec<&str> = s.split(',').collect();
        RCfg {
            proto: match t[0] { "I" => Protocol::Icmp, "U" => Protocol::Udp, _ => Protocol::Tcp },
            privileged: t[1] == "p",
            ext: t[2] == "e",
            src: addr_from(&unhex(t[3])),
            dst: addr_from(&unhex(t[4])),
            pattern: t[5].parse().unwrap(),
        }
    }
    fn v6(&self) -> bool { self.dst.is_ipv6() }
    fn channel_config(&self, size: u16, tos: u8, initseq: u16) -> ChannelConfig {
        ChannelConfig {
            privilege_mode: if self.privileged { PrivilegeMode::Privileged } else { PrivilegeMode::Unprivileged },
            protocol: self.proto,
            source_addr: self.src,
            target_addr: self.dst,
            packet_size: PacketSize(size),
            payload_pattern: PayloadPattern(self.pattern),
            initial_sequence: Sequence(initseq),
            tos: TypeOfService(tos),
            icmp_extension_parse_mode: if self.ext { IcmpExtensionParseMode::Enabled } else { IcmpExtensionParseMode::Disabled },
            read_timeout: Duration::from_millis(10),
            tcp_connect_timeout: Duration::from_millis(100_000),
        }
    }
}

// ------------------------------------------------------------------ running the real code
fn zero_time(s: &str) -> String {
    let mut t: Vec<&str> = s.split('/').collect();
    if t.len() > 1 { t[1] = "0"; }
    t.join("/")
}
thread_local! { static LAST_PANIC: std::cell::RefCell<String> = std::cell::RefCell::new(String::new()); }
fn observe(res: std::thread::Result<Result<Option<Response>, trippy_core::Error>>) -> (String, Option<Response>) {
    match res {
        Err(e) => {
            let m: String = crate::panic_msg(e).chars().map(|c| if c.is_ascii_digit() { '#' } else if c == ' ' || c == ';' { '_' } else { c }).collect();
            LAST_PANIC.with(|p| *p.borrow_mut() = m);
            ("fault:panic".to_string(), None)
        }
        Ok(Err(e)) => (format!("err:{}", ErrK::of(&e).tok()), None),
        Ok(Ok(None)) => ("none".to_string(), None),
        Ok(Ok(Some(r))) => (zero_time(&strat::render_response(&r)), Some(r)),
    }
}
fn recv_real(rc: &RCfg, from: Option<IpAddr>, bytes: &[u8]) -> (String, Option<Response>) {
    // about every third datagram is received with trace-level logging switched on (all field expressions of the logging macros are
    // then evaluated), the others with logging off
    // (decided by the datagram itself, so that a replay of the line behaves the same)
    let n = bytes.iter().fold(bytes.len() as u64, |a, b| a.wrapping_mul(31).wrapping_add(u64::from(*b)));
    crate::tracesub::set(n % 3 == 0);
    let r = recv_real_inner(rc, from, bytes);
    crate::tracesub::set(false);
    r
}

fn recv_real_inner(rc: &RCfg, from: Option<IpAddr>, bytes: &[u8]) -> (String, Option<Response>) {
    observe(catch_unwind(AssertUnwindSafe(|| {
        sim::reset();
        let mut ch = Channel::<SimSocket>::connect(&rc.channel_config(84, 0, 33434))?;
        sim::with(|w| w.readyq.push_back((bytes.to_vec(), from.map(|a| SocketAddr::new(a, 0)))));
        ch.recv_probe()
    })))
}
fn tcp_real(rc: &RCfg, outcome: &TcpOutcome, sp: u16, dp: u16) -> (String, Option<Response>) {
    observe(catch_unwind(AssertUnwindSafe(|| {
        sim::reset();
        sim::with(|w| w.tcp_outcomes.push_back(outcome.clone()));
        let mut ch = Channel::<SimSocket>::connect(&rc.channel_config(84, 0, 33434))?;
        ch.send_probe(Probe {
            sequence: Sequence(0), identifier: TraceId(0), src_port: Port(sp), dest_port: Port(dp), ttl: TimeToLive(3),
            round: RoundId(0), sent: std::time::SystemTime::now(), flags: Flags::empty(),
        })?;
        ch.recv_probe()
    })))
}

/// the strategy side (real code through the hooks): (accepted by validate + check_trace_id, sequence, trace id)
fn strategy_side(sc: &Cfg, r: &Response) -> Result<(bool, u16, u16), String> {
    let tracer = sc.build().map_err(|e| format!("build:{e}"))?;
    let h = TracerStateHandle::new(tracer.verif_strategy_config());
    let (seq, tid, _) = h.response_sequence(r.clone());
    Ok((h.accepts(r.clone()), seq, tid))
}

/// evaluate one case: output string + oracle verdict
fn judge(obs: String, resp: Option<Response>, expect: &str) -> (String, String) {
    let mut fails: Vec<String> = vec![];
    if obs == "fault:panic" {
        fails.push(format!("C04:panic:{}", LAST_PANIC.with(|p| p.borrow().clone())));
    }
    let mut out = obs.clone();
    if expect != "-" {
        let t: Vec<&str> = expect.split('=').collect();
        let sc = Cfg::parse(t[1]);
        let side = resp.as_ref().map(|r| catch_unwind(AssertUnwindSafe(|| strategy_side(&sc, r))));
        let side = match side {
            None => None,
            Some(Err(_)) => { fails.push("C04:panic_strategy_side".to_string()); None }
            Some(Ok(Err(e))) => { fails.push(format!("C02:{}", e.replace(' ', "_"))); None }
            Some(Ok(Ok(s))) => Some(s),
        };
        if let Some((acc, seq, tid)) = side {
            out = format!("{obs} acc={} seq={seq} tid={tid}", u8::from(acc));
        }
        match t[0] {
            "own" => {
                let want: u16 = t[2].parse().unwrap();
                match side {
                    None => {
                        fails.push(format!("C02:own_response_not_recognised:{}", obs.split('/').next().unwrap_or("")));
                        fails.push("C01:a_genuine_response_is_not_decoded_the_probe_would_be_reported_awaited".to_string());
                    }
                    Some((acc, seq, _)) => {
                        if let Some(x) = t.get(3).and_then(|x| x.strip_prefix('x')) {
                            let got = obs.split('/').nth(4).unwrap_or("?");
                            // "-" expected: a long quotation of a non-RFC 4884 router may be read as an EMPTY legacy structure ("+")
                            let fine = got == x || (x == "-" && got == "+") || !(obs.starts_with("te/") || obs.starts_with("du/"));
                            if !fine { fails.push(format!("C14:extensions_reported_{got}_the_router_encoded_{x}")); }
                        }
                        if !acc { fails.push("C02:own_response_rejected".to_string()); fails.push("C01:a_genuine_response_is_rejected_the_probe_would_be_reported_awaited".to_string()); }
                        if seq != want { fails.push(format!("C02:sequence_{seq}_expected_{want}")); fails.push(format!("C01:a_genuine_response_is_matched_to_sequence_{seq}_instead_of_{want}")); }
                    }
                }
            }
            _ => {
                if let Some((true, _, _)) = side {
                    fails.push(format!("C02:foreign_accepted:{}", t[2]));
                    // C03: it would complete a probe of this tracer although no probe of this tracer caused it
                    fails.push(format!("C03:a_response_that_is_not_for_a_probe_of_this_tracer_passes_the_acceptance_test:{}", t[2]));
                }
            }
        }
    }
    (out, if fails.is_empty() { "ok".to_string() } else { format!("FAIL:{}", fails.join(";")) })
}

fn recv_case(rc: &RCfg, from: Option<IpAddr>, bytes: &[u8], expect: &str, out: &mut Out) {
    let input = format!("recv {} {} {} {}", rc.render(), from.map_or("-".to_string(), |a| hex(&addr_bytes(a))), hex(bytes), expect);
    let (obs, resp) = recv_real(rc, from, bytes);
    let (o, mut v) = judge(obs, resp, expect);
    // C08: the bound "max round duration + one read timeout" rests on recv_probe waiting at most once and reading at most
    // one datagram per call, whatever the datagram is
    let (ns, nr) = sim::with(|w| (w.n_select, w.n_read));
    if ns > 1 || nr > 1 {
        let m = format!("C08:one_recv_probe_call_waited_{ns}_times_and_read_{nr}_datagrams");
        v = if v == "ok" { format!("FAIL:{m}") } else { format!("{v};{m}") };
    }
    out.case(&input, &o, &v);
}

fn outcome_tok(o: &TcpOutcome) -> String {
    match o {
        TcpOutcome::Connected(a) => format!("conn:{}", hex(&addr_bytes(*a))),
        TcpOutcome::Refused => "refused".to_string(),
        TcpOutcome::HostUnreachable(a) => format!("unreach:{}", hex(&addr_bytes(*a))),
        TcpOutcome::OtherError => "other".to_string(),
        TcpOutcome::Pending => "pending".to_string(),
    }
}
fn parse_outcome(s: &str) -> TcpOutcome {
    if let Some(a) = s.strip_prefix("conn:") { TcpOutcome::Connected(addr_from(&unhex(a))) }
    else if let Some(a) = s.strip_prefix("unreach:") { TcpOutcome::HostUnreachable(addr_from(&unhex(a))) }
    else if s == "refused" { TcpOutcome::Refused }
    else if s == "other" { TcpOutcome::OtherError }
    else { TcpOutcome::Pending }
}
fn tcp_case(rc: &RCfg, o: &TcpOutcome, sp: u16, dp: u16, expect: &str, out: &mut Out) {
    let input = format!("tcpsock {} {} {sp} {dp} {expect}", rc.render(), outcome_tok(o));
    let (obs, resp) = tcp_real(rc, o, sp, dp);
    let (o2, v) = judge(obs, resp, expect);
    out.case(&input, &o2, &v);
}

/// the bytes the real dispatch hands to `send_to` (probe shape cross-check for the C02 theorems)
#[allow(clippy::too_many_arguments)]
fn probe_case(rc: &RCfg, size: u16, tos: u8, initseq: u16, seq: u16, tid: u16, sp: u16, dp: u16, ttl: u8, flags: u8, out: &mut Out) {
    let input = format!("probe {} {size} {tos} {initseq} {seq} {tid} {sp} {dp} {ttl} {flags}", rc.render());
    let r = catch_unwind(AssertUnwindSafe(|| {
        sim::reset();
        let mut ch = Channel::<SimSocket>::connect(&rc.channel_config(size, tos, initseq)).map_err(|e| ErrK::of(&e).tok().to_string())?;
        ch.send_probe(Probe {
            sequence: Sequence(seq), identifier: TraceId(tid), src_port: Port(sp), dest_port: Port(dp), ttl: TimeToLive(ttl),
            round: RoundId(0), sent: std::time::SystemTime::UNIX_EPOCH, flags: Flags::from_bits_truncate(u32::from(flags)),
        }).map_err(|e| ErrK::of(&e).tok().to_string())?;
        sim::with(|w| w.ops.iter().rev().find_map(|o| if let Op::SendTo(_, b, _) = o { Some(b.clone()) } else { None }))
            .ok_or_else(|| "nosend".to_string())
    }));
    // oracle (model free): the identity fields sit where the RFCs put them
    match r {
        Err(_) => out.case(&input, "fault:panic", "FAIL:C02:dispatch_panic"),
        Ok(Err(e)) => out.case(&input, &format!("err:{e}"), "ok"),
        Ok(Ok(b)) => {
            let v6 = rc.v6();
            let t = if v6 || (rc.proto == Protocol::Udp && !rc.privileged) { 0 } else { 20 };
            let rd = |o: usize| u16::from_be_bytes([b[o], b[o + 1]]);
            let ok = match rc.proto {
                Protocol::Icmp => b.len() >= t + 8 && b[t] == if v6 { 128 } else { 8 } && rd(t + 4) == tid && rd(t + 6) == seq,
                Protocol::Udp if !rc.privileged => true,
                Protocol::Udp => {
                    b.len() >= t + 8 && rd(t) == sp && rd(t + 2) == dp && usize::from(rd(t + 4)) == b.len() - t
                        && (flags & 1 == 0 || rd(t + 6) == seq)
                        && (v6 || rd(4) == tid)
                        && (!(v6 && flags & 2 != 0 && flags & 1 == 0) || (b.len() - t - 8 >= 6 && &b[t + 8..t + 14] == b"trippy" && b.len() - t - 14 == usize::from(seq - initseq)))
                }
                Protocol::Tcp => true,
            };
            out.case(&input, &hex(&b), if ok { "ok" } else { "FAIL:C02:probe_identity_fields_misplaced" });
        }
    }
}

// ------------------------------------------------------------------ independent encoders
pub(crate) fn be16(v: u16) -> [u8; 2] { v.to_be_bytes() }
pub(crate) fn put16(b: &mut [u8], o: usize, v: u16) { b[o] = (v >> 8) as u8; b[o + 1] = v as u8; }
pub(crate) fn inet_sum(parts: &[&[u8]]) -> u16 {
    let mut acc: u64 = 0;
    for d in parts {
        for c in d.chunks(2) {
            acc += if c.len() == 2 { u64::from(u16::from_be_bytes([c[0], c[1]])) } else { u64::from(c[0]) << 8 };
        }
    }
    while acc > 0xFFFF { acc = (acc & 0xFFFF) + (acc >> 16); }
    !(acc as u16)
}
pub(crate) fn ip4_hdr(tos: u8, total_len: u16, id: u16, ttl: u8, proto: u8, src: &[u8], dst: &[u8], opts: &[u8]) -> Vec<u8> {
    let mut v = vec![0u8; 20];
    v[0] = 0x40 | (5 + opts.len() / 4) as u8;
    v[1] = tos;
    put16(&mut v, 2, total_len);
    put16(&mut v, 4, id);
    put16(&mut v, 6, 0x4000);
    v[8] = ttl;
    v[9] = proto;
    v[12..16].copy_from_slice(src);
    v[16..20].copy_from_slice(dst);
    v.extend_from_slice(opts);
    let c = inet_sum(&[&v]);
    put16(&mut v, 10, c);
    v
}
pub(crate) fn ip6_hdr(tc: u8, flow: u32, plen: u16, nh: u8, hop: u8, src: &[u8], dst: &[u8]) -> Vec<u8> {
    let mut v = vec![0u8; 8];
    v[0] = 0x60 | (tc >> 4);
    v[1] = (tc << 4) | ((flow >> 16) & 0xf) as u8;
    v[2] = (flow >> 8) as u8;
    v[3] = flow as u8;
    put16(&mut v, 4, plen);
    v[6] = nh;
    v[7] = hop;
    v.extend_from_slice(src);
    v.extend_from_slice(dst);
    v
}
pub(crate) fn pseudo(src: &[u8], dst: &[u8], proto: u8, len: usize) -> Vec<u8> {
    let mut v = src.to_vec();
    v.extend_from_slice(dst);
    if src.len() == 4 {
        v.extend_from_slice(&[0, proto]);
        v.extend_from_slice(&be16(len as u16));
    } else {
        v.extend_from_slice(&(len as u32).to_be_bytes());
        v.extend_from_slice(&[0, 0, 0, proto]);
    }
    v
}
/// ICMP / ICMPv6 echo (request or reply)
pub(crate) fn echo(ty: u8, id: u16, seq: u16, payload: &[u8], ps: Option<&[u8]>) -> Vec<u8> {
    let mut v = vec![ty, 0, 0, 0];
    v.extend_from_slice(&be16(id));
    v.extend_from_slice(&be16(seq));
    v.extend_from_slice(payload);
    let c = inet_sum(&[ps.unwrap_or(&[]), &v]);
    put16(&mut v, 2, c);
    v
}
pub(crate) fn udp(sp: u16, dp: u16, ck: Option<u16>, payload: &[u8], src: &[u8], dst: &[u8]) -> Vec<u8> {
    let mut v = vec![];
    v.extend_from_slice(&be16(sp));
    v.extend_from_slice(&be16(dp));
    v.extend_from_slice(&be16((8 + payload.len()) as u16));
    v.extend_from_slice(&[0, 0]);
    v.extend_from_slice(payload);
    let c = ck.unwrap_or_else(|| inet_sum(&[&pseudo(src, dst, 17, v.len()), &v]));
    put16(&mut v, 6, c);
    v
}
pub(crate) fn tcp_syn(sp: u16, dp: u16, isn: u32, opts_words: usize) -> Vec<u8> {
    let mut v = vec![0u8; 20 + 4 * opts_words];
    put16(&mut v, 0, sp);
    put16(&mut v, 2, dp);
    v[4..8].copy_from_slice(&isn.to_be_bytes());
    v[12] = ((5 + opts_words) as u8) << 4;
    v[13] = 0x02;
    put16(&mut v, 14, 64240);
    for i in 0..opts_words { v[20 + 4 * i] = 1; v[21 + 4 * i] = 1; v[22 + 4 * i] = 1; v[23 + 4 * i] = 1; }
    v
}

// ---- extension structures (RFC 4884 section 7, RFC 4950)
fn ext_object(class: u8, subtype: u8, payload: &[u8]) -> Vec<u8> {
    let mut v = be16((4 + payload.len()) as u16).to_vec();
    v.push(class);
    v.push(subtype);
    v.extend_from_slice(payload);
    v
}
fn mpls_entry(label: u32, exp: u8, bos: u8, ttl: u8) -> [u8; 4] {
    [(label >> 12) as u8, (label >> 4) as u8, ((label << 4) as u8) | (exp << 1) | bos, ttl]
}
fn ext_structure(objs: &[Vec<u8>]) -> Vec<u8> {
    let mut v = vec![0x20, 0, 0, 0];
    for o in objs { v.extend_from_slice(o); }
    let c = inet_sum(&[&v]);
    put16(&mut v, 2, c);
    v
}

/// the canonical text (format of strat::opt_exts) of an extension structure built by `ext_structure` / `ext_object` /
/// `mpls_entry` above - a decoder of this harness's OWN encoding, independent of the code under test
fn canon_of_ext_structure(b: &[u8]) -> String {
    let mut v: Vec<u8> = vec![];
    let mut i = 4;
    while i + 4 <= b.len() {
        let len = usize::from(u16::from_be_bytes([b[i], b[i + 1]]));
        let (class, sub) = (b[i + 2], b[i + 3]);
        if len < 4 || i + len > b.len() { break; }
        let payload = &b[i + 4..i + len];
        if class == 1 && sub == 1 {
            let n = payload.len() / 4;
            v.push(1); v.push((n >> 8) as u8); v.push(n as u8);
            for m in payload.chunks(4) {
                let label = (u32::from(m[0]) << 12) | (u32::from(m[1]) << 4) | u32::from(m[2] >> 4);
                v.extend([(label >> 16) as u8, (label >> 8) as u8, label as u8, (m[2] >> 1) & 7, m[2] & 1, m[3]]);
            }
        } else {
            v.push(0); v.push(class); v.push(sub); v.push((payload.len() >> 8) as u8); v.push(payload.len() as u8);
            v.extend_from_slice(payload);
        }
        i += len;
    }
    format!("+{}", if v.is_empty() { String::new() } else { hex(&v) })
}
fn rand_ext(rng: &mut Rng) -> Vec<u8> {
    let n = 1 + rng.below(3) as usize;
    let objs: Vec<Vec<u8>> = (0..n).map(|_| {
        if rng.chance(2, 3) {
            let k = 1 + rng.below(4) as usize;
            let mut p = vec![];
            for i in 0..k { p.extend_from_slice(&mpls_entry(rng.below(1 << 20) as u32, rng.below(8) as u8, u8::from(i + 1 == k), rng.next() as u8)); }
            ext_object(1, 1, &p)
        } else {
            let cl = *rng.pick(&[2u8, 3, 4, 0, 200, 255]);
            let st = rng.next() as u8;
            let pl = 4 * rng.below(4) as usize;
            ext_object(cl, st, &rng.bytes(pl))
        }
    }).collect();
    ext_structure(&objs)
}

// ------------------------------------------------------------------ probes of every configuration cell
#[derive(Clone, Debug)]
pub struct Cell { proto: Protocol, v6: bool, strat: MultipathStrategy, pd: PortDirection }
fn cells() -> Vec<Cell> {
    use MultipathStrategy::{Classic, Dublin, Paris};
    let s = PortDirection::new_fixed_src(5000);
    let d = PortDirection::new_fixed_dest(33000);
    let b = PortDirection::new_fixed_both(5000, 33000);
    let mut v = vec![];
    for v6 in [false, true] {
        v.push(Cell { proto: Protocol::Icmp, v6, strat: Classic, pd: PortDirection::None });
        for (st, pds) in [(Classic, vec![s, d]), (Paris, vec![s, d, b]), (Dublin, vec![s, d, b])] {
            for pd in pds { v.push(Cell { proto: Protocol::Udp, v6, strat: st, pd }); }
        }
        for pd in [s, d] { v.push(Cell { proto: Protocol::Tcp, v6, strat: Classic, pd }); }
    }
    v
}
fn cell_name(c: &Cell) -> String {
    format!("{}{}{}{}", match c.proto { Protocol::Icmp => "I", Protocol::Udp => "U", Protocol::Tcp => "T" }, if c.v6 { 6 } else { 4 },
        match c.strat { MultipathStrategy::Classic => "C", MultipathStrategy::Paris => "P", MultipathStrategy::Dublin => "D" },
        match c.pd { PortDirection::None => "N", PortDirection::FixedSrc(_) => "S", PortDirection::FixedDest(_) => "D", PortDirection::FixedBoth(..) => "B" })
}
/// what identifies one probe on the wire (independent restatement of the strategy's choice)
#[derive(Clone, Debug)]
struct Ident { sp: u16, dp: u16, ipid: u16, tid: u16, seq: u16, initseq: u16, flags: u8 }
fn ident(c: &Cell, tid: u16, initseq: u16, seq: u16) -> Ident {
    let round_port = initseq; // round 0
    let (fs, fd) = match c.pd {
        PortDirection::FixedSrc(s) => (s.0, round_port),
        PortDirection::FixedDest(d) => (round_port, d.0),
        PortDirection::FixedBoth(s, d) => (s.0, d.0),
        PortDirection::None => (0, 0),
    };
    match (c.proto, c.strat) {
        (Protocol::Icmp, _) => Ident { sp: 0, dp: 0, ipid: 0, tid, seq, initseq, flags: 0 },
        (Protocol::Udp, MultipathStrategy::Classic) | (Protocol::Tcp, _) => match c.pd {
            PortDirection::FixedSrc(s) => Ident { sp: s.0, dp: seq, ipid: 0, tid: 0, seq, initseq, flags: 0 },
            _ => Ident { sp: seq, dp: fd, ipid: 0, tid: 0, seq, initseq, flags: 0 },
        },
        (Protocol::Udp, MultipathStrategy::Paris) => Ident { sp: fs, dp: fd, ipid: 0, tid: 0, seq, initseq, flags: 1 },
        (Protocol::Udp, MultipathStrategy::Dublin) => Ident { sp: fs, dp: fd, ipid: seq, tid: seq, seq, initseq, flags: 2 },
    }
}
/// the datagram as it leaves this host (IP header included), `size` = configured packet size
fn probe_dgram(c: &Cell, rc: &RCfg, id: &Ident, ttl: u8, tos: u8, size: usize, rng: &mut Rng) -> Vec<u8> {
    let src = addr_bytes(rc.src);
    let dst = addr_bytes(rc.dst);
    let iph = if c.v6 { 40 } else { 20 };
    let transport: Vec<u8> = match c.proto {
        Protocol::Icmp => {
            let payload = vec![rc.pattern; size - iph - 8];
            if c.v6 { let n = 8 + payload.len(); echo(128, id.tid, id.seq, &payload, Some(&pseudo(&src, &dst, 58, n))) } else { echo(8, id.tid, id.seq, &payload, None) }
        }
        Protocol::Udp => match c.strat {
            MultipathStrategy::Paris => {
                // payload chosen so that the correct checksum is the sequence
                let with_seq = udp(id.sp, id.dp, None, &be16(id.seq), &src, &dst);
                let c0 = [with_seq[6], with_seq[7]];
                udp(id.sp, id.dp, Some(id.seq), &c0, &src, &dst)
            }
            MultipathStrategy::Dublin if c.v6 => {
                let mut p = b"trippy".to_vec();
                p.extend(vec![rc.pattern; usize::from(id.seq - id.initseq)]);
                udp(id.sp, id.dp, None, &p, &src, &dst)
            }
            _ => udp(id.sp, id.dp, None, &vec![rc.pattern; size - iph - 8], &src, &dst),
        },
        Protocol::Tcp => tcp_syn(id.sp, id.dp, rng.next() as u32, *rng.pick(&[0usize, 5, 10])),
    };
    let mut v = if c.v6 {
        ip6_hdr(if rc.privileged { 0 } else { tos }, rng.below(1 << 20) as u32, transport.len() as u16, match c.proto { Protocol::Icmp => 58, Protocol::Udp => 17, Protocol::Tcp => 6 }, ttl, &src, &dst)
    } else {
        ip4_hdr(tos, (20 + transport.len()) as u16, id.ipid, ttl, match c.proto { Protocol::Icmp => 1, Protocol::Udp => 17, Protocol::Tcp => 6 }, &src, &dst, &[])
    };
    v.extend(transport);
    v
}

// ------------------------------------------------------------------ the other end of the wire
#[derive(Clone, Debug)]
pub(crate) enum ExtForm { Absent, Rfc4884(Vec<u8>), Legacy(Vec<u8>) }
#[derive(Clone, Debug)]
pub(crate) struct Peer { pub router: Vec<u8>, pub du_code: Option<u8>, pub n: usize, pub ttl2: u8, pub tos2: u8, pub ext: ExtForm, pub outer_opt_words: usize }
#[derive(Clone, Debug, Default)]
pub(crate) struct Offs { icmp: usize, len_byte: usize, nested: usize, ext: Option<usize> }

/// ICMP Time Exceeded / Destination Unreachable quoting `dgram` (RFC 792 / 1812 / 4443 / 4884)
pub(crate) fn quote(v6: bool, me: &[u8], p: &Peer, dgram: &[u8]) -> (Vec<u8>, Offs) {
    let mut d = dgram.to_vec();
    if v6 {
        d[7] = p.ttl2;
        d[0] = 0x60 | (p.tos2 >> 4);
        d[1] = (d[1] & 0x0f) | (p.tos2 << 4);
    } else {
        d[8] = p.ttl2;
        d[1] = p.tos2;
        put16(&mut d, 10, 0);
        let ihl = usize::from(d[0] & 0xf) * 4;
        let c = inet_sum(&[&d[..ihl.min(d.len())]]);
        put16(&mut d, 10, c);
    }
    let mut q = d[..p.n.min(d.len())].to_vec();
    let unit = if v6 { 8 } else { 4 };
    let (len_byte, ext): (u8, Option<&Vec<u8>>) = match &p.ext {
        ExtForm::Absent => (0, None),
        ExtForm::Rfc4884(e) => {
            while q.len() < 128 || q.len() % unit != 0 { q.push(0); }
            ((q.len() / unit) as u8, Some(e))
        }
        ExtForm::Legacy(e) => { q.resize(128, 0); (0, Some(e)) }
    };
    let mut icmp = vec![0u8; 8];
    let (te, du) = if v6 { (3, 1) } else { (11, 3) };
    match p.du_code { None => { icmp[0] = te; } Some(c) => { icmp[0] = du; icmp[1] = c; } }
    let lb = if v6 { 4 } else { 5 };
    icmp[lb] = len_byte;
    icmp.extend_from_slice(&q);
    let ext_off = ext.map(|_| icmp.len());
    if let Some(e) = ext { icmp.extend_from_slice(e); }
    let mut offs = Offs { icmp: 0, len_byte: lb, nested: 8, ext: ext_off };
    if v6 {
        let c = inet_sum(&[&pseudo(&p.router, me, 58, icmp.len()), &icmp]);
        put16(&mut icmp, 2, c);
        (icmp, offs)
    } else {
        let c = inet_sum(&[&icmp]);
        put16(&mut icmp, 2, c);
        let opts = vec![1u8; 4 * p.outer_opt_words];
        let mut v = ip4_hdr(0xc0, (20 + opts.len() + icmp.len()) as u16, 7, 250, 1, &p.router, me, &opts);
        let h = v.len();
        v.extend(icmp);
        offs.icmp = h;
        offs.len_byte += h;
        offs.nested += h;
        offs.ext = offs.ext.map(|e| e + h);
        (v, offs)
    }
}
pub(crate) fn echo_reply(v6: bool, me: &[u8], target: &[u8], id: u16, seq: u16, payload: &[u8], outer_opt_words: usize) -> Vec<u8> {
    if v6 {
        echo(129, id, seq, payload, Some(&pseudo(target, me, 58, 8 + payload.len())))
    } else {
        let e = echo(0, id, seq, payload, None);
        let opts = vec![1u8; 4 * outer_opt_words];
        let mut v = ip4_hdr(0, (20 + opts.len() + e.len()) as u16, 9, 55, 1, target, me, &opts);
        v.extend(e);
        v
    }
}

fn rand_unicast(rng: &mut Rng, v6: bool) -> IpAddr {
    if v6 {
        let mut b = rng.bytes(16);
        b[0] = 0x20; b[1] = 0x01;
        addr_from(&b)
    } else {
        let mut b = rng.bytes(4);
        b[0] = 1 + (b[0] % 222);
        addr_from(&b)
    }
}
fn strat_cfg(c: &Cell, rc: &RCfg, tid: u16, initseq: u16) -> Cfg {
    Cfg {
        proto: c.proto, strategy: c.strat, portdir: c.pd, target: rc.dst, trace_id: tid, max_rounds: 1, first_ttl: 1, max_ttl: 30,
        grace_ns: 0, max_inflight: 24, initial_sequence: initseq, min_ns: 0, max_ns: 1_000_000, max_samples: 256, max_flows: 64,
    }
}
fn rand_rcfg(rng: &mut Rng, c: &Cell) -> RCfg {
    RCfg {
        proto: c.proto, privileged: c.proto == Protocol::Tcp || rng.chance(4, 5) || c.strat != MultipathStrategy::Classic, ext: rng.chance(1, 2),
        src: rand_unicast(rng, c.v6), dst: rand_unicast(rng, c.v6), pattern: *rng.pick(&[0u8, 0, 0x55, 0xff, 0x74]),
    }
}
fn rand_peer(rng: &mut Rng, c: &Cell, rc: &RCfg, dlen: usize) -> Peer {
    let min_n = if c.v6 { dlen.min(1232) } else { 28 };
    let extra = 28 + rng.below(40) as usize;
    let n = if c.v6 { min_n } else { *rng.pick(&[28usize, 28, extra, 128, 548, dlen, dlen + 10]) }.max(min_n);
    let from_target = rng.chance(1, 4);
    Peer {
        router: if from_target { addr_bytes(rc.dst) } else { addr_bytes(rand_unicast(rng, c.v6)) },
        du_code: if rng.chance(1, 3) { Some(*rng.pick(&[0u8, 1, 3, 3, 4, 13])) } else { None },
        n, ttl2: *rng.pick(&[1u8, 1, 0, 2, 255]), tos2: *rng.pick(&[0u8, 0, 0x10, 0xb8, 0xff, 0x03]),
        ext: match rng.below(4) { 0 | 1 => ExtForm::Absent, 2 => ExtForm::Rfc4884(rand_ext(rng)), _ => ExtForm::Legacy(rand_ext(rng)) },
        outer_opt_words: if c.v6 { 0 } else { *rng.pick(&[0usize, 0, 0, 1, 10]) },
    }
}

struct Counters { seqsweep: usize, own: usize, foreign: usize, mutated: usize, truncated: usize, random: usize, sweep: usize, tcp: usize, probe: usize, per_cell: std::collections::BTreeMap<String, usize> }

/// one valid response for a probe of cell `c`; returns (cfg, bytes, from, expect, offsets, datagram)
fn valid_response(rng: &mut Rng, c: &Cell) -> (RCfg, Vec<u8>, Option<IpAddr>, String, Offs, Vec<u8>, Peer, Ident) {
    let rc = rand_rcfg(rng, c);
    let tid = 1 + rng.below(65535) as u16;
    let mut initseq = *rng.pick(&[33434u16, 33434, 0, 1, 64511, 60000]);
    // only initial sequences the REAL builder accepts for this cell (it refuses 0 for Paris over IPv6)
    if strat_cfg(c, &rc, tid, initseq).build().is_err() { initseq = 1; }
    let span = if c.v6 && c.proto == Protocol::Udp && c.strat == MultipathStrategy::Dublin { 512 } else { 1024 };
    let seq = if rng.chance(1, 6) { initseq } else { initseq.saturating_add(rng.below(span) as u16).min(65534) };
    let id = ident(c, tid, initseq, seq);
    let iph = if c.v6 { 40 } else { 20 };
    let near_buffer = 900 + rng.below(117) as usize;   // messages of 985..1024 octets (quotation + extension) reach the end of the receive buffer
    let size = *rng.pick(&[iph + 8, iph + 8, iph + 9, 84, 84, 200, 1024, near_buffer, near_buffer]).max(&(iph + 8));
    let d = probe_dgram(c, &rc, &id, *rng.pick(&[1u8, 2, 30, 255]), *rng.pick(&[0u8, 0, 0x10, 0xfc]), size, rng);
    let peer = rand_peer(rng, c, &rc, d.len());
    let (b, offs) = quote(c.v6, &addr_bytes(rc.src), &peer, &d);
    let from = if c.v6 { Some(addr_from(&peer.router)) } else { None };
    // what the tracer must report as extensions (C14): everything the router encoded when parsing is enabled and the message
    // fits the 1024-octet receive buffer; nothing when parsing is disabled or no structure was sent
    let ext_expect = match &peer.ext {
        _ if !rc.ext => Some("-".to_string()),
        ExtForm::Absent => Some("-".to_string()),
        ExtForm::Rfc4884(e) | ExtForm::Legacy(e) => if b.len() <= 1024 { Some(canon_of_ext_structure(e)) } else { None },
    };
    let expect = match ext_expect {
        Some(x) => format!("own={}={}=x{}", strat_cfg(c, &rc, tid, initseq).render(), seq, x),
        None => format!("own={}={}", strat_cfg(c, &rc, tid, initseq).render(), seq),
    };
    (rc, b, from, expect, offs, d, peer, id)
}

const BOUNDARY16: [u16; 14] = [0, 1, 2, 3, 4, 5, 6, 7, 8, 9, 13, 14, 1024, 65535];


// ------------------------------------------------------------------ unprivileged UDP: the kernel builds the headers
/// does the real `Builder::build` accept this UDP cell in unprivileged mode?
fn builder_accepts_unprivileged(c: &Cell) -> bool {
    let target = addr_from(&if c.v6 { vec![0x20, 1, 0x0d, 0xb8, 0, 0, 0, 0, 0, 0, 0, 0, 0, 0, 0, 2] } else { vec![10, 0, 0, 2] });
    trippy_core::Builder::new(target)
        .privilege_mode(PrivilegeMode::Unprivileged)
        .protocol(c.proto)
        .multipath_strategy(c.strat)
        .port_direction(c.pd)
        .build()
        .is_ok()
}
/// run the real unprivileged dispatch and let a simulated kernel assemble the datagram from what the datagram
/// socket was given: bind port, destination port, ttl / hop limit, tos, payload (checksum computed, IP id the kernel's)
#[allow(clippy::too_many_arguments)]
fn unprivileged_dgram(rc: &RCfg, id: &Ident, size: u16, tos: u8, ttl: u8, kernel_ipid: u16, flow: u32) -> Option<Vec<u8>> {
    let r = catch_unwind(AssertUnwindSafe(|| {
        sim::reset();
        let mut ch = Channel::<SimSocket>::connect(&rc.channel_config(size, tos, id.initseq)).ok()?;
        ch.send_probe(Probe {
            sequence: Sequence(id.seq), identifier: TraceId(id.tid), src_port: Port(id.sp), dest_port: Port(id.dp), ttl: TimeToLive(ttl),
            round: RoundId(0), sent: std::time::SystemTime::UNIX_EPOCH, flags: Flags::from_bits_truncate(u32::from(id.flags)),
        }).ok()?;
        sim::with(|w| {
            let (sock, payload, remote) = w.ops.iter().rev().find_map(|o| if let Op::SendTo(s, b, a) = o { Some((*s, b.clone(), *a)) } else { None })?;
            let local = w.ops.iter().find_map(|o| match o { Op::Bind(s, a) if *s == sock => Some(*a), _ => None })?;
            let hops = w.ops.iter().find_map(|o| match o {
                Op::SetTtl(s, v) if *s == sock => Some(*v as u8),
                Op::SetUnicastHopsV6(s, v) if *s == sock => Some(*v),
                _ => None,
            })?;
            Some((local, remote, hops, payload))
        })
    }));
    let (local, remote, hops, payload) = r.ok()??;
    let src = addr_bytes(local.ip());
    let dst = addr_bytes(remote.ip());
    let u = udp(local.port(), remote.port(), None, &payload, &src, &dst);
    let mut v = if rc.v6() { ip6_hdr(0, flow, u.len() as u16, 17, hops, &src, &dst) } else { ip4_hdr(tos, (20 + u.len()) as u16, kernel_ipid, hops, 17, &src, &dst, &[]) };
    v.extend(u);
    Some(v)
}


/// the datagram the REAL privileged dispatch puts on the wire for this probe (IPv6: the kernel adds the IP header)
fn real_dgram(rc: &RCfg, id: &Ident, size: u16, tos: u8, ttl: u8, flow: u32) -> Option<Vec<u8>> {
    let r = catch_unwind(AssertUnwindSafe(|| {
        sim::reset();
        let mut ch = Channel::<SimSocket>::connect(&rc.channel_config(size, tos, id.initseq)).ok()?;
        ch.send_probe(Probe {
            sequence: Sequence(id.seq), identifier: TraceId(id.tid), src_port: Port(id.sp), dest_port: Port(id.dp), ttl: TimeToLive(ttl),
            round: RoundId(0), sent: std::time::SystemTime::UNIX_EPOCH, flags: Flags::from_bits_truncate(u32::from(id.flags)),
        }).ok()?;
        sim::with(|w| w.ops.iter().rev().find_map(|o| if let Op::SendTo(_, b, _) = o { Some(b.clone()) } else { None }))
    }));
    let b = r.ok()??;
    if rc.v6() {
        let nh = if rc.proto == Protocol::Icmp { 58 } else { 17 };
        let mut v = ip6_hdr(0, flow, b.len() as u16, nh, ttl, &addr_bytes(rc.src), &addr_bytes(rc.dst));
        v.extend(b);
        Some(v)
    } else {
        Some(b)
    }
}


/// an outcome of the receive socket other than a datagram: select error, read error, spurious wake-up, timeout
fn sockerr_case(rc: &RCfg, what: &str, out: &mut Out) {
    let input = format!("sockerr {} {what}", rc.render());
    let (obs, _) = observe(catch_unwind(AssertUnwindSafe(|| {
        sim::reset();
        let mut ch = Channel::<SimSocket>::connect(&rc.channel_config(84, 0, 33434))?;
        sim::with(|w| match what {
            "select" => w.inject.push((sim::Call::Select, 0, std::io::ErrorKind::PermissionDenied)),
            "read" => {
                w.readyq.push_back((vec![0u8; 64], None));
                w.inject.push((sim::Call::Read, 0, std::io::ErrorKind::PermissionDenied));
            }
            "wouldblock" => {
                w.readyq.push_back((vec![0u8; 64], None));
                w.inject.push((sim::Call::Read, 0, std::io::ErrorKind::WouldBlock));
            }
            _ => {}
        });
        ch.recv_probe()
    })));
    let mut fails = vec![];
    if obs == "fault:panic" { fails.push("C04:panic:receive_socket_outcome".to_string()); }
    // C09: a fatal error of the receive socket must come back as an error value (it ends the run), never be swallowed
    if (what == "select" || what == "read") && !obs.starts_with("err:") {
        fails.push(format!("C09:fatal_receive_socket_error_swallowed:{what}"));
    }
    if (what == "wouldblock" || what == "timeout") && obs != "none" {
        fails.push(format!("C09:receive_timeout_not_reported_as_no_response:{what}"));
    }
    out.case(&input, &obs, &if fails.is_empty() { "ok".to_string() } else { format!("FAIL:{}", fails.join(";")) });
}


/// several datagrams delivered to ONE channel, in order (state kept inside the channel between datagrams must not matter)
fn recvseq_tagged(rc: &RCfg, from: Option<IpAddr>, list: &[Vec<u8>], unrewritten_dublin4: bool, out: &mut Out) {
    recvseq_case(rc, from, list, if unrewritten_dublin4 { "dublin4" } else { "-" }, out)
}
fn recvseq_case(rc: &RCfg, from: Option<IpAddr>, list: &[Vec<u8>], tag: &str, out: &mut Out) {
    let unrewritten_dublin4 = tag == "dublin4";
    let rewritten_dublin4 = tag == "dublin4nat";
    let port_rewritten_dublin4 = tag == "dublin4natport";
    let input = format!("recvseq {} {} {} {tag}", rc.render(), from.map_or("-".to_string(), |a| hex(&addr_bytes(a))),
        list.iter().map(|b| hex(b)).collect::<Vec<_>>().join(","));
    let r = catch_unwind(AssertUnwindSafe(|| {
        sim::reset();
        let mut ch = match Channel::<SimSocket>::connect(&rc.channel_config(84, 0, 33434)) { Ok(c) => c, Err(e) => return vec![format!("err:{}", ErrK::of(&e).tok())] };
        let mut v = vec![];
        for b in list {
            sim::with(|w| { w.readyq.push_back((b.clone(), from.map(|a| SocketAddr::new(a, 0)))); w.n_select = 0; w.n_read = 0; });
            let (o, _) = observe(catch_unwind(AssertUnwindSafe(|| ch.recv_probe())));
            let (ns, nr) = sim::with(|w| (w.n_select, w.n_read));
            v.push(if ns > 1 || nr > 1 { format!("{o}!waits{ns}reads{nr}") } else { o });
        }
        v
    }));
    let obs = match r { Ok(v) => v, Err(_) => vec!["fault:panic".to_string()] };
    let mut fails = vec![];
    for (i, o) in obs.iter().enumerate() {
        if o == "fault:panic" { fails.push(format!("C04:panic:datagram_{i}_of_a_sequence")); }
        if unrewritten_dublin4 {
            // C19: the probe crossed no rewriting device, so the recomputed (expected) and the quoted (actual) checksum agree
            let t: Vec<&str> = o.split('/').collect();
            match t.iter().position(|x| *x == "u") {
                Some(k) if t.len() > k + 7 => {
                    if t[k + 6] != t[k + 7] { fails.push(format!("C19:nat_would_be_shown_on_an_unrewritten_path:datagram_{i}:expected_{}_quoted_{}", t[k + 6], t[k + 7])); }
                }
                _ => fails.push(format!("C02:own_response_not_recognised:datagram_{i}")),
            }
        }
        if port_rewritten_dublin4 {
            // C19: a device rewrote only the source PORT (and fixed the UDP checksum): the quoted checksum differs from the one the
            // probe was sent with, so the first responding hop beyond the device must see a difference
            let t: Vec<&str> = o.split('/').collect();
            if let Some(k) = t.iter().position(|x| *x == "u") {
                if t.len() > k + 7 && t[k + 6] == t[k + 7] {
                    fails.push(format!("C19:source_port_rewritten_datagram_{i}_shows_no_checksum_difference:expected_{}_quoted_{}", t[k + 6], t[k + 7]));
                }
            }
        }
        if rewritten_dublin4 {
            // C19: a device rewrote the source address (and fixed the UDP checksum): the quoted checksum differs from the one
            // the probe was sent with, and the recomputed (expected) value must be that of the probe AS SENT
            let t: Vec<&str> = o.split('/').collect();
            if let Some(k) = t.iter().position(|x| *x == "u") {
                if t.len() > k + 7 && t[k + 6] == t[k + 7] {
                    fails.push(format!("C19:rewritten_datagram_{i}_shows_no_checksum_difference:expected_{}_quoted_{}", t[k + 6], t[k + 7]));
                }
            }
        }
    }
    out.case(&input, &obs.join("|"), &if fails.is_empty() { "ok".to_string() } else { format!("FAIL:{}", fails.join(";")) });
}


/// the array of pending TCP probe sockets over time: ops = S<sp>.<dp>.<outcome> (dispatch a probe whose socket will have this
/// outcome), T<ns> (time passes), R (recv_probe).  The observable is the result of every op.
fn tcpseq_case(rc: &RCfg, timeout_ms: u64, ops: &[String], out: &mut Out) {
    // every S / R op is recorded with the clock reading at which it ran (receiving consumes the read timeout)
    let stamped = std::cell::RefCell::new(Vec::<String>::new());
    crate::vclock::enable(crate::vclock::BASE_NS);
    let r = catch_unwind(AssertUnwindSafe(|| {
        sim::reset();
        let mut cfg = rc.channel_config(84, 0, 33434);
        cfg.tcp_connect_timeout = Duration::from_millis(timeout_ms);
        let mut ch = match Channel::<SimSocket>::connect(&cfg) { Ok(c) => c, Err(e) => return vec![format!("err:{}", ErrK::of(&e).tok())] };
        let mut v = vec![];
        for op in ops {
            let op = op.split('@').next().unwrap().to_string();
            let op = &op;
            stamped.borrow_mut().push(if op.starts_with('T') || op.starts_with('Q') || op.starts_with('B') { op.clone() } else { format!("{op}@{}", crate::vclock::now() - crate::vclock::BASE_NS) });
            match op.as_bytes()[0] {
                b'S' => {
                    let t: Vec<&str> = op[1..].split('.').collect();
                    sim::with(|w| w.tcp_outcomes.push_back(parse_outcome(t[2])));
                    let r = ch.send_probe(Probe {
                        sequence: Sequence(0), identifier: TraceId(0), src_port: Port(t[0].parse().unwrap()), dest_port: Port(t[1].parse().unwrap()), ttl: TimeToLive(3),
                        round: RoundId(0), sent: std::time::SystemTime::now(), flags: Flags::empty(),
                    });
                    v.push(match r { Ok(()) => "sent".to_string(), Err(e) => format!("err:{}", ErrK::of(&e).tok()) });
                }
                b'T' => { crate::vclock::advance(op[1..].parse().unwrap()); v.push("t".to_string()); }
                b'B' => {
                    // the wall clock is set BACK (never before the start of the line)
                    let now = crate::vclock::now();
                    let d: u64 = op[1..].parse().unwrap();
                    crate::vclock::set(now - d.min(now - crate::vclock::BASE_NS));
                    v.push("b".to_string());
                }
                b'Q' => {
                    // an ICMP datagram arrives on the receive socket: Q<from hex or ->:<bytes hex>
                    let (f, b) = op[1..].split_once(':').unwrap();
                    let from = if f == "-" { None } else { Some(SocketAddr::new(addr_from(&unhex(f)), 0)) };
                    sim::with(|w| w.readyq.push_back((unhex(b), from)));
                    v.push("q".to_string());
                }
                _ => { let (o, _) = observe(catch_unwind(AssertUnwindSafe(|| ch.recv_probe()))); v.push(o); }
            }
        }
        v
    }));
    crate::vclock::disable();
    let input = format!("tcpseq {} {timeout_ms} {}", rc.render(), stamped.borrow().join(","));
    let obs = match r { Ok(v) => v, Err(_) => vec!["fault:panic".to_string()] };
    // oracle (model free): a response names the ports of a probe that was dispatched with a non-pending outcome and not yet
    // reported; no probe is reported twice
    let mut fails = vec![];
    let mut reported: Vec<(String, String)> = vec![];
    let sent: Vec<(String, String, String)> = ops.iter().filter(|o| o.starts_with('S')).map(|o| { let o = o.split('@').next().unwrap(); let t: Vec<&str> = o[1..].split('.').collect(); (t[0].to_string(), t[1].to_string(), t[2].to_string()) }).collect();
    let any_queued = ops.iter().any(|o| o.starts_with('Q'));
    for o in &obs {
        if o == "fault:panic" { fails.push("C04:panic:tcp_socket_array".to_string()); }
        let t: Vec<&str> = o.split('/').collect();
        if let Some(k) = t.iter().position(|x| *x == "t") {
            // (reports read from the ICMP socket name the ports of the quoted probe, which was not dispatched in this line)
            if t.len() > k + 3 && (o.starts_with("tf/") || !any_queued) {
                let key = (t[k + 2].to_string(), t[k + 3].to_string());
                if reported.contains(&key) { fails.push(format!("C02:tcp_probe_{}_{}_reported_twice", key.0, key.1)); }
                if !sent.iter().any(|(sp, dp, oc)| *sp == key.0 && *dp == key.1 && oc != "pending") { fails.push(format!("C02:tcp_response_for_ports_{}_{}_that_no_answered_probe_used", key.0, key.1)); }
                reported.push(key);
            }
        }
    }
    // every datagram that arrived on the ICMP socket is still consumed by exactly one receive call that found no TCP socket
    // ready: with enough trailing receive calls nothing may be left queued, and as many reports carry an ICMP kind as
    // quotations of own probes arrived
    let queued = ops.iter().filter(|o| o.starts_with('Q')).count();
    let trailing_r = ops.iter().rev().take_while(|o| o.starts_with('R')).count();
    let left = sim::with(|w| w.readyq.len());
    let icmp_reports = obs.iter().filter(|o| (o.starts_with("te/") || o.starts_with("du/")) && !o.contains("/t/")).count()
        + obs.iter().filter(|o| (o.starts_with("te/") || o.starts_with("du/")) && o.contains("/t/")).count();
    let socket_reports = sent.iter().filter(|(_, _, oc)| oc.starts_with("unreach")).count();
    if queued > 0 && obs.first().map_or(true, |o| !o.starts_with("err:")) && !obs.iter().any(|o| o == "fault:panic") && trailing_r >= queued + sent.len() + 1 {
        if left != 0 { fails.push(format!("C02:{left}_of_{queued}_arrived_datagrams_never_read")); }
        if icmp_reports + socket_reports < queued && icmp_reports < queued { fails.push(format!("C02:only_{icmp_reports}_reports_for_{queued}_quotations_of_own_probes_that_arrived")); }
    }
    out.case(&input, &obs.join("|"), &if fails.is_empty() { "ok".to_string() } else { format!("FAIL:{}", fails.join(";")) });
}


/// two datagrams are waiting, the first one is not a probe response: ONE recv_probe call consumes one datagram and returns
fn twoqueued_case(rc: &RCfg, from: Option<IpAddr>, first: &[u8], second: &[u8], out: &mut Out) {
    let input = format!("recv2 {} {} {} {}", rc.render(), from.map_or("-".to_string(), |a| hex(&addr_bytes(a))), hex(first), hex(second));
    let (obs, _) = observe(catch_unwind(AssertUnwindSafe(|| {
        sim::reset();
        let mut ch = Channel::<SimSocket>::connect(&rc.channel_config(84, 0, 33434))?;
        sim::with(|w| { for b in [first, second] { w.readyq.push_back((b.to_vec(), from.map(|a| SocketAddr::new(a, 0)))); } });
        ch.recv_probe()
    })));
    let (ns, nr, left) = sim::with(|w| (w.n_select, w.n_read, w.readyq.len()));
    let mut fails = vec![];
    if obs == "fault:panic" { fails.push("C04:panic:two_queued_datagrams".to_string()); }
    if ns > 1 || nr > 1 || left != 1 { fails.push(format!("C08:one_recv_probe_call_waited_{ns}_times_read_{nr}_datagrams_left_{left}_queued")); }
    out.case(&input, &format!("{obs} left={left}"), &if fails.is_empty() { "ok".to_string() } else { format!("FAIL:{}", fails.join(";")) });
}

pub fn run(args: &Args, out: &mut Out) {
    crate::tracesub::install();
    if let Some(path) = &args.replay {
        for l in crate::replay_inputs(path) {
            let t: Vec<&str> = l.split(' ').collect();
            match t[0] {
                "recv" => recv_case(&RCfg::parse(t[1]), if t[2] == "-" { None } else { Some(addr_from(&unhex(t[2]))) }, &unhex(t[3]), t.get(4).copied().unwrap_or("-"), out),
                "recvseq" => {
                    let rc = RCfg::parse(t[1]);
                    let from = if t[2] == "-" { None } else { Some(addr_from(&unhex(t[2]))) };
                    let list: Vec<Vec<u8>> = t[3].split(',').map(unhex).collect();
                    recvseq_case(&rc, from, &list, t.get(4).copied().unwrap_or("-"), out);
                }
                "tcpseq" => tcpseq_case(&RCfg::parse(t[1]), t[2].parse().unwrap(), &t[3].split(',').map(ToString::to_string).collect::<Vec<_>>(), out),
                "recv2" => twoqueued_case(&RCfg::parse(t[1]), if t[2] == "-" { None } else { Some(addr_from(&unhex(t[2]))) }, &unhex(t[3]), &unhex(t[4]), out),
                "sockerr" => sockerr_case(&RCfg::parse(t[1]), t[2], out),
                "tcpsock" => tcp_case(&RCfg::parse(t[1]), &parse_outcome(t[2]), t[3].parse().unwrap(), t[4].parse().unwrap(), t.get(5).copied().unwrap_or("-"), out),
                "probe" => probe_case(&RCfg::parse(t[1]), t[2].parse().unwrap(), t[3].parse().unwrap(), t[4].parse().unwrap(), t[5].parse().unwrap(), t[6].parse().unwrap(),
                    t[7].parse().unwrap(), t[8].parse().unwrap(), t[9].parse().unwrap(), t[10].parse().unwrap(), out),
                _ => {}
            }
        }
        return;
    }
    let thorough = args.tier_thorough;
    let mut rng = Rng::new(args.seed);
    let mut k = Counters { seqsweep: 0, own: 0, foreign: 0, mutated: 0, truncated: 0, random: 0, sweep: 0, tcp: 0, probe: 0, per_cell: Default::default() };
    let all = cells();

    // ---- (i) structure aware: valid responses of every cell (C02 own), foreign variants, mutations, truncations
    let reps = if thorough { 400 } else { 40 };
    for c in &all {
        for rep in 0..reps {
            let (rc, b, from, expect, offs, d, peer, id) = valid_response(&mut rng, c);
            recv_case(&rc, from, &b, &expect, out);
            k.own += 1;
            *k.per_cell.entry(cell_name(c)).or_default() += 1;
            // Echo Reply from the target (ICMP only)
            if c.proto == Protocol::Icmp && rep % 4 == 0 {
                let er = echo_reply(c.v6, &addr_bytes(rc.src), &addr_bytes(rc.dst), id.tid, id.seq, &d[if c.v6 { 48 } else { 28 }..], peer.outer_opt_words);
                recv_case(&rc, if c.v6 { Some(rc.dst) } else { None }, &er, &expect, out);
                k.own += 1;
            }
            // foreign: one identity facet of the quoted datagram differs
            let sc = expect.split('=').nth(1).unwrap().to_string();
            let iph = if c.v6 { 40 } else { 20 };
            let mut foreign: Vec<(&str, Vec<u8>)> = vec![];
            {
                let mut f = d.clone();
                let o = if c.v6 { 24 + rng.below(16) as usize } else { 16 + rng.below(4) as usize };
                f[o] ^= 1 << rng.below(8);
                foreign.push((if c.proto == Protocol::Icmp { "icmp_other_dest" } else { "dest" }, f));
                let mut f = d.clone();
                let po = if c.v6 { 6 } else { 9 };
                f[po] = *rng.pick(&[1u8, 6, 17, 58, 47, 0, 255]);
                if f[po] != d[po] { foreign.push(("proto", f)); }
                if c.proto != Protocol::Icmp {
                    // the fixed port(s)
                    let (fs, fd) = match c.pd { PortDirection::FixedSrc(_) => (true, false), PortDirection::FixedDest(_) => (false, true), _ => (true, true) };
                    if fs { let mut f = d.clone(); f[iph + 1] ^= 1 << rng.below(8); foreign.push(("src_port", f)); }
                    if fd { let mut f = d.clone(); f[iph + 3] ^= 1 << rng.below(8); foreign.push(("dest_port", f)); }
                } else {
                    let mut f = d.clone();
                    f[iph + 4] ^= 1 << rng.below(8);
                    if u16::from_be_bytes([f[iph + 4], f[iph + 5]]) != 0 { foreign.push(("trace_id", f)); }
                }
                if c.v6 && c.proto == Protocol::Udp && c.strat == MultipathStrategy::Dublin {
                    let mut f = d.clone();
                    f[iph + 8 + rng.below(6) as usize] ^= 0x20;
                    foreign.push(("magic", f));
                }
            }
            if rep % 2 == 0 {
                for (facet, f) in foreign {
                    let (fb, _) = quote(c.v6, &addr_bytes(rc.src), &peer, &f);
                    recv_case(&rc, from, &fb, &format!("foreign={sc}={facet}"), out);
                    k.foreign += 1;
                }
                // another sender's datagram to the same target and ports whose payload is NOT the marker, quoted by a router that cuts
                // the quotation inside (or right before) the payload: what is quoted of the payload is a prefix of the marker
                if c.v6 && c.proto == Protocol::Udp && c.strat == MultipathStrategy::Dublin && d.len() >= iph + 14 {
                    let cut = rng.below(6) as usize;
                    let mut f = d.clone();
                    f[iph + 8 + cut] ^= 0x20;
                    let p2 = Peer { n: iph + 8 + cut, ext: ExtForm::Absent, ..peer.clone() };
                    let (fb, _) = quote(c.v6, &addr_bytes(rc.src), &p2, &f);
                    recv_case(&rc, from, &fb, &format!("foreign={sc}=marker_cut_after_{cut}_octets"), out);
                    k.foreign += 1;
                }
            }
            // mutate one length / offset / protocol field
            let mut fields: Vec<(usize, usize)> = vec![]; // (offset, width)
            if !c.v6 { fields.extend([(0, 1), (2, 2), (9, 1)]); }
            fields.extend([(offs.icmp, 1), (offs.icmp + 1, 1), (offs.len_byte, 1)]);
            if c.v6 { fields.extend([(offs.nested, 1), (offs.nested + 4, 2), (offs.nested + 6, 1), (offs.nested + 44, 2)]); }
            else { fields.extend([(offs.nested, 1), (offs.nested + 2, 2), (offs.nested + 9, 1), (offs.nested + 24, 2)]); }
            if let Some(e) = offs.ext { fields.extend([(e, 1), (e + 4, 2), (e + 6, 1)]); }
            let nmut = if thorough { 12 } else { 6 };
            for _ in 0..nmut {
                let (o, w) = *rng.pick(&fields);
                if o + w > b.len() { continue; }
                let mut m = b.clone();
                if w == 1 {
                    m[o] = if rng.chance(1, 2) { rng.next() as u8 } else { *rng.pick(&[0u8, 1, 0x40, 0x45, 0x46, 0x4f, 0x0f, 0xff, 3, 11, 17, 6, 58, 32, 63, 64, 128]) };
                } else {
                    let v = if rng.chance(1, 2) { rng.next() as u16 } else { *rng.pick(&BOUNDARY16) };
                    put16(&mut m, o, v);
                }
                recv_case(&rc, from, &m, "-", out);
                k.mutated += 1;
            }
            // truncate at every position (first repetitions of each cell), else at a few
            if rep < (if thorough { 8 } else { 2 }) {
                for l in 0..b.len() { recv_case(&rc, from, &b[..l], "-", out); k.truncated += 1; }
            } else {
                for _ in 0..3 { let l = rng.below(b.len() as u64) as usize; recv_case(&rc, from, &b[..l], "-", out); k.truncated += 1; }
            }
        }
    }

    // ---- (i-b) the sequence domain: every sequence (thorough) or the boundary set (quick), minimal quotation, every cell
    {
        let boundary: Vec<u16> = vec![0, 1, 2, 254, 255, 256, 257, 32767, 32768, 33434, 64511, 65023, 65533, 65534];
        for c in &all {
            let rc = RCfg { proto: c.proto, privileged: true, ext: false,
                src: addr_from(&if c.v6 { vec![0x20, 1, 0x0d, 0xb8, 0, 0, 0, 0, 0, 0, 0, 0, 0, 0, 0, 1] } else { vec![10, 0, 0, 1] }),
                dst: addr_from(&if c.v6 { vec![0x20, 1, 0x0d, 0xb8, 0, 0, 0, 0, 0, 0, 0, 0, 0, 0, 0, 2] } else { vec![10, 0, 0, 2] }), pattern: 0 };
            let router = if c.v6 { vec![0x20, 1, 0x0d, 0xb8, 0, 0, 0, 0, 0, 0, 0, 0, 0, 0, 0, 9] } else { vec![10, 0, 0, 9] };
            let dublin6 = c.v6 && c.proto == Protocol::Udp && c.strat == MultipathStrategy::Dublin;
            let mut initseq: u16 = if dublin6 { 33434 } else { 0 };
            // only initial sequences the REAL builder accepts for this cell (it refuses 0 for Paris over IPv6)
            if strat_cfg(c, &rc, 4660, initseq).build().is_err() { initseq = 1; }
            let seqs: Vec<u16> = if dublin6 {
                if thorough { (33434..=33434 + 940).collect() } else { vec![33434, 33435, 33434 + 255, 33434 + 256, 33434 + 940] }
            } else if thorough { (0..=65534).collect() } else { boundary.clone() };
            let sc = strat_cfg(c, &rc, 4660, initseq).render();
            let iph = if c.v6 { 40 } else { 20 };
            for seq in seqs {
                if seq < initseq { continue; }
                let id = ident(c, 4660, initseq, seq);
                let d = probe_dgram(c, &rc, &id, 1, 0, iph + 8, &mut rng);
                let peer = Peer { router: router.clone(), du_code: None, n: if c.v6 { d.len() } else { 28 }, ttl2: 1, tos2: 0, ext: ExtForm::Absent, outer_opt_words: 0 };
                let (b, _) = quote(c.v6, &addr_bytes(rc.src), &peer, &d);
                recv_case(&rc, if c.v6 { Some(addr_from(&router)) } else { None }, &b, &format!("own={sc}={seq}"), out);
                k.seqsweep += 1;
            }
        }
    }

    // ---- (i-c) unprivileged UDP, every cell the REAL builder accepts in that mode: the real non-raw dispatch, a kernel that
    //      builds the headers, a conforming router.  (Classic carries the sequence in a port; Paris / Dublin cannot carry it.)
    {
        let reps = if thorough { 60 } else { 8 };
        let mut n = 0usize;
        for c in all.iter().filter(|c| c.proto == Protocol::Udp) {
            if !builder_accepts_unprivileged(c) { continue; }
            for _ in 0..reps {
                let mut rc = rand_rcfg(&mut rng, c);
                rc.privileged = false;
                let tid = 1 + rng.below(65535) as u16;
                let initseq = *rng.pick(&[33434u16, 33434, 1, 60000]);
                let seq = initseq + rng.below(500) as u16;
                let id = ident(c, tid, initseq, seq);
                let iph = if c.v6 { 40 } else { 20 };
                let size = *rng.pick(&[iph + 8, iph + 9, 84, 200]) as u16;
                let Some(d) = unprivileged_dgram(&rc, &id, size, *rng.pick(&[0u8, 0x10]), *rng.pick(&[1u8, 2, 30]), rng.next() as u16, rng.below(1 << 20) as u32) else { continue };
                let peer = rand_peer(&mut rng, c, &rc, d.len());
                let (b, _) = quote(c.v6, &addr_bytes(rc.src), &peer, &d);
                let from = if c.v6 { Some(addr_from(&peer.router)) } else { None };
                recv_case(&rc, from, &b, &format!("own={}={}", strat_cfg(c, &rc, tid, initseq).render(), seq), out);
                n += 1;
            }
        }
        out.stat("unprivileged_udp_roundtrips", &n.to_string());
    }

    // ---- (i-d) the loop closed on the bytes the REAL dispatch emits (privileged ICMP / UDP cells): dispatch -> router quotes -> receive
    {
        let mut n = 0usize;
        for c in all.iter().filter(|c| c.proto != Protocol::Tcp) {
            let dublin6 = c.v6 && c.proto == Protocol::Udp && c.strat == MultipathStrategy::Dublin;
            let offs: Vec<u16> = if thorough { (0..=764).collect() } else { vec![0, 1, 2, 255, 256, 257, 510, 511, 512, 513, 600, 700, 763, 764] };
            for &off in &offs {
                let mut rc = rand_rcfg(&mut rng, c);
                rc.privileged = true;
                let tid = 1 + rng.below(65535) as u16;
                let initseq = *rng.pick(&[33434u16, 1, 64000]);
                let seq = initseq + off;
                let id = ident(c, tid, initseq, seq);
                let iph = if c.v6 { 40 } else { 20 };
                let size = *rng.pick(&[iph + 8, iph + 9, 84, 200]) as u16;
                let Some(d) = real_dgram(&rc, &id, size, *rng.pick(&[0u8, 0x10]), *rng.pick(&[1u8, 2, 30]), rng.below(1 << 20) as u32) else { continue };
                let peer = rand_peer(&mut rng, c, &rc, d.len());
                let (b, _) = quote(c.v6, &addr_bytes(rc.src), &peer, &d);
                let from = if c.v6 { Some(addr_from(&peer.router)) } else { None };
                recv_case(&rc, from, &b, &format!("own={}={}", strat_cfg(c, &rc, tid, initseq).render(), seq), out);
                n += 1;
                let _ = dublin6;
            }
        }
        out.stat("real_dispatch_roundtrips", &n.to_string());
    }

    // ---- receive socket outcomes other than a datagram, every cell: select error, read error, spurious wake-up, timeout
    for c in &all {
        for what in ["select", "read", "wouldblock", "timeout"] {
            let rc = rand_rcfg(&mut rng, c);
            sockerr_case(&rc, what, out);
        }
    }

    // ---- several datagrams on ONE channel: the rounds of a trace as the receive path sees them (the non-fixed port changes from
    //      round to round, ttl / sequence from probe to probe); Dublin over IPv4 without any rewriting device: expected = quoted checksum
    {
        let mut n = 0usize;
        for c in &all {
            for _ in 0..(if thorough { 40 } else { 6 }) {
                let mut rc = rand_rcfg(&mut rng, c);
                rc.privileged = true;
                let tid = 1 + rng.below(65535) as u16;
                let initseq = *rng.pick(&[33434u16, 1, 60000]);
                let dublin4 = c.proto == Protocol::Udp && !c.v6 && c.strat == MultipathStrategy::Dublin;
                let mut list = vec![];
                let mut from = None;
                let iph = if c.v6 { 40 } else { 20 };
                let size = *rng.pick(&[iph + 8, iph + 9, 84, 200]);
                for round in 0..4u16 {
                    for k in 0..2u16 {
                        let seq = initseq + round * 7 + k;
                        let mut id = ident(c, tid, initseq, seq);
                        // the port that is not fixed is the round's port
                        if c.proto == Protocol::Udp && c.strat != MultipathStrategy::Classic {
                            match c.pd { PortDirection::FixedSrc(_) => id.dp = initseq + round * 7, PortDirection::FixedDest(_) => id.sp = initseq + round * 7, _ => {} }
                        }
                        let d = if c.proto == Protocol::Tcp { probe_dgram(c, &rc, &id, 1 + k as u8, 0, size, &mut rng) }
                            else { match real_dgram(&rc, &id, size as u16, 0, 1 + k as u8, 7) { Some(d) => d, None => continue } };
                        let peer = rand_peer(&mut rng, c, &rc, d.len());
                        let (b, _) = quote(c.v6, &addr_bytes(rc.src), &peer, &d);
                        if c.v6 { from = Some(addr_from(&peer.router)); }
                        list.push(b);
                    }
                }
                if list.is_empty() { continue; }
                let input_tag = dublin4;
                // the tag is part of the line so that a replay applies the same oracle
                let input_from = from;
                recvseq_tagged(&rc, input_from, &list, input_tag, out);
                n += 1;
                if dublin4 {
                    // the same probes after a source NAT: new source address in the quoted IP header, UDP checksum recomputed for it
                    let nat_src = [198u8, 51, 100, 1 + rng.below(200) as u8];
                    let mut list2 = vec![];
                    for round in 0..2u16 {
                        let seq = initseq + round * 7;
                        let mut id = ident(c, tid, initseq, seq);
                        match c.pd { PortDirection::FixedSrc(_) => id.dp = initseq + round * 7, PortDirection::FixedDest(_) => id.sp = initseq + round * 7, _ => {} }
                        let Some(mut d) = real_dgram(&rc, &id, size as u16, 0, 3, 7) else { continue };
                        if d.len() < 28 { continue; }
                        d[12..16].copy_from_slice(&nat_src);
                        d[26] = 0; d[27] = 0;
                        let dst = d[16..20].to_vec();
                        let ck = { let u = &d[20..]; let c = inet_sum(&[&pseudo(&nat_src, &dst, 17, u.len()), u]); if c == 0 { 0xffff } else { c } };
                        put16(&mut d, 26, ck);
                        let peer = rand_peer(&mut rng, c, &rc, d.len());
                        let (b, _) = quote(false, &addr_bytes(rc.src), &peer, &d);
                        list2.push(b);
                    }
                    if !list2.is_empty() { recvseq_case(&rc, None, &list2, "dublin4nat", out); n += 1; }
                    // a device that rewrites only the source port (same address): visible to the tracer only where the source port is
                    // not the fixed one (a response with another source port than the fixed one is not accepted at all)
                    if let PortDirection::FixedDest(_) = c.pd {
                        let mut list3 = vec![];
                        for round in 0..2u16 {
                            let seq = initseq + round * 7;
                            let mut id = ident(c, tid, initseq, seq);
                            id.sp = initseq + round * 7;
                            let Some(mut d) = real_dgram(&rc, &id, size as u16, 0, 3, 7) else { continue };
                            if d.len() < 28 { continue; }
                            let np = id.sp ^ 0x0101;
                            put16(&mut d, 20, np);
                            d[26] = 0; d[27] = 0;
                            let (src, dst) = (d[12..16].to_vec(), d[16..20].to_vec());
                            let ck = { let u = &d[20..]; let c = inet_sum(&[&pseudo(&src, &dst, 17, u.len()), u]); if c == 0 { 0xffff } else { c } };
                            put16(&mut d, 26, ck);
                            let peer = rand_peer(&mut rng, c, &rc, d.len());
                            let (b, _) = quote(false, &addr_bytes(rc.src), &peer, &d);
                            list3.push(b);
                        }
                        if !list3.is_empty() { recvseq_case(&rc, None, &list3, "dublin4natport", out); n += 1; }
                    }
                }
            }
        }
        out.stat("multi_datagram_sequences", &n.to_string());
    }

    // ---- the array of pending TCP probe sockets over time (dispatch, time passing, receive), both families
    {
        let mut n = 0usize;
        for c in all.iter().filter(|c| c.proto == Protocol::Tcp) {
            for _ in 0..(if thorough { 300 } else { 30 }) {
                let rc = rand_rcfg(&mut rng, c);
                let timeout_ms = *rng.pick(&[1u64, 5, 1000]);
                let mut ops = vec![];
                let mut port = 33000u16 + rng.below(100) as u16;
                for _ in 0..(3 + rng.below(12)) {
                    match rng.below(5) {
                        0 | 1 => {
                            let peer = if c.v6 { "20010db8000000000000000000000009" } else { "0a000009" };
                            let oc = match rng.below(6) { 0 => "pending".to_string(), 1 => "refused".to_string(), 2 => format!("conn:{peer}"), 3 => format!("unreach:{peer}"), 4 => "other".to_string(), _ => "pending".to_string() };
                            port += 1;
                            let (sp, dp) = match c.pd { PortDirection::FixedSrc(s) => (s.0, port), _ => (port, 80) };
                            ops.push(format!("S{sp}.{dp}.{oc}"));
                        }
                        2 if rng.chance(1, 5) => ops.push(format!("B{}", *rng.pick(&[1_000u64, 900_000, 5_000_000, 2_000_000_000, 9_000_000_000]))),
                        2 => ops.push(format!("T{}", *rng.pick(&[1_000u64, 900_000, 1_000_000, 4_999_999, 5_000_000, 6_000_000, 2_000_000_000]))),
                        3 if rng.chance(1, 2) => {
                            // a router's Time Exceeded / Unreachable quoting one of this tracer's TCP probes arrives on the ICMP socket
                            let seq = 33434 + rng.below(50) as u16;
                            let id = ident(c, 0, 33434, seq);
                            let d = probe_dgram(c, &rc, &id, 1 + rng.below(5) as u8, 0, 60, &mut rng);
                            let peer = rand_peer(&mut rng, c, &rc, d.len());
                            let (b, _) = quote(c.v6, &addr_bytes(rc.src), &peer, &d);
                            let from = if c.v6 { hex(&peer.router) } else { "-".to_string() };
                            ops.push(format!("Q{from}:{}", hex(&b)));
                        }
                        _ => ops.push("R".to_string()),
                    }
                }
for _ in 0..ops.len() + 2 { ops.push("R".to_string()); }
                tcpseq_case(&rc, timeout_ms, &ops, out);
                n += 1;
            }
        }
        // the array is bounded: 256 pending probes, the 257th is a capacity error
        for v6 in [false, true] {
            if let Some(c) = all.iter().find(|c| c.proto == Protocol::Tcp && c.v6 == v6) {
                let rc = rand_rcfg(&mut rng, c);
                let mut ops: Vec<String> = (0..258).map(|i| format!("S5000.{}.pending", 34000 + i)).collect();
                ops.push("R".to_string());
                tcpseq_case(&rc, 100_000, &ops, out);
                n += 1;
            }
        }
        out.stat("tcp_socket_array_sequences", &n.to_string());
    }

    // ---- an unrelated datagram in front of a genuine response: one recv_probe call, one datagram (every cell)
    for c in &all {
        for _ in 0..(if thorough { 20 } else { 2 }) {
            let (rc, b, from, _expect, _offs, _d, _peer, _id) = valid_response(&mut rng, c);
            // an ICMP message that is nobody's probe response: echo request to this host (IPv4 carries the IP header)
            let noise: Vec<u8> = if c.v6 { echo(128, 9, 9, &[0u8; 8], Some(&pseudo(&addr_bytes(rc.dst), &addr_bytes(rc.src), 58, 16))) }
                else { let e = echo(8, 9, 9, &[0u8; 8], None); let mut v = ip4_hdr(0, (20 + e.len()) as u16, 1, 64, 1, &addr_bytes(rc.dst), &addr_bytes(rc.src), &[]); v.extend(e); v };
            twoqueued_case(&rc, from, &noise, &b, out);
        }
    }

    // ---- (ii) fully random bytes (random lengths, plus ICMP-looking prefixes)
    let nrand = if thorough { 200_000 } else { 12_000 };
    for i in 0..nrand {
        let c = rng.pick(&all).clone();
        let rc = rand_rcfg(&mut rng, &c);
        let len = match rng.below(6) { 0 => rng.below(30) as usize, 1 => 20 + rng.below(60) as usize, 2 => 1024 + rng.below(40) as usize, _ => rng.below(300) as usize };
        let mut b = rng.bytes(len);
        if i % 2 == 0 && !b.is_empty() {
            // steer into the interesting branches
            if c.v6 { b[0] = *rng.pick(&[3u8, 1, 129, 128]); if b.len() > 1 && rng.chance(1, 2) { b[1] = 0; } }
            else { b[0] = 0x40 | *rng.pick(&[5u8, 5, 5, 6, 15, 0]); let o = usize::from(b[0] & 0xf).max(5) * 4; if b.len() > o + 1 { b[o] = *rng.pick(&[11u8, 3, 0, 8]); if rng.chance(1, 2) { b[o + 1] = 0; } } }
        }
        let from = if c.v6 { if rng.chance(1, 50) { None } else { Some(rand_unicast(&mut rng, true)) } } else { None };
        recv_case(&rc, from, &b, "-", out);
        k.random += 1;
    }

    // ---- (iii) exhaustive sweeps of every length-like field against buffer lengths
    let max_len = if thorough { 1024 } else { 160 };
    for c in &all {
        // one long template per cell: quoted datagram of 128+ octets and an extension structure with an MPLS object
        if !(c.pd == PortDirection::None || (c.pd == PortDirection::new_fixed_src(5000) && c.strat == MultipathStrategy::Classic)) { continue; }
        let mut rc = rand_rcfg(&mut rng, c);
        let id = ident(c, 77, 33434, 33500);
        let d = probe_dgram(c, &rc, &id, 1, 0, if thorough { 1000 } else { 200 }, &mut rng);
        let peer = Peer { router: addr_bytes(rand_unicast(&mut rng, c.v6)), du_code: None, n: d.len(), ttl2: 1, tos2: 0,
            ext: ExtForm::Rfc4884(ext_structure(&[ext_object(1, 1, &[mpls_entry(16, 0, 0, 1), mpls_entry(17, 1, 1, 2)].concat()), ext_object(2, 3, &[9, 9, 9, 9])])), outer_opt_words: 0 };
        for ext_on in [true, false] {
            rc.ext = ext_on;
            for du in [None, Some(3u8)] {
                let mut p = peer.clone();
                p.du_code = du;
                if !thorough { p.n = 60; }
                let (b, offs) = quote(c.v6, &addr_bytes(rc.src), &p, &d);
                let from = if c.v6 { Some(addr_from(&p.router)) } else { None };
                let full = ext_on && du.is_none();
                let lset: Vec<usize> = [offs.len_byte + 1, offs.nested, offs.nested + 8, offs.nested + 20, offs.nested + 27, offs.nested + 28, offs.nested + 40, offs.nested + 47, offs.nested + 48, offs.nested + 60,
                    offs.nested + 127, offs.nested + 128, offs.nested + 129, offs.nested + 131, offs.nested + 132, offs.nested + 136, b.len() - 1, b.len()].into_iter().filter(|l| *l <= b.len()).collect();
                let lens: Vec<usize> = if full { (0..=max_len.min(b.len())).collect() } else { lset.clone() };
                let mut sweeps: Vec<(usize, usize, Vec<u16>)> = vec![];
                if !c.v6 { sweeps.push((0, 1, (0..16).map(|i| 0x40 | i).collect())); }
                if c.v6 { sweeps.push((offs.nested + 4, 2, BOUNDARY16.to_vec())); sweeps.push((offs.nested + 44, 2, BOUNDARY16.to_vec())); }
                else { sweeps.push((offs.nested, 1, (0..16).map(|i| 0x40 | i).collect())); sweeps.push((offs.nested + 24, 2, vec![0, 1, 2, 3, 4, 5, 6, 7, 8, 9, 65535])); }
                if let Some(e) = offs.ext { sweeps.push((e + 4, 2, vec![0, 1, 3, 4, 5, 7, 8, 12, 13, 20, 21, 24, 1024, 65535])); sweeps.push((e + 16, 2, vec![0, 3, 4, 8, 65535])); }
                for (o, w, vals) in sweeps {
                    for v in vals {
                        let mut m = b.clone();
                        if w == 1 { m[o] = v as u8; } else { put16(&mut m, o, v); }
                        for &l in &lens { recv_case(&rc, from, &m[..l], "-", out); k.sweep += 1; }
                    }
                }
                // RFC 4884 length byte 0..255 against a boundary set of lengths (quick) or every length (thorough)
                let lset: Vec<usize> = if thorough && c.proto == Protocol::Udp { let mut v: Vec<usize> = (0..=300.min(b.len())).collect(); v.extend(lset.iter().filter(|l| **l > 300)); v } else { lset };
                if ext_on || du.is_some() {
                    for v in 0..=255u8 {
                        let mut m = b.clone();
                        m[offs.len_byte] = v;
                        for &l in &lset { if l <= m.len() { recv_case(&rc, from, &m[..l], "-", out); k.sweep += 1; } }
                    }
                }
            }
        }
    }

    // ---- TCP socket outcomes (recv_tcp_socket)
    for c in all.iter().filter(|c| c.proto == Protocol::Tcp) {
        for _ in 0..(if thorough { 200 } else { 20 }) {
            let rc = rand_rcfg(&mut rng, c);
            let initseq = 33434u16;
            let seq = initseq + rng.below(500) as u16;
            let id = ident(c, 0, initseq, seq);
            let sc = strat_cfg(c, &rc, 0, initseq).render();
            let router = rand_unicast(&mut rng, c.v6);
            for o in [TcpOutcome::Connected(rc.dst), TcpOutcome::Refused, TcpOutcome::HostUnreachable(router)] {
                tcp_case(&rc, &o, id.sp, id.dp, &format!("own={sc}={seq}"), out);
                k.tcp += 1;
            }
            tcp_case(&rc, &TcpOutcome::OtherError, id.sp, id.dp, "-", out);
            tcp_case(&rc, &TcpOutcome::Pending, id.sp, id.dp, "-", out);
            k.tcp += 2;
        }
    }

    // ---- probe shapes: what the real dispatch puts on the wire for each cell
    for c in all.iter().filter(|c| c.proto != Protocol::Tcp) {
        for _ in 0..(if thorough { 100 } else { 10 }) {
            let rc = rand_rcfg(&mut rng, c);
            let initseq = *rng.pick(&[33434u16, 0, 64000]);
            let seq = initseq + *rng.pick(&[0u16, 1, 255, 256, 511, 512, 513, 700, 764]) .max(&(rng.below(765) as u16));
            let id = ident(c, 1 + rng.below(65535) as u16, initseq, seq);
            let iph = if c.v6 { 40 } else { 20 };
            let size = *rng.pick(&[iph + 8, iph + 9, 84, 1024]);
            probe_case(&rc, size as u16, *rng.pick(&[0u8, 0x10, 0xff]), initseq, seq, id.tid, id.sp, id.dp, *rng.pick(&[1u8, 64, 255]), id.flags, out);
            k.probe += 1;
        }
    }

    out.stat("own_valid_responses", k.own);
    out.stat("sequence_domain_cases", k.seqsweep);
    out.stat("sequence_domain", if thorough { "every sequence 0..=65534 per cell (Dublin/IPv6: initial..initial+940)" } else { "boundary set per cell" });
    out.stat("foreign_quotations", k.foreign);
    out.stat("single_field_mutations", k.mutated);
    out.stat("truncations", k.truncated);
    out.stat("random_byte_strings", k.random);
    out.stat("field_x_length_sweep_cases", k.sweep);
    out.stat("tcp_socket_outcomes", k.tcp);
    out.stat("probe_shape_cases", k.probe);
    out.stat("cells", k.per_cell.iter().map(|(c, n)| format!("{c}:{n}")).collect::<Vec<_>>().join(","));
    out.stat("sweep_buffer_lengths", format!("0..={max_len}"));
}
