//! Shared generator for the strategy state machine (model A): closed-loop simulated traces.
use crate::rng::Rng;
use crate::simnet::{rand_addr, Hop, Knobs, SimEnv};
use crate::oracles::{self, Truth};
use crate::strat::{exec, exec_replay, parse_iters, render_iters, Cfg, Iter, RecvO, RunOut};
use crate::vclock;
use crate::{Args, Out};
use trippy_core::{MultipathStrategy, PortDirection, Protocol};

pub fn gen_cfg(rng: &mut Rng) -> Cfg {
    let proto = *rng.pick(&[Protocol::Icmp, Protocol::Icmp, Protocol::Udp, Protocol::Udp, Protocol::Tcp]);
    let v6 = rng.chance(1, 3);
    let target = rand_addr(rng, v6);
    let sp = 1024 + rng.below(60000) as u16;
    let dp = 1 + rng.below(65000) as u16;
    let (strategy, portdir) = match proto {
        Protocol::Icmp => (*rng.pick(&[MultipathStrategy::Classic, MultipathStrategy::Classic, MultipathStrategy::Dublin]), PortDirection::None),
        Protocol::Udp => match rng.below(8) {
            0 => (MultipathStrategy::Classic, PortDirection::new_fixed_src(sp)),
            1 => (MultipathStrategy::Classic, PortDirection::new_fixed_dest(dp)),
            2 => (MultipathStrategy::Paris, PortDirection::new_fixed_src(sp)),
            3 => (MultipathStrategy::Paris, PortDirection::new_fixed_dest(dp)),
            4 => (MultipathStrategy::Paris, PortDirection::new_fixed_both(sp, dp)),
            5 => (MultipathStrategy::Dublin, PortDirection::new_fixed_src(sp)),
            6 => (MultipathStrategy::Dublin, PortDirection::new_fixed_dest(dp)),
            _ => (MultipathStrategy::Dublin, PortDirection::new_fixed_both(sp, dp)),
        },
        Protocol::Tcp => if rng.chance(1, 2) { (MultipathStrategy::Classic, PortDirection::new_fixed_src(sp)) } else { (MultipathStrategy::Classic, PortDirection::new_fixed_dest(dp)) },
    };
    let first_ttl = *rng.pick(&[1u8, 1, 1, 2, 3, 5, 10, 30]);
    let mut max_ttl = first_ttl.saturating_add(*rng.pick(&[0u8, 1, 3, 8, 20, 40])).min(254);
    let mut max_inflight = *rng.pick(&[1u8, 2, 3, 5, 24, 24, 100, 255]);
    // configurations the library builder accepts although no probe can ever be sent (the command line refuses them): every round
    // is then an empty round that still has to end by the timing policy, be published and counted
    match rng.below(40) {
        0 => max_ttl = first_ttl.saturating_sub(1 + rng.below(3) as u8),
        1 => max_inflight = 0,
        _ => {}
    }
    let initial_sequence = *rng.pick(&[0u16, 1, 33434, 33434, 33434, 63999, 64000, 64257, 64258, 64400, 64510, 64511]);
    let ms = 1_000_000u64;
    let min_ns = *rng.pick(&[0, ms, 5 * ms, 20 * ms]);
    let max_ns = min_ns + *rng.pick(&[0, ms, 10 * ms, 50 * ms]);
    let grace_ns = *rng.pick(&[0, ms / 2, 2 * ms, 10 * ms]);
    Cfg {
        proto, strategy, portdir, target,
        trace_id: if rng.chance(1, 10) { 0 } else { 1 + rng.below(65534) as u16 },
        max_rounds: 1 + rng.below(6) as usize,
        first_ttl, max_ttl, grace_ns, max_inflight, initial_sequence, min_ns, max_ns,
        max_samples: 256, max_flows: 64,
    }
}

pub fn gen_env(rng: &mut Rng, cfg: &Cfg, knobs: Knobs) -> (SimEnv, std::rc::Rc<std::cell::RefCell<Vec<crate::simnet::Delivery>>>) {
    let v6 = cfg.target.is_ipv6();
    let dist = 1 + rng.below(12) as usize + if rng.chance(1, 4) { usize::from(cfg.first_ttl) } else { 0 };
    let ms = 1_000_000u64;
    let mk = |rng: &mut Rng, i: usize| Hop {
        addr: rand_addr(rng, v6),
        silent: rng.chance(1, 6),
        delay_ns: *rng.pick(&[0, ms / 10, ms, 3 * ms, 15 * ms, 80 * ms]) + (i as u64) * 1000,
        dup: rng.chance(1, 8),
        every: if rng.chance(1, 10) { 2 } else { 1 },
        seen: 0,
    };
    let path: Vec<Hop> = (0..dist).map(|i| mk(rng, i)).collect();
    let alt: Vec<Hop> = if rng.chance(1, 4) { (0..dist + rng.below(3) as usize).map(|i| mk(rng, i)).collect() } else { vec![] };
    let deliveries = std::rc::Rc::new(std::cell::RefCell::new(vec![]));
    let env = SimEnv {
        cfg: cfg.clone(), rng: rng.fork(), path, alt_path: alt, target_dist: dist,
        target_answers: rng.chance(4, 5), pending: vec![],
        read_timeout_ns: *rng.pick(&[ms / 10, ms, 10 * ms]), send_cost_ns: *rng.pick(&[0, 1000, 100_000]),
        iter_budget: 400, iters: 0, knobs, deliveries: deliveries.clone(), round: 0, sent_seqs: std::collections::HashMap::new(), use_alt: false, burst_left: 0,
    };
    (env, deliveries)
}

pub fn case_line(cfg: &Cfg, out: &RunOut, truth: &Truth) -> String {
    format!("run {} {} {} {}", cfg.render(), out.t0, render_iters(&out.iters), oracles::render_truth(truth))
}

/// C03 oracle: replace every delivery that is not the first genuine answer to a probe of the round in
/// progress by a timeout, replay through the real code, and demand the same sends and rounds.
pub fn c03_filter(out: &RunOut, truth: &Truth) -> (Vec<Iter>, usize) {
    let mut iters = out.iters.clone();
    let mut round = 0usize;
    let mut answered: std::collections::HashSet<u16> = std::collections::HashSet::new();
    let mut k = 0usize;
    let mut removed = 0usize;
    let mut sent_this_round: std::collections::HashSet<u16> = std::collections::HashSet::new();
    let mut si = 0usize;
    for it in iters.iter_mut() {
        for o in &it.sends {
            if let Some((p, _)) = out.sends.get(si) {
                if *o == crate::strat::SendO::Sent { sent_this_round.insert(p.sequence.0); }
            }
            si += 1;
        }
        if let RecvO::Resp(_) = &it.recv {
            let g = truth.get(k).copied().flatten();
            k += 1;
            let genuine = matches!(g, Some((s, r)) if r == round && sent_this_round.contains(&s) && !answered.contains(&s));
            if genuine {
                answered.insert(g.unwrap().0);
            } else {
                it.recv = RecvO::Timeout;
                removed += 1;
            }
        }
        if it.published {
            round += 1;
            answered.clear();
            sent_this_round.clear();
        }
    }
    (iters, removed)
}

pub fn full_oracle(cfg: &Cfg, r: &RunOut, truth: &Truth, stable: bool) -> String {
    let mut fails = oracles::evaluate(cfg, r, Some(truth), stable);
    if !r.result.starts_with("fault") {
        let (filtered, removed) = c03_filter(r, truth);
        if removed > 0 {
            let r2 = exec_replay(cfg, r.t0, filtered);
            let (a, b) = (r.render(), r2.render());
            if a != b {
                fails.push(format!("C03:dropping {removed} non-genuine deliveries changes the trace"));
            }
        }
    } else {
        fails.push("C04:panic in the strategy loop".to_string());
        fails.push("C16:panic in the strategy loop".to_string());
        // C07: exhausting the sequence budget must end with a capacity error, never an out-of-bounds access
        fails.push("C07:panic in the strategy loop (round buffer / sequence arithmetic)".to_string());
    }
    // C01: the per-hop totals in the snapshot are the sums of the published outcomes
    if let Some(st) = &r.snapshot {
        let rounds: Vec<crate::m_state::RoundIn> = r.rounds.iter().map(|x| crate::m_state::RoundIn { probes: x.probes.clone(), largest_ttl: x.largest_ttl, tf: x.reason == trippy_core::CompletionReason::TargetFound }).collect();
        let st2 = st.clone();
        let extra = std::panic::catch_unwind(std::panic::AssertUnwindSafe(|| crate::m_state::totals_oracle(&st2, &rounds, cfg.max_samples)));
        match extra {
            Ok(v) => fails.extend(v.into_iter().map(|m| m.replacen("C05:", "C01:totals:", 1))),
            Err(_) => fails.push("C10:panic_querying_the_snapshot".to_string()),
        }
    }
    oracles::verdict(&fails)
}

pub fn run(args: &Args, out: &mut Out) {
    vclock::enable(vclock::BASE_NS);
    if let Some(path) = &args.replay {
        for l in crate::replay_inputs(path) {
            let t: Vec<&str> = l.split(' ').collect();
            if t[0] != "run" { continue; }
            let cfg = Cfg::parse(t[1]);
            let r = exec_replay(&cfg, t[2].parse().unwrap(), parse_iters(t[3]));
            let truth = oracles::parse_truth(t.get(4).copied().unwrap_or("-"));
            let has_truth = t.len() > 4;
            let orc = if has_truth { full_oracle(&cfg, &r, &truth, false) } else { oracles::verdict(&oracles::evaluate(&cfg, &r, None, false)) };
            out.case(&l, &r.render(), &orc);
        }
        return;
    }
    let mut rng = Rng::new(args.seed ^ 0xA11CE);
    let n = args.n.unwrap_or(if args.tier_thorough { 20000 } else { 1500 });
    for _ in 0..n {
        let cfg = gen_cfg(&mut rng);
        let knobs = match if cfg.proto == Protocol::Tcp { rng.below(5) } else { rng.below(4) } {
            4 => Knobs { p_inuse_burst: 200, inuse_burst_max: *rng.pick(&[2u64, 5, 9, 20, 40, 600]), p_send_failed: 10, ..Knobs::default() },
            0 => Knobs::default(),
            1 => Knobs { p_inject_foreign: 100, p_inject_neversent: 100, p_clock_stepped_back: 30, ..Knobs::default() },
            2 => Knobs { p_send_failed: 60, p_send_inuse: if cfg.proto == Protocol::Tcp { 150 } else { 5 }, p_slow_publish: 400, ..Knobs::default() },
            _ => Knobs { p_send_failed: 20, p_send_inuse: if cfg.proto == Protocol::Tcp { 50 } else { 0 }, p_send_fatal: 5, p_recv_fatal: 5,
                         p_inject_foreign: 30, p_inject_neversent: 30, p_ecmp_flip: 50, ..Knobs::default() },
        };
        let injected = knobs.p_inject_foreign > 0 || knobs.p_inject_neversent > 0;
        let (env, deliv) = gen_env(&mut rng, &cfg, knobs);
        let stable = env.alt_path.is_empty() && !injected;
        let t0 = vclock::BASE_NS + rng.below(1_000_000_000);
        vclock::set(t0);
        let tick = *rng.pick(&[0u64, 0, 1, 1000]);
        let r = exec(&cfg, Box::new(env), t0, tick);
        let truth: Truth = deliv.borrow().iter().map(|d| d.truth).collect();
        let orc = full_oracle(&cfg, &r, &truth, stable);
        out.case(&case_line(&cfg, &r, &truth), &r.render(), &orc);
    }
    // long runs over a stable path that answers with a delay: many rounds after the target distance is established, across the point
    // where the sequence numbers start over (initial sequence at the largest accepted value; Dublin over IPv6 starts over every 512)
    let nlong = if args.tier_thorough { 40 } else { 6 };
    for i in 0..nlong {
        let mut cfg = gen_cfg(&mut rng);
        cfg.first_ttl = 1;
        cfg.max_ttl = 30;
        cfg.max_inflight = *rng.pick(&[3u8, 6, 24]);
        cfg.max_rounds = 100 + rng.below(40) as usize;
        cfg.initial_sequence = if i % 2 == 0 { 64511 - rng.below(8) as u16 } else { cfg.initial_sequence.min(64000) };
        if i % 2 == 1 { cfg.proto = Protocol::Udp; cfg.strategy = MultipathStrategy::Dublin; cfg.portdir = PortDirection::new_fixed_src(5000); cfg.target = rand_addr(&mut rng, true); }
        // (an IPv4-mapped IPv6 target is an IPv6 target: same wrap of the sequence every 512)
        if i % 4 == 3 { cfg.target = std::net::IpAddr::V6(std::net::Ipv6Addr::new(0, 0, 0, 0, 0, 0xffff, 0x0a00 | rng.below(256) as u16, 1 + rng.below(60000) as u16)); }
        let ms = 1_000_000u64;
        cfg.min_ns = 5 * ms;
        cfg.max_ns = 40 * ms;
        cfg.grace_ns = 2 * ms;
        let (mut env, deliv) = gen_env(&mut rng, &cfg, Knobs::default());
        env.alt_path.clear();
        env.target_answers = true;
        env.target_dist = env.target_dist.clamp(3, 8);
        env.path.truncate(env.target_dist);
        while env.path.len() < env.target_dist { let h = env.path[0].clone(); env.path.push(h); }
        for h in &mut env.path { h.silent = false; h.every = 1; h.dup = false; h.delay_ns = 3 * ms; }
        env.read_timeout_ns = ms;
        env.iter_budget = 20_000;
        let t0 = vclock::BASE_NS;
        vclock::set(t0);
        let r = exec(&cfg, Box::new(env), t0, 0);
        let truth: Truth = deliv.borrow().iter().map(|d| d.truth).collect();
        let orc = full_oracle(&cfg, &r, &truth, true);
        out.case(&case_line(&cfg, &r, &truth), &r.render(), &orc);
    }
    // very long runs to a target one hop away, from the largest accepted initial sequence: the per-round flow port of Paris / Dublin
    // ((initial sequence + round) mod 65535) passes 65534 and starts over at 0 after 1024 rounds - responses must still be matched there
    let combos: Vec<(MultipathStrategy, bool, bool)> = if args.tier_thorough {
        vec![(MultipathStrategy::Paris, false, false), (MultipathStrategy::Paris, true, false), (MultipathStrategy::Paris, false, true), (MultipathStrategy::Paris, true, true),
             (MultipathStrategy::Dublin, false, false), (MultipathStrategy::Dublin, true, false), (MultipathStrategy::Dublin, false, true), (MultipathStrategy::Dublin, true, true)]
    } else {
        vec![(MultipathStrategy::Paris, false, false), (MultipathStrategy::Dublin, true, true)]
    };
    for (strategy, v6, fixed_dest) in combos {
        let mut cfg = gen_cfg(&mut rng);
        cfg.proto = Protocol::Udp;
        cfg.strategy = strategy;
        cfg.portdir = if fixed_dest { PortDirection::new_fixed_dest(33000) } else { PortDirection::new_fixed_src(5000) };
        cfg.target = rand_addr(&mut rng, v6);
        cfg.first_ttl = 1;
        cfg.max_ttl = 4;
        cfg.max_inflight = 24;
        cfg.max_rounds = 1060;
        cfg.initial_sequence = 64511;
        let ms = 1_000_000u64;
        cfg.min_ns = ms;
        cfg.max_ns = 20 * ms;
        cfg.grace_ns = ms;
        let (mut env, deliv) = gen_env(&mut rng, &cfg, Knobs::default());
        env.alt_path.clear();
        env.target_answers = true;
        env.target_dist = 1;
        env.path.truncate(1);
        for h in &mut env.path { h.silent = false; h.every = 1; h.dup = false; h.delay_ns = ms / 2; }
        env.read_timeout_ns = ms;
        env.iter_budget = 40_000;
        let t0 = vclock::BASE_NS;
        vclock::set(t0);
        let r = exec(&cfg, Box::new(env), t0, 0);
        let truth: Truth = deliv.borrow().iter().map(|d| d.truth).collect();
        let orc = full_oracle(&cfg, &r, &truth, true);
        out.case(&case_line(&cfg, &r, &truth), &r.render(), &orc);
    }
}
