//! State aggregation (C05, C10, C15, C19): published rounds -> State -> all getters.
use crate::rng::{hex, unhex, Rng};
use crate::strat::{addr_bytes, addr_from, opt_exts, parse_exts, render_icmp, render_status};
use crate::vclock;
use crate::{Args, Out};
use std::collections::HashMap;
use std::net::IpAddr;
use std::time::Duration;
use trippy_core::verif::{Checksum, IcmpPacketCode, ProbeFailed, StateConfig};
use trippy_core::{
    CompletionReason, Flags, FlowEntry, FlowId, Hop, IcmpPacketType, NatStatus, Port, Probe, ProbeComplete,
    ProbeStatus, Round, RoundId, Sequence, State, TimeToLive, TraceId, TypeOfService,
};

#[derive(Clone, Debug)]
pub struct RoundIn {
    pub probes: Vec<ProbeStatus>,
    pub largest_ttl: u8,
    pub tf: bool,
}

pub fn render_rounds(rs: &[RoundIn]) -> String {
    if rs.is_empty() { return "-".to_string(); }
    rs.iter().map(|r| format!("{}/{}/{}", r.largest_ttl, if r.tf { "tf" } else { "tl" },
        r.probes.iter().map(render_status).collect::<Vec<_>>().join(","))).collect::<Vec<_>>().join(";")
}

fn parse_probe(s: &str) -> (u16, u16, u16, u16, u8, usize, u64) {
    let t: Vec<&str> = s.split('.').collect();
    (t[0].parse().unwrap(), t[1].parse().unwrap(), t[2].parse().unwrap(), t[3].parse().unwrap(), t[4].parse().unwrap(), t[5].parse().unwrap(), t[6].parse().unwrap())
}
fn parse_icmp(s: &str) -> IcmpPacketType {
    match &s[..2] {
        "te" => IcmpPacketType::TimeExceeded(IcmpPacketCode(s[2..].parse().unwrap())),
        "er" => IcmpPacketType::EchoReply(IcmpPacketCode(s[2..].parse().unwrap())),
        "du" => IcmpPacketType::Unreachable(IcmpPacketCode(s[2..].parse().unwrap())),
        _ => IcmpPacketType::NotApplicable,
    }
}
pub fn parse_status(s: &str) -> ProbeStatus {
    if s == "N" { return ProbeStatus::NotSent; }
    if s == "K" { return ProbeStatus::Skipped; }
    let t: Vec<&str> = s.split(':').collect();
    match t[0] {
        "F" => { let p = parse_probe(t[1]); ProbeStatus::Failed(ProbeFailed { sequence: Sequence(p.0), identifier: TraceId(p.1), src_port: Port(p.2), dest_port: Port(p.3), ttl: TimeToLive(p.4), round: RoundId(p.5), sent: vclock::from_ns(p.6) }) }
        "A" => {
            let q: Vec<&str> = t[1].rsplitn(2, '.').collect();
            let p = parse_probe(q[1]);
            ProbeStatus::Awaited(Probe { sequence: Sequence(p.0), identifier: TraceId(p.1), src_port: Port(p.2), dest_port: Port(p.3), ttl: TimeToLive(p.4), round: RoundId(p.5), sent: vclock::from_ns(p.6), flags: Flags::from_bits_truncate(q[0].parse().unwrap()) })
        }
        _ => {
            let p = parse_probe(t[1]);
            ProbeStatus::Complete(ProbeComplete {
                sequence: Sequence(p.0), identifier: TraceId(p.1), src_port: Port(p.2), dest_port: Port(p.3), ttl: TimeToLive(p.4), round: RoundId(p.5), sent: vclock::from_ns(p.6),
                host: addr_from(&unhex(t[2])), received: vclock::from_ns(t[3].parse().unwrap()), icmp_packet_type: parse_icmp(t[4]),
                tos: if t[5] == "-" { None } else { Some(TypeOfService(t[5].parse().unwrap())) },
                expected_udp_checksum: if t[6] == "-" { None } else { Some(Checksum(t[6].parse().unwrap())) },
                actual_udp_checksum: if t[7] == "-" { None } else { Some(Checksum(t[7].parse().unwrap())) },
                extensions: parse_exts(t[8]),
            })
        }
    }
}
pub fn parse_rounds(s: &str) -> Vec<RoundIn> {
    if s == "-" { return vec![]; }
    s.split(';').map(|r| {
        let t: Vec<&str> = r.splitn(3, '/').collect();
        RoundIn { largest_ttl: t[0].parse().unwrap(), tf: t[1] == "tf", probes: if t[2].is_empty() { vec![] } else { t[2].split(',').map(parse_status).collect() } }
    }).collect()
}

fn f(x: f64) -> String { format!("{x:e}") }
fn od(d: Option<Duration>) -> String { d.map_or("-".to_string(), |d| d.as_nanos().to_string()) }
fn oms(x: Option<f64>) -> String { x.map_or("-".to_string(), |x| ((x * 1e6).round() as i128).to_string()) }

pub fn render_hop(h: &Hop) -> String {
    let addrs = h.addrs_with_counts().map(|(a, n)| format!("{}*{n}", hex(&addr_bytes(*a)))).collect::<Vec<_>>().join("+");
    let samples = h.samples().iter().map(|d| d.as_nanos().to_string()).collect::<Vec<_>>().join("+");
    let nat = match h.last_nat_status() { NatStatus::NotApplicable => "na", NatStatus::NotDetected => "nd", NatStatus::Detected => "det" };
    format!(
        "{},{},{},{},{},{},{},{},{},^{},^{},{},{},{},{},{},{},{},{},{},~{},~{},~{},~{},~{},~{},~{}",
        h.ttl(), h.total_sent(), h.total_recv(), h.total_failed(), h.total_forward_loss(), h.total_backward_loss(),
        oms(h.last_ms()), oms(h.best_ms()), oms(h.worst_ms()), oms(h.jitter_ms()), oms(h.jmax_ms()),
        if samples.is_empty() { "-".to_string() } else { samples }, if addrs.is_empty() { "-".to_string() } else { addrs },
        h.last_src_port(), h.last_dest_port(), h.last_sequence(),
        h.last_icmp_packet_type().map_or("-".to_string(), |t| render_icmp(&t)), nat,
        h.tos().map_or("-".to_string(), |t| t.0.to_string()), opt_exts(&h.extensions().cloned()),
        f(h.javg_ms()), f(h.jinta()), f(h.avg_ms()), f(h.stddev_ms() * h.stddev_ms()), f(h.loss_pct()), f(h.forward_loss_pct()), f(h.backward_loss_pct()))
}

pub fn render_state(st: &State, flow_ids: &[u64]) -> String {
    let mut parts = vec![format!("rfid={}", st.round_flow_id().0)];
    let flows = st.flows().iter().map(|(fl, id)| format!("{}:{}", id.0, fl.entries.iter().map(|e| match e {
        FlowEntry::Unknown => "*".to_string(), FlowEntry::Known(a) => hex(&addr_bytes(*a)) }).collect::<Vec<_>>().join("+"))).collect::<Vec<_>>().join(",");
    parts.push(format!("flows={}", if flows.is_empty() { "-".to_string() } else { flows }));
    for id in flow_ids {
        let fid = FlowId(*id);
        let hops = st.hops_for_flow(fid);
        let th = st.target_hop(fid);
        parts.push(format!("F{}={}/{}/{}/{}|{}", id, st.round_count(fid), st.round(fid).map_or("-".to_string(), |r| r.to_string()), th.ttl(),
            hops.iter().map(|h| format!("{}{}", u8::from(st.is_target(h, fid)), u8::from(st.is_in_round(h, fid)))).collect::<Vec<_>>().join(""),
            if hops.is_empty() { "-".to_string() } else { hops.iter().map(render_hop).collect::<Vec<_>>().join(";") }));
    }
    parts.join(" ")
}

/// apply rounds to a fresh State; returns the rendering or fault
pub fn apply(max_samples: usize, max_flows: usize, rounds: &[RoundIn]) -> (String, Option<State>) {
    let r = std::panic::catch_unwind(|| {
        let mut st = State::new(StateConfig { max_samples, max_flows });
        for r in rounds {
            let reason = if r.tf { CompletionReason::TargetFound } else { CompletionReason::RoundTimeLimitExceeded };
            st.update_from_round(&Round::new(&r.probes, TimeToLive(r.largest_ttl), reason));
        }
        let mut ids: Vec<u64> = vec![0];
        ids.extend(st.flows().iter().map(|(_, id)| id.0));
        (render_state(&st, &ids), st)
    });
    match r {
        Ok((s, st)) => (s, Some(st)),
        Err(_) => ("fault:panic".to_string(), None),
    }
}

// ---------------------------------------------------------------- oracles (independent recomputation)
struct Agg { sent: usize, recv: usize, failed: usize, rtts: Vec<u64>, samples: Vec<u64>, addrs: Vec<(IpAddr, usize)>, last: Option<u64>, fwd: usize, bwd: usize, nat: NatStatus }

fn status_ttl(s: &ProbeStatus) -> Option<u8> {
    match s { ProbeStatus::Awaited(p) => Some(p.ttl.0), ProbeStatus::Complete(c) => Some(c.ttl.0), ProbeStatus::Failed(f) => Some(f.ttl.0), _ => None }
}

fn recompute(rounds: &[RoundIn], max_samples: usize, pred: &dyn Fn(usize) -> bool) -> HashMap<u8, Agg> {
    let mut m: HashMap<u8, Agg> = HashMap::new();
    for (ri, r) in rounds.iter().enumerate() {
        if !pred(ri) { continue; }
        // declarative loss: the first awaited probe after which everything (with a larger ttl) is awaited/skipped is forward
        // loss; every later awaited probe is backward loss
        let mut fwd_seen = false;
        let mut prev_ck: Option<u16> = None;
        for (i, s) in r.probes.iter().enumerate() {
            let Some(ttl) = status_ttl(s) else { continue };
            let a = m.entry(ttl).or_insert(Agg { sent: 0, recv: 0, failed: 0, rtts: vec![], samples: vec![], addrs: vec![], last: None, fwd: 0, bwd: 0, nat: NatStatus::NotApplicable });
            a.sent += 1;
            match s {
                ProbeStatus::Complete(c) => {
                    a.recv += 1;
                    let d = c.received.duration_since(c.sent).unwrap_or_default().as_nanos() as u64;
                    a.rtts.push(d); a.samples.push(d); a.last = Some(d);
                    if let Some(e) = a.addrs.iter_mut().find(|e| e.0 == c.host) { e.1 += 1; } else { a.addrs.push((c.host, 1)); }
                    if let (Some(e), Some(ac)) = (c.expected_udp_checksum, c.actual_udp_checksum) {
                        let reference = prev_ck.unwrap_or(e.0);
                        a.nat = if ac.0 != reference { NatStatus::Detected } else { NatStatus::NotDetected };
                        prev_ck = Some(ac.0);
                    }
                }
                ProbeStatus::Failed(_) => { a.failed += 1; a.samples.push(0); }
                ProbeStatus::Awaited(_) => {
                    a.samples.push(0);
                    if fwd_seen { a.bwd += 1; } else {
                        let later: Vec<&ProbeStatus> = r.probes.iter().enumerate().filter(|(j, p)| { let _ = j; status_ttl(p).is_some_and(|t| t > ttl) }).map(|(_, p)| p).collect();
                        // positional reading of the code: probes after the first one whose ttl exceeds this ttl
                        let pos = r.probes.iter().position(|p| status_ttl(p).is_some_and(|t| t > ttl));
                        let rest: Vec<&ProbeStatus> = pos.map_or(vec![], |p| r.probes[p..].iter().collect());
                        let _ = (later, i);
                        if !rest.is_empty() && rest.iter().all(|p| matches!(p, ProbeStatus::Awaited(_) | ProbeStatus::Skipped)) { a.fwd += 1; fwd_seen = true; }
                    }
                }
                _ => {}
            }
        }
    }
    for a in m.values_mut() {
        a.samples.reverse();
        a.samples.truncate(max_samples);
    }
    m
}

fn close(a: f64, b: f64) -> bool { (a - b).abs() <= 1e-9 + 1e-9 * a.abs().max(b.abs()) }

fn check_hops(tag: &str, hops: &[Hop], agg: &HashMap<u8, Agg>, max_samples: usize, fails: &mut Vec<String>) {
    for h in hops {
        let Some(a) = agg.get(&h.ttl()) else {
            if h.total_sent() != 0 { fails.push(format!("C05:{tag}:hop_{}_has_counts_but_no_probe", h.ttl())); }
            continue;
        };
        let t = h.ttl();
        if h.total_sent() != a.sent || h.total_recv() != a.recv || h.total_failed() != a.failed { fails.push(format!("C05:{tag}:hop_{t}_counts_{}/{}/{}_expected_{}/{}/{}", h.total_sent(), h.total_recv(), h.total_failed(), a.sent, a.recv, a.failed)); }
        if h.total_forward_loss() != a.fwd || h.total_backward_loss() != a.bwd { fails.push(format!("C05:{tag}:hop_{t}_loss_{}/{}_expected_{}/{}", h.total_forward_loss(), h.total_backward_loss(), a.fwd, a.bwd)); }
        let ms = |ns: u64| ns as f64 / 1e6;
        if a.recv > 0 {
            let sum: f64 = a.rtts.iter().map(|x| ms(*x)).sum();
            let mean = sum / a.recv as f64;
            if !close(h.avg_ms(), mean) { fails.push(format!("C05:{tag}:hop_{t}_avg_{}_expected_{mean}", h.avg_ms())); }
            let best = ms(*a.rtts.iter().min().unwrap());
            let worst = ms(*a.rtts.iter().max().unwrap());
            if !close(h.best_ms().unwrap_or(-1.0), best) || !close(h.worst_ms().unwrap_or(-1.0), worst) { fails.push(format!("C05:{tag}:hop_{t}_best_worst")); }
            if !(h.best_ms().unwrap() <= h.avg_ms() + 1e-9 && h.avg_ms() <= h.worst_ms().unwrap() + 1e-9) { fails.push(format!("C05:{tag}:hop_{t}_best_avg_worst_order")); }
            if !close(h.last_ms().unwrap_or(-1.0), ms(a.last.unwrap())) { fails.push(format!("C05:{tag}:hop_{t}_last")); }
            if a.recv > 1 {
                let var: f64 = a.rtts.iter().map(|x| (ms(*x) - mean).powi(2)).sum::<f64>() / (a.recv - 1) as f64;
                let sd = var.sqrt();
                if (h.stddev_ms() - sd).abs() > 1e-6 + 1e-6 * sd { fails.push(format!("C05:{tag}:hop_{t}_stddev_{}_expected_{sd}", h.stddev_ms())); }
            }
            // jitter: |rtt_i - rtt_{i-1}| with rtt_0 = 0 for the first sample (the code's convention)
            let mut prev = 0.0; let mut js = vec![];
            for x in &a.rtts { js.push((ms(*x) - prev).abs()); prev = ms(*x); }
            let javg: f64 = js.iter().sum::<f64>() / js.len() as f64;
            if !close(h.javg_ms(), javg) && (h.javg_ms() - javg).abs() > 1e-7 { fails.push(format!("C05:{tag}:hop_{t}_javg_{}_expected_{javg}", h.javg_ms())); }
            let jmax = js.iter().cloned().fold(0.0, f64::max);
            if (h.jmax_ms().unwrap_or(-1.0) - jmax).abs() > 1e-5 { fails.push(format!("C05:{tag}:hop_{t}_jmax")); }
        }
        let loss = if a.sent > 0 { (a.sent - a.recv) as f64 / a.sent as f64 * 100.0 } else { 0.0 };
        if !close(h.loss_pct(), loss) || !(0.0..=100.0).contains(&h.loss_pct()) { fails.push(format!("C05:{tag}:hop_{t}_loss_pct")); }
        if h.total_recv() + h.total_failed() > h.total_sent() { fails.push(format!("C05:{tag}:hop_{t}_recv+failed>sent")); }
        if h.addrs_with_counts().map(|(_, n)| *n).sum::<usize>() != h.total_recv() { fails.push(format!("C05:{tag}:hop_{t}_addr_counts_do_not_sum_to_recv")); }
        if h.total_forward_loss() + h.total_backward_loss() > h.total_sent() - h.total_recv() - h.total_failed() { fails.push(format!("C05:{tag}:hop_{t}_loss_counts_exceed_unanswered")); }
        if h.samples().len() > max_samples { fails.push(format!("C05:{tag}:hop_{t}_history_exceeds_limit")); }
        let got: Vec<u64> = h.samples().iter().map(|d| d.as_nanos() as u64).collect();
        if got != a.samples { fails.push(format!("C05:{tag}:hop_{t}_samples")); }
        let got_addrs: Vec<(IpAddr, usize)> = h.addrs_with_counts().map(|(a, n)| (*a, *n)).collect();
        if got_addrs != a.addrs { fails.push(format!("C05:{tag}:hop_{t}_addrs")); }
        if h.last_nat_status() != a.nat { fails.push(format!("C19:{tag}:hop_{t}_nat_{:?}_expected_{:?}", h.last_nat_status(), a.nat)); }
    }
}

/// Does `entry` cover `f` (agrees at every known position of f and is at least as long)?
fn covers(entry: &[FlowEntry], f: &[Option<IpAddr>]) -> bool {
    // every address the round saw is recorded at its position (positions at which the round saw nothing need no entry)
    f.iter().enumerate().all(|(i, x)| match (x, entry.get(i)) { (Some(a), Some(FlowEntry::Known(b))) => a == b, (Some(_), _) => false, (None, _) => true })
}

/// The addresses a round saw, by POSITION ON THE PATH (ttl - the round's first ttl), independent of how the code builds its flow:
/// a probe that was answered gives its host, a probe that was sent (or whose send failed) and got no answer gives "unknown";
/// abandoned (skipped) slots duplicate the ttl of their re-issue and have no position of their own.  For rounds that are not of
/// the shape the strategy publishes (consecutive ascending ttls) the positions are the indices among the probes put on the wire.
/// every hop position of the round (no cut at the reported path length)
fn round_positions(r: &RoundIn) -> Vec<Option<IpAddr>> {
    r.probes.iter().filter_map(|p| match p {
        ProbeStatus::Awaited(_) | ProbeStatus::Failed(_) => Some(None),
        ProbeStatus::Complete(c) => Some(Some(c.host)),
        _ => None,
    }).collect()
}

fn round_flow(r: &RoundIn) -> Vec<Option<IpAddr>> {
    let placed: Vec<(u8, Option<IpAddr>)> = r.probes.iter().filter_map(|p| match p {
        ProbeStatus::Awaited(a) => Some((a.ttl.0, None)),
        ProbeStatus::Failed(f) => Some((f.ttl.0, None)),
        ProbeStatus::Complete(c) => Some((c.ttl.0, Some(c.host))),
        _ => None,
    }).collect();
    let shaped = placed.windows(2).all(|w| u16::from(w[1].0) == u16::from(w[0].0) + 1)
        && (r.largest_ttl == 0 || placed.first().map_or(true, |x| x.0 <= r.largest_ttl));
    if shaped {
        // the hops of the round's path: ttl <= the path length the round reports
        placed.iter().take_while(|x| x.0 <= r.largest_ttl).map(|x| x.1).collect()
    } else {
        placed.iter().map(|x| x.1).take(usize::from(r.largest_ttl)).collect()
    }
}

/// the side condition under which the strategy produces rounds: ttl in 1..=254, largest_ttl 0 or >= the round's lowest ttl
pub fn wf_rounds(rounds: &[RoundIn]) -> bool {
    rounds.iter().all(|r| {
        let ttls: Vec<u8> = r.probes.iter().filter_map(status_ttl).collect();
        ttls.iter().all(|t| (1..=254).contains(t)) && r.largest_ttl <= 254
            && (r.largest_ttl == 0 || ttls.iter().min().is_some_and(|m| *m <= r.largest_ttl))
    })
}

pub fn oracle(max_samples: usize, max_flows: usize, rounds: &[RoundIn]) -> Vec<String> {
    let wf = wf_rounds(rounds);
    let r = std::panic::catch_unwind(|| oracle_inner(max_samples, max_flows, rounds));
    match r {
        Ok(f) => f,
        Err(_) => if wf { vec!["C10:panic_while_applying_or_querying_well-formed_rounds".to_string()] } else { vec![] },
    }
}

fn oracle_inner(max_samples: usize, max_flows: usize, rounds: &[RoundIn]) -> Vec<String> {
    let mut fails = vec![];
    // step through the rounds on a fresh State to observe attribution
    let res = std::panic::catch_unwind(|| {
        let mut st = State::new(StateConfig { max_samples, max_flows });
        let mut attributed: Vec<Option<u64>> = vec![];
        let mut fails: Vec<String> = vec![];
        let mut prev_flows: Vec<(Vec<FlowEntry>, u64)> = vec![];
        for r in rounds {
            let before = st.flows().len();
            let before_counts: HashMap<u64, usize> = st.flows().iter().map(|(_, id)| (id.0, st.round_count(*id))).collect();
            let reason = if r.tf { CompletionReason::TargetFound } else { CompletionReason::RoundTimeLimitExceeded };
            st.update_from_round(&Round::new(&r.probes, TimeToLive(r.largest_ttl), reason));
            let now: Vec<(Vec<FlowEntry>, u64)> = st.flows().iter().map(|(f, id)| (f.entries.clone(), id.0)).collect();
            // which flow got this round?
            let got: Vec<u64> = now.iter().filter(|(_, id)| st.round_count(FlowId(*id)) != before_counts.get(id).copied().unwrap_or(0)).map(|x| x.1).collect();
            if got.len() > 1 { fails.push(format!("C15:round_attributed_to_{}_flows", got.len())); }
            let fl = round_flow(r);
            if let Some(id) = got.first() {
                let e = &now.iter().find(|x| x.1 == *id).unwrap().0;
                if !covers(e, &fl) { fails.push(format!("C15:flow_{id}_does_not_cover_the_round_attributed_to_it")); }
                if st.round_flow_id().0 != *id { fails.push(format!("C15:round_flow_id_{}_but_round_went_to_{id}", st.round_flow_id().0)); }
            } else {
                // not attributed: legitimate only when saturated and no existing flow is compatible
                // (with a first ttl above 1 the code's flow of a round reaches beyond the reported path length - it keeps `largest_ttl`
                //  ENTRIES, not the hops up to that ttl; an address out there may legitimately conflict with every recorded flow, so
                //  "compatible" is judged on all placed hops of the round, the longer of the two readings)
                let placed = round_positions(r);
                let compatible = prev_flows.iter().any(|(e, _)| e.iter().zip(&placed).all(|(x, y)| !matches!((x, y), (FlowEntry::Known(a), Some(b)) if a != b)));
                if before < max_flows { fails.push("C15:round_not_attributed_although_below_max_flows".to_string()); }
                else if compatible { fails.push("C15:saturated:round_matching_an_existing_flow_not_attributed".to_string()); }
            }
            attributed.push(got.first().copied());
            // monotone, dense, bounded
            if now.len() > max_flows { fails.push(format!("C15:{}_flows_exceed_max_{max_flows}", now.len())); }
            for (i, (_, id)) in now.iter().enumerate() { if *id != i as u64 + 1 { fails.push(format!("C15:flow_ids_not_dense:{id}_at_{i}")); } }
            for (e0, id) in &prev_flows {
                let e1 = &now.iter().find(|x| x.1 == *id).unwrap().0;
                let ext = e1.len() >= e0.len() && e0.iter().zip(e1).all(|(a, b)| matches!(a, FlowEntry::Unknown) || a == b);
                if !ext { fails.push(format!("C15:flow_{id}_contradicts_or_forgets_earlier_entries")); }
            }
            prev_flows = now;
        }
        (st, attributed, fails)
    });
    let Ok((st, attributed, f2)) = res else {
        panic!("apply");
    };
    fails.extend(f2);
    // default flow = all rounds
    let agg0 = recompute(rounds, max_samples, &|_| true);
    check_hops("flow0", st.hops(), &agg0, max_samples, &mut fails);
    if st.round_count(FlowId(0)) != rounds.len() { fails.push("C15:default_flow_round_count".to_string()); }
    for (_, id) in st.flows() {
        let agg = recompute(rounds, max_samples, &|ri| attributed[ri] == Some(id.0));
        check_hops(&format!("flow{}", id.0), st.hops_for_flow(*id), &agg, max_samples, &mut fails);
        let n = attributed.iter().filter(|a| **a == Some(id.0)).count();
        if st.round_count(*id) != n { fails.push(format!("C15:flow_{}_round_count_{}_expected_{n}", id.0, st.round_count(*id))); }
    }
    // C10: the hop window
    let mut ids: Vec<u64> = vec![0];
    ids.extend(st.flows().iter().map(|(_, id)| id.0));
    for id in ids {
        let fid = FlowId(id);
        let rs: Vec<&RoundIn> = rounds.iter().enumerate().filter(|(ri, _)| id == 0 || attributed[*ri] == Some(id)).map(|x| x.1).collect();
        let lowest = rs.iter().flat_map(|r| r.probes.iter().filter_map(status_ttl)).min();
        let highest = rs.iter().map(|r| r.largest_ttl).max().unwrap_or(0);
        let hops = st.hops_for_flow(fid);
        match lowest {
            None => if !hops.is_empty() { fails.push(format!("C10:flow_{id}_hops_without_probes")); },
            Some(lo) => {
                if highest == 0 { if !hops.is_empty() { fails.push(format!("C10:flow_{id}_nonempty_with_largest_ttl_0")); } }
                else if lo <= highest {
                    let want: Vec<u8> = (lo..=highest).collect();
                    if hops.len() != want.len() { fails.push(format!("C10:flow_{id}_window_{}_hops_expected_{}..{}", hops.len(), lo, highest)); }
                    for (h, w) in hops.iter().zip(&want) {
                        if h.total_sent() > 0 && h.ttl() != *w { fails.push(format!("C10:flow_{id}_hop_ttl_{}_at_position_{w}", h.ttl())); }
                    }
                }
            }
        }
        if let Some(last) = rs.last() {
            if last.largest_ttl > 0 && st.target_hop(fid).total_sent() > 0 && st.target_hop(fid).ttl() != last.largest_ttl { fails.push(format!("C10:flow_{id}_target_hop_{}_expected_{}", st.target_hop(fid).ttl(), last.largest_ttl)); }
            // the designated target hop and the in-round marker follow the LATEST round's path length (0: nothing answered)
            for h in hops {
                if h.total_sent() == 0 { continue; }
                let want_target = last.largest_ttl > 0 && h.ttl() == last.largest_ttl;
                let want_in_round = h.ttl() <= last.largest_ttl;
                if st.is_target(h, fid) != want_target { fails.push(format!("C10:flow_{id}_hop_{}_is_target_{}_latest_path_length_{}", h.ttl(), st.is_target(h, fid), last.largest_ttl)); }
                if st.is_in_round(h, fid) != want_in_round { fails.push(format!("C10:flow_{id}_hop_{}_is_in_round_{}_latest_path_length_{}", h.ttl(), st.is_in_round(h, fid), last.largest_ttl)); }
            }
        }
    }
    fails.truncate(10);
    fails
}

/// default-flow totals of a snapshot against an independent recomputation from the published rounds
pub fn totals_oracle(st: &State, rounds: &[RoundIn], max_samples: usize) -> Vec<String> {
    let mut fails = vec![];
    let agg0 = recompute(rounds, max_samples, &|_| true);
    check_hops("flow0", st.hops(), &agg0, max_samples, &mut fails);
    if st.round_count(FlowId(0)) != rounds.len() { fails.push("C01:totals:round_count".to_string()); }
    fails.truncate(6);
    fails
}

// ---------------------------------------------------------------- generation
fn gen_rounds(rng: &mut Rng, valid_only: bool) -> (usize, usize, Vec<RoundIn>) {
    let max_samples = *rng.pick(&[0usize, 1, 2, 3, 10, 256]);
    let max_flows = *rng.pick(&[0usize, 1, 2, 3, 64]);
    let nrounds = *rng.pick(&[1usize, 2, 3, 5, 8, 20, 40]);
    let first = *rng.pick(&[1u8, 1, 1, 2, 5, 200, 250]);
    let v6 = rng.chance(1, 4);
    // (hosts of special address classes answer too: link-local routers, the unspecified / loopback / broadcast addresses)
    let special: Vec<IpAddr> = if v6 {
        vec!["fe80::1".parse().unwrap(), "fe80::2".parse().unwrap(), "::1".parse().unwrap(), "::".parse().unwrap(), "ff02::1".parse().unwrap()]
    } else {
        vec!["169.254.0.1".parse().unwrap(), "169.254.7.7".parse().unwrap(), "127.0.0.1".parse().unwrap(), "0.0.0.0".parse().unwrap(), "255.255.255.255".parse().unwrap()]
    };
    let pool: Vec<IpAddr> = (0..6).map(|_| if rng.chance(1, 5) { *rng.pick(&special) } else { crate::simnet::rand_addr(rng, v6) }).collect();
    let path_variants = 1 + rng.below(3) as usize;
    let base = vclock::BASE_NS;
    let mut rounds = vec![];
    let dublin = rng.chance(1, 3);
    for ri in 0..nrounds {
        let n = rng.below(9) as usize;
        let variant = rng.below(path_variants as u64) as usize;
        let mut probes = vec![];
        let mut ttl = first;
        let mut max_complete_ttl = 0u8;
        for k in 0..n {
            if ttl > 254 { break; }
            let seq = 33434u16.wrapping_add((ri * 16 + k) as u16);
            let sent = base + (ri as u64) * 1_000_000_000 + (k as u64) * 1000;
            let round_id = if rng.chance(1, 20) { rng.below(50) as usize } else { ri };
            let kind = rng.below(20);
            let t = if !valid_only && rng.chance(1, 60) { *rng.pick(&[0u8, 255]) } else { ttl };
            match kind {
                0 => probes.push(ProbeStatus::Skipped),
                1 => probes.push(ProbeStatus::NotSent),
                2 | 3 => probes.push(ProbeStatus::Failed(ProbeFailed { sequence: Sequence(seq), identifier: TraceId(7), src_port: Port(5000), dest_port: Port(seq), ttl: TimeToLive(t), round: RoundId(round_id), sent: vclock::from_ns(sent) })),
                4..=9 => probes.push(ProbeStatus::Awaited(Probe { sequence: Sequence(seq), identifier: TraceId(7), src_port: Port(5000), dest_port: Port(seq), ttl: TimeToLive(t), round: RoundId(round_id), sent: vclock::from_ns(sent), flags: Flags::empty() })),
                _ => {
                    let rtt = *rng.pick(&[0u64, 1, 999, 1_000_000, 1_500_000, 3_000_000, 5_000_000, 123_456_789, 2_000_000_000]) + rng.below(1000);
                    let received = if rng.chance(1, 30) { sent.saturating_sub(5) } else { sent + rtt };
                    let host = pool[(usize::from(t) + variant * (usize::from(t) % 2)) % pool.len()];
                    let (e, a) = if dublin {
                        // (a rewriting device may leave any checksum behind, also 0 = "no checksum" or the same value for every later hop)
                        let e = *rng.pick(&[0x1111u16, 0x1111, 0x1111, 0, 0xFFFF]);
                        (Some(Checksum(e)), Some(Checksum(match rng.below(8) { 0 => rng.next() as u16, 1 => 0, 2 => 0xFFFF, _ => e })))
                    } else if rng.chance(1, 10) { (Some(Checksum(1)), None) } else { (None, None) };
                    probes.push(ProbeStatus::Complete(ProbeComplete {
                        sequence: Sequence(seq), identifier: TraceId(7), src_port: Port(5000), dest_port: Port(seq), ttl: TimeToLive(t), round: RoundId(round_id), sent: vclock::from_ns(sent),
                        host, received: vclock::from_ns(received),
                        icmp_packet_type: *rng.pick(&[IcmpPacketType::TimeExceeded(IcmpPacketCode(0)), IcmpPacketType::EchoReply(IcmpPacketCode(0)), IcmpPacketType::Unreachable(IcmpPacketCode(3)), IcmpPacketType::NotApplicable]),
                        tos: if rng.chance(1, 2) { Some(TypeOfService(rng.next() as u8)) } else { None },
                        expected_udp_checksum: e, actual_udp_checksum: a,
                        extensions: if rng.chance(1, 8) { Some(crate::strat::dec_exts(&[0, 1, 1, 0, 2, 9, 9])) } else { None },
                    }));
                    max_complete_ttl = max_complete_ttl.max(t);
                }
            }
            if !matches!(probes.last(), Some(ProbeStatus::Skipped | ProbeStatus::NotSent)) { ttl = ttl.saturating_add(1); }
        }
        // largest_ttl as the strategy would report it (0, or within the probed range) - sometimes arbitrary
        let largest = if valid_only || rng.chance(3, 4) {
            if max_complete_ttl == 0 { 0 } else { max_complete_ttl.saturating_add(u8::from(rng.chance(1, 2))).min(ttl.saturating_sub(1)).max(first) }
        } else { rng.below(255) as u8 };
        rounds.push(RoundIn { probes, largest_ttl: largest, tf: rng.chance(1, 2) });
    }
    (max_samples, max_flows, rounds)
}

pub fn gen_rounds_pub(rng: &mut Rng) -> (usize, usize, Vec<RoundIn>) {
    gen_rounds(rng, true)
}

fn one(ms: usize, mf: usize, rounds: &[RoundIn], out: &mut Out) {
    let input = format!("state {ms} {mf} {}", render_rounds(rounds));
    let (rendered, _) = apply(ms, mf, rounds);
    let fails = oracle(ms, mf, rounds);
    out.case(&input, &rendered, &crate::oracles::verdict(&fails));
}

pub fn run(args: &Args, out: &mut Out) {
    if let Some(path) = &args.replay {
        for l in crate::replay_inputs(path) {
            let t: Vec<&str> = l.split(' ').collect();
            if t[0] != "state" { continue; }
            one(t[1].parse().unwrap(), t[2].parse().unwrap(), &parse_rounds(t[3]), out);
        }
        return;
    }
    let mut rng = Rng::new(args.seed ^ 0x57A7E);
    let n = args.n.unwrap_or(if args.tier_thorough { 30000 } else { 2500 });
    let mut total_rounds = 0usize;
    for i in 0..n {
        let (ms, mf, rounds) = gen_rounds(&mut rng, i % 4 != 0);
        total_rounds += rounds.len();
        one(ms, mf, &rounds, out);
    }
    out.stat("synthetic_histories", n);
    out.stat("rounds_total", total_rounds);
}
