//! Operation sequences on the real `TracerState` (through the `TracerStateHandle` hook): the arithmetic walk of
//! C07 (many rounds across sequence wrap-around, both maximum-sequence regimes, TCP re-issue bursts) and the
//! window-edge injections of C03 (responses naming stale / never-sent / previous-round sequences).
use crate::rng::Rng;
use crate::simnet::{probe_with_seq, rand_addr, SimEnv};
use crate::strat::{parse_response, render_response, render_status, Cfg};
use crate::vclock;
use crate::{Args, Out};
use std::time::Duration;
use trippy_core::verif::{IcmpPacketCode, Response, ResponseData, StrategyConfig, TracerStateHandle};
use trippy_core::{MaxInflight, MaxRounds, MultipathStrategy, PortDirection, Probe, Protocol, Sequence, TimeToLive, TraceId};

fn scfg(c: &Cfg) -> StrategyConfig {
    StrategyConfig {
        target_addr: c.target,
        protocol: c.proto,
        trace_identifier: TraceId(c.trace_id),
        max_rounds: if c.max_rounds > 0 { Some(MaxRounds(std::num::NonZeroUsize::new(c.max_rounds).unwrap())) } else { None },
        first_ttl: TimeToLive(c.first_ttl),
        max_ttl: TimeToLive(c.max_ttl),
        grace_duration: Duration::from_nanos(c.grace_ns),
        max_inflight: MaxInflight(c.max_inflight),
        initial_sequence: Sequence(c.initial_sequence),
        multipath_strategy: c.strategy,
        port_direction: c.portdir,
        min_round_duration: Duration::from_nanos(c.min_ns),
        max_round_duration: Duration::from_nanos(c.max_ns),
    }
}

fn dump(h: &TracerStateHandle) -> String {
    let ps = h.probes().iter().map(render_status).collect::<Vec<_>>().join(",");
    format!("ttl={} tf={} mr={} tt={} cap={} probes={}", h.ttl().0, u8::from(h.target_found()),
        h.max_received_ttl().map_or("-".to_string(), |t| t.0.to_string()), h.target_ttl().map_or("-".to_string(), |t| t.0.to_string()),
        u8::from(h.round_has_capacity()), if ps.is_empty() { "-".to_string() } else { ps })
}

#[derive(Clone, Debug)]
pub enum OpT { Next(u64), Reissue(u64), Fail, Advance(u64), Complete(Response) }

pub fn render_ops(ops: &[OpT]) -> String {
    ops.iter().map(|o| match o {
        OpT::Next(t) => format!("n{t}"), OpT::Reissue(t) => format!("r{t}"), OpT::Fail => "f".to_string(),
        OpT::Advance(t) => format!("a{t}"), OpT::Complete(r) => format!("c{}", render_response(r)) }).collect::<Vec<_>>().join(",")
}
pub fn parse_ops(s: &str) -> Vec<OpT> {
    if s == "-" { return vec![]; }
    s.split(',').map(|x| match &x[..1] {
        "n" => OpT::Next(x[1..].parse().unwrap()), "r" => OpT::Reissue(x[1..].parse().unwrap()), "f" => OpT::Fail,
        "a" => OpT::Advance(x[1..].parse().unwrap()), _ => OpT::Complete(parse_response(&x[1..])) }).collect()
}

/// run the ops on the real TracerState; returns (issued probes "seq.ttl", dumps after each advance + final, oracle failures)
fn exec_ops(cfg: &Cfg, ops: &[OpT]) -> (String, Vec<String>) {
    let sc = scfg(cfg);
    let r = std::panic::catch_unwind(|| {
        vclock::set(vclock::BASE_NS);
        let mut h = TracerStateHandle::new(sc);
        let mut issued: Vec<String> = vec![];
        let mut dumps: Vec<String> = vec![];
        let mut fails: Vec<String> = vec![];
        let mut round_seqs: Vec<u16> = vec![];
        let mut prev_round: Vec<u16> = vec![];
        let mut last_of_prev: Option<u16> = None;
        let dublin6 = cfg.proto == Protocol::Udp && cfg.strategy == MultipathStrategy::Dublin && cfg.target.is_ipv6();
        let mut record = |p: &Probe, round_seqs: &mut Vec<u16>, fails: &mut Vec<String>, issued: &mut Vec<String>, last_of_prev: Option<u16>, prev_round: &Vec<u16>| {
            let q = p.sequence.0;
            if prev_round.contains(&q) && fails.len() < 4 { fails.push(format!("C07:sequence_{q}_of_the_previous_round_is_issued_again_in_the_current_one")); }
            if let Some(l) = round_seqs.last() {
                if q != l.wrapping_add(1) || *l == u16::MAX { fails.push(format!("C07:sequence_{q}_after_{l}")); }
            } else if let Some(lp) = last_of_prev {
                if q != lp.wrapping_add(1) && q != cfg.initial_sequence { fails.push(format!("C07:round_starts_at_{q}_after_{lp}_(initial_{})", cfg.initial_sequence)); }
            }
            if q == u16::MAX { fails.push("C07:sequence_65535_issued".to_string()); }
            if round_seqs.len() >= 512 { fails.push("C07:more_than_512_sequences_in_a_round".to_string()); }
            if dublin6 {
                let plen = u32::from(q.wrapping_sub(cfg.initial_sequence)) + 6;
                if q < cfg.initial_sequence || plen > 976 { fails.push(format!("C07:dublin_ipv6_payload_length_{plen}_for_sequence_{q}")); }
            }
            round_seqs.push(q);
            issued.push(format!("{q}.{}", p.ttl.0));
        };
        for op in ops {
            match op {
                OpT::Next(t) => { let p = h.next_probe(vclock::from_ns(*t)); record(&p, &mut round_seqs, &mut fails, &mut issued, last_of_prev, &prev_round); }
                OpT::Reissue(t) => { let p = h.reissue_probe(vclock::from_ns(*t)); record(&p, &mut round_seqs, &mut fails, &mut issued, last_of_prev, &prev_round); }
                OpT::Fail => h.fail_probe(),
                OpT::Advance(t) => {
                    dumps.push(dump(&h));
                    vclock::set(*t);
                    h.advance_round(TimeToLive(cfg.first_ttl));
                    if let Some(l) = round_seqs.last() { last_of_prev = Some(*l); }
                    prev_round = std::mem::take(&mut round_seqs);
                }
                OpT::Complete(r) => {
                    let (q, tid, _) = h.response_sequence(r.clone());
                    let before = dump(&h);
                    let accepted_id = tid == cfg.trace_id || tid == 0;
                    if accepted_id && h.in_round(Sequence(q)) {
                        let was_awaited = round_seqs.contains(&q) && matches!(h.probe_at(Sequence(q)), trippy_core::ProbeStatus::Awaited(_));
                        h.complete_probe(r.clone());
                        let after = dump(&h);
                        if !round_seqs.contains(&q) && before != after {
                            let kind = if prev_round.contains(&q) { "a_sequence_of_the_previous_round" } else { "a_sequence_not_sent_in_this_round" };
                            fails.push(format!("C03:response_naming_{kind}_({q})_changed_the_state"));
                            if prev_round.contains(&q) { fails.push(format!("C07:sequence_{q}_of_the_previous_round_is_valid_in_the_current_one")); }
                        }
                        if round_seqs.contains(&q) && !was_awaited && before != after {
                            fails.push(format!("C03:response_for_{q}_which_is_not_awaiting_changed_the_state"));
                        }
                    }
                }
            }
        }
        dumps.push(dump(&h));
        (format!("issued={} dumps={}", if issued.is_empty() { "-".to_string() } else { issued.join(",") }, dumps.join(";")), fails)
    });
    match r {
        Ok(x) => x,
        Err(_) => ("fault:panic".to_string(), vec![]),
    }
}

fn gen(rng: &mut Rng, thorough: bool) -> (Cfg, Vec<OpT>) {
    let mut cfg = crate::m_run::gen_cfg(rng);
    // wrap-heavy configurations
    cfg.initial_sequence = *rng.pick(&[0u16, 1, 33434, 63999, 64000, 64257, 64258, 64400, 64510, 64511, 64511]);
    if rng.chance(1, 3) {
        cfg.proto = Protocol::Udp; cfg.strategy = MultipathStrategy::Dublin; cfg.target = rand_addr(rng, true);
        cfg.portdir = PortDirection::new_fixed_src(5000);
    }
    cfg.max_ttl = cfg.first_ttl.saturating_add(*rng.pick(&[3u8, 10, 40, 120, 253])).min(254);
    let rounds = if thorough { *rng.pick(&[5usize, 60, 300, 700]) } else { *rng.pick(&[3usize, 20, 80, 150]) };
    let mut ops = vec![];
    let mut t = vclock::BASE_NS;
    let mut seq = cfg.initial_sequence;       // harness-side prediction of the next sequence (only used to aim responses)
    let maxseq: u32 = if cfg.strategy == MultipathStrategy::Dublin && cfg.target.is_ipv6() { u32::from(cfg.initial_sequence) + 512 } else { 65023 };
    let big_first = rng.chance(1, 2);
    for r in 0..rounds {
        let span = u32::from(cfg.max_ttl - cfg.first_ttl) + 1;
        let lim = *rng.pick(&[2u32, 6, 30, 254]);
        let n = if r == 0 && big_first { span.min(40) } else { 1 + rng.below(u64::from(span.min(lim))) as u32 };
        let round_start_seq = seq;
        let mut sent: Vec<(u16, Probe)> = vec![];
        let mut count = 0u32;
        let mut ttl = cfg.first_ttl;
        for _ in 0..n {
            if count >= 512 || ttl > cfg.max_ttl { break; }
            t += 1000;
            ops.push(OpT::Next(t));
            let mk = |q: u16, ttl: u8, t: u64| Probe { sequence: Sequence(q), identifier: TraceId(cfg.trace_id), src_port: trippy_core::Port(5000), dest_port: trippy_core::Port(33434), ttl: TimeToLive(ttl), round: trippy_core::RoundId(r), sent: vclock::from_ns(t), flags: trippy_core::Flags::empty() };
            sent.push((seq, mk(seq, ttl, t)));
            seq = seq.wrapping_add(1); count += 1;
            // TCP: bursts of re-issues
            if cfg.proto == Protocol::Tcp && rng.chance(1, 5) {
                let burst = *rng.pick(&[1u32, 2, 7, 8, 9, 60, 600]);
                for _ in 0..burst {
                    if count >= 512 { break; }
                    t += 10;
                    ops.push(OpT::Reissue(t));
                    sent.pop();
                    sent.push((seq, mk(seq, ttl, t)));
                    seq = seq.wrapping_add(1); count += 1;
                }
            }
            if rng.chance(1, 12) { ops.push(OpT::Fail); sent.pop(); }
            ttl = ttl.saturating_add(1);
        }
        // responses: genuine ones, duplicates, and window-edge injections
        let k = rng.below(6);
        for _ in 0..k {
            let kind = rng.below(10);
            let q = match kind {
                0..=3 if !sent.is_empty() => sent[rng.below(sent.len() as u64) as usize].0,
                4 | 5 => round_start_seq.wrapping_add(count as u16).wrapping_add(rng.below(45) as u16),   // in window, not sent (stale slots)
                6 => round_start_seq.wrapping_sub(1 + rng.below(40) as u16),                                 // previous round
                7 => round_start_seq.wrapping_add(*rng.pick(&[510u16, 511, 512, 513])),
                8 => cfg.initial_sequence.wrapping_add(rng.below(45) as u16),
                _ => rng.next() as u16,
            };
            let base = Probe { sequence: Sequence(q), identifier: TraceId(cfg.trace_id), src_port: match cfg.portdir { PortDirection::FixedSrc(p) | PortDirection::FixedBoth(p, _) => p, _ => trippy_core::Port(5000) },
                dest_port: match cfg.portdir { PortDirection::FixedDest(p) | PortDirection::FixedBoth(_, p) => p, _ => trippy_core::Port(33434) }, ttl: TimeToLive(1), round: trippy_core::RoundId(r), sent: vclock::from_ns(t), flags: trippy_core::Flags::empty() };
            let p2 = probe_with_seq(&cfg, &base, q);
            let pr = SimEnv::proto_resp(&cfg, &p2, None);
            let from = if rng.chance(1, 3) { cfg.target } else { rand_addr(rng, cfg.target.is_ipv6()) };
            t += 500;
            let d = ResponseData::new(vclock::from_ns(t), from, pr);
            let resp = if rng.chance(1, 4) { Response::EchoReply(d, IcmpPacketCode(0)) } else { Response::TimeExceeded(d, IcmpPacketCode(0), None) };
            ops.push(OpT::Complete(resp));
        }
        t += 10_000;
        ops.push(OpT::Advance(t));
        if u32::from(seq) >= maxseq { seq = cfg.initial_sequence; }
    }
    (cfg, ops)
}

fn one(cfg: &Cfg, ops: &[OpT], out: &mut Out) {
    let input = format!("tsops {} {}", cfg.render(), render_ops(ops));
    let (o, fails) = exec_ops(cfg, ops);
    out.case(&input, &o, &crate::oracles::verdict(&fails));
}

pub fn run(args: &Args, out: &mut Out) {
    vclock::enable(vclock::BASE_NS);
    if let Some(path) = &args.replay {
        for l in crate::replay_inputs(path) {
            let t: Vec<&str> = l.split(' ').collect();
            if t[0] != "tsops" { continue; }
            one(&Cfg::parse(t[1]), &parse_ops(t[2]), out);
        }
        return;
    }
    let mut rng = Rng::new(args.seed ^ 0x7505);
    let n = args.n.unwrap_or(if args.tier_thorough { 3000 } else { 250 });
    let mut rounds = 0usize;
    for _ in 0..n {
        let (cfg, ops) = gen(&mut rng, args.tier_thorough);
        rounds += ops.iter().filter(|o| matches!(o, OpT::Advance(_))).count();
        one(&cfg, &ops, out);
    }
    out.stat("tsops_rounds_total", rounds);
}
