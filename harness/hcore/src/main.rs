#![allow(dead_code)]
mod rng;
mod sim;
mod vclock;
mod m_c11;
mod m_c12;
mod m_c13;
mod m_c14;
mod m_c04pkt;
mod pkt;
mod m_c16grid;
mod m_e2e;
mod m_platform;
mod m_cfgmap;
mod m_c20;
mod m_recv;
mod m_faults;
mod m_run;
mod m_state;
mod m_tsops;
mod oracles;
mod simnet;
mod strat;
mod tracesub;

use std::io::Write;

pub struct Out {
    w: std::io::BufWriter<std::io::Stdout>,
    pub n: usize,
}
impl Out {
    /// `input` = "fn args…", `output` = the implementation's observable, `oracle` = "ok" or "FAIL:…"
    pub fn case(&mut self, input: &str, output: &str, oracle: &str) {
        writeln!(self.w, "{} {} => {} ## {}", self.n, input, output, oracle).unwrap();
        self.n += 1;
    }
    pub fn stat(&mut self, key: &str, val: impl std::fmt::Display) {
        writeln!(self.w, "#stat {key} {val}").unwrap();
    }
}

pub struct Args {
    pub seed: u64,
    pub tier_thorough: bool,
    pub replay: Option<String>,
    pub n: Option<usize>,
}

fn main() {
    let argv: Vec<String> = std::env::args().collect();
    if argv.len() < 2 {
        eprintln!("usage: hcore <mode> [--seed N] [--tier quick|thorough] [--replay FILE] [--n N]");
        std::process::exit(2);
    }
    let mode = argv[1].clone();
    let mut args = Args { seed: 1, tier_thorough: false, replay: None, n: None };
    let mut i = 2;
    while i < argv.len() {
        match argv[i].as_str() {
            "--seed" => { args.seed = argv[i + 1].parse().unwrap(); i += 2; }
            "--tier" => { args.tier_thorough = argv[i + 1] == "thorough"; i += 2; }
            "--replay" => { args.replay = Some(argv[i + 1].clone()); i += 2; }
            "--n" => { args.n = Some(argv[i + 1].parse().unwrap()); i += 2; }
            other => { eprintln!("unknown arg {other}"); std::process::exit(2); }
        }
    }
    // panics are caught per case; keep stderr quiet
    if std::env::var("VERIF_PANIC_TRACE").is_err() {
        std::panic::set_hook(Box::new(|_| {}));
    }
    let mut out = Out { w: std::io::BufWriter::new(std::io::stdout()), n: 0 };
    match mode.as_str() {
        "c13" => m_c13::run(&args, &mut out),
        "c12" => m_c12::run(&args, &mut out),
        "c14" => m_c14::run(&args, &mut out),
        "c04pkt" => m_c04pkt::run(&args, &mut out),
        "c11" => m_c11::run(&args, &mut out),
        "run" => m_run::run(&args, &mut out),
        "faults" => m_faults::run(&args, &mut out),
        "state" => m_state::run(&args, &mut out),
        "tsops" => m_tsops::run(&args, &mut out),
        "c20" => m_c20::run(&args, &mut out),
        "recv" => m_recv::run(&args, &mut out),
        "cfgmap" => m_cfgmap::run(&args, &mut out),
        "c16grid" => m_c16grid::run(&args, &mut out),
        "e2e" => m_e2e::run(&args, &mut out),
        "platform" => m_platform::run(&args, &mut out),
        other => { eprintln!("unknown mode {other}"); std::process::exit(2); }
    }
    out.w.flush().unwrap();
}

/// Replay support: the input part (after the id, before " => ") of each line of a case file.
pub fn replay_inputs(path: &str) -> Vec<String> {
    let text = std::fs::read_to_string(path).unwrap_or_default();
    text.lines()
        .filter(|l| !l.starts_with('#') && !l.trim().is_empty())
        .map(|l| {
            let l = l.split(" => ").next().unwrap();
            let mut it = l.splitn(2, ' ');
            let first = it.next().unwrap();
            if first.chars().all(|c| c.is_ascii_digit()) { it.next().unwrap_or("").to_string() } else { l.to_string() }
        })
        .collect()
}

pub fn panic_msg(e: Box<dyn std::any::Any + Send>) -> String {
    if let Some(s) = e.downcast_ref::<&str>() { (*s).to_string() }
    else if let Some(s) = e.downcast_ref::<String>() { s.clone() }
    else { "panic".to_string() }
}
