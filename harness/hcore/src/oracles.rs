//! Model-free oracles over a recorded run: each literally evaluates a property statement on the
//! implementation's recorded behaviour plus the simulator's ground truth.
use crate::strat::{Cfg, RecvO, RunOut, SendO};
use crate::vclock;
use std::collections::HashMap;
use std::net::IpAddr;
use trippy_core::verif::Response;
use trippy_core::{CompletionReason, MultipathStrategy, ProbeStatus, Protocol};

/// ground truth per delivered response, in delivery order: Some((sequence, round)) of the probe it
/// genuinely answers, None for injected garbage
pub type Truth = Vec<Option<(u16, usize)>>;

pub fn render_truth(t: &Truth) -> String {
    if t.is_empty() { return "-".to_string(); }
    t.iter().map(|x| x.map_or("x".to_string(), |(s, r)| format!("{s}@{r}"))).collect::<Vec<_>>().join(",")
}
pub fn parse_truth(s: &str) -> Truth {
    if s == "-" { return vec![]; }
    s.split(',').map(|x| if x == "x" { None } else { let (a, b) = x.split_once('@').unwrap(); Some((a.parse().unwrap(), b.parse().unwrap())) }).collect()
}

fn resp_parts(r: &Response) -> (IpAddr, u64, String) {
    let d = r.data();
    let kind = match r {
        Response::TimeExceeded(_, c, _) => format!("te{}", c.0),
        Response::DestinationUnreachable(_, c, _) => format!("du{}", c.0),
        Response::EchoReply(_, c) => format!("er{}", c.0),
        Response::TcpReply(_) | Response::TcpRefused(_) => "na".to_string(),
    };
    (d.addr, vclock::to_ns(d.recv), kind)
}
fn is_target_resp(cfg: &Cfg, r: &Response) -> bool {
    match r {
        Response::TimeExceeded(d, ..) | Response::DestinationUnreachable(d, ..) => d.addr == cfg.target,
        _ => true,
    }
}

#[derive(Default, Clone)]
struct RoundTruth {
    sent: Vec<(u16, u8, SendO, u64)>,                     // seq, ttl, outcome, sent time
    answered: HashMap<u16, (IpAddr, u64, String, u64)>,   // seq -> host, recv, kind, sent
    answered_exts: HashMap<u16, String>,                  // seq -> the extensions the genuine response carried (canonical text)
    target_answered: bool,
    last_genuine_recv: Option<u64>,
    start: u64,
}

pub fn evaluate(cfg: &Cfg, out: &RunOut, truth: Option<&Truth>, stable_path: bool) -> Vec<String> {
    let mut fails: Vec<String> = vec![];
    if out.result.starts_with("err:badconfig") {
        return fails;
    }
    let mut fail = |p: &str, m: String| { if fails.len() < 12 { fails.push(format!("{p}:{m}")); } };
    for m in &out.stamp_fails {
        fail("C01", format!("a_probe_is_stamped_with_a_time_other_than_when_it_was_handed_to_the_network:{m}"));
    }
    let first = cfg.first_ttl;
    let mut cur = RoundTruth { start: out.t0, ..Default::default() };
    let mut round_idx = 0usize;
    let mut send_i = 0usize;
    let mut deliv_i = 0usize;
    let mut pub_i = 0usize;
    let mut prev_round_seqs: Vec<u16> = vec![];
    let mut known_target_dist: Option<u8> = None;
    // the farthest ttl at which the target's address ever answered (the tracer's target distance is one of the ttls seen)
    let mut max_target_dist_seen: u8 = 0;
    let mut first_fatal: Option<String> = None;
    let n_iters = out.iters.len();
    for (ii, it) in out.iters.iter().enumerate() {
        // ---- sends of this iteration
        for (k, o) in it.sends.iter().enumerate() {
            let Some((p, _)) = out.sends.get(send_i) else { break };
            send_i += 1;
            let (seq, ttl) = (p.sequence.0, p.ttl.0);
            // C06
            if p.round.0 != round_idx {
                fail("C09", format!("probe seq {seq} carries round {} while round {round_idx} is in progress", p.round.0));
            }
            match cur.sent.last() {
                None => if ttl != first { fail("C06", format!("round {round_idx} starts with ttl {ttl}, first_ttl {first}")); },
                Some((_, pt, po, _)) => {
                    let expect = if *po == SendO::InUse { *pt } else { pt + 1 };
                    if ttl != expect { fail("C06", format!("round {round_idx}: ttl {ttl} after ttl {pt} ({po:?}), expected {expect}")); }
                }
            }
            if ttl > cfg.max_ttl { fail("C06", format!("ttl {ttl} > max_ttl {}", cfg.max_ttl)); }
            if truth.is_some() {
                if cur.target_answered && k == 0 { fail("C06", format!("round {round_idx}: probe ttl {ttl} sent after the target answered")); }
                if let (true, Some(d)) = (stable_path, known_target_dist) {
                    if ttl > d { fail("C06", format!("round {round_idx}: ttl {ttl} beyond the established target distance {d}")); }
                }
                if known_target_dist.is_none() {
                    let far = cur.answered.keys().filter_map(|s| cur.sent.iter().find(|x| x.0 == *s).map(|x| x.1)).max().unwrap_or(first.saturating_sub(1));
                    if u32::from(ttl) > u32::from(far) + u32::from(cfg.max_inflight) {
                        fail("C06", format!("round {round_idx}: ttl {ttl} is more than max_inflight {} beyond farthest answered {far}", cfg.max_inflight));
                    }
                }
            }
            // C07
            if let Some((ps, ..)) = cur.sent.last() {
                if seq != ps.wrapping_add(1) || *ps == u16::MAX { fail("C07", format!("round {round_idx}: sequence {seq} after {ps}")); }
            }
            if seq == u16::MAX { fail("C07", "sequence 65535 issued".to_string()); }
            if cur.sent.len() >= 512 { fail("C07", format!("round {round_idx}: more than 512 sequences")); }
            if prev_round_seqs.contains(&seq) {
                fail("C07", format!("sequence {seq} of round {} reused in round {round_idx}", round_idx.wrapping_sub(1)));
            }
            if cfg.proto == Protocol::Udp && cfg.strategy == MultipathStrategy::Dublin && cfg.target.is_ipv6() {
                let plen = u32::from(seq.wrapping_sub(cfg.initial_sequence)) + 6;
                if seq < cfg.initial_sequence || plen > 976 { fail("C07", format!("dublin/ipv6 payload length {plen} for sequence {seq}")); }
            }
            cur.sent.push((seq, ttl, o.clone(), vclock::to_ns(p.sent)));
            if let SendO::Fatal(k) = o { if first_fatal.is_none() { first_fatal = Some(k.tok().to_string()); } }
            if *o == SendO::InUse && cfg.proto != Protocol::Tcp && first_fatal.is_none() { first_fatal = Some("inuse".to_string()); }
        }
        if cfg.proto == Protocol::Tcp && it.sends.last() == Some(&SendO::InUse) && !(ii + 1 == n_iters && out.result == "err:cap") {
            fail("C09", format!("iteration {ii}: address-in-use was not followed by a re-issued probe (nor by a capacity error)"));
        }
        if first_fatal.is_some() { break; }
        // ---- the delivery of this iteration
        match &it.recv {
            RecvO::Fatal(k) => { first_fatal = Some(k.tok().to_string()); break; }
            RecvO::Timeout => {}
            RecvO::Resp(r) => {
                if let Some(t) = truth {
                    let g = t.get(deliv_i).copied().flatten();
                    deliv_i += 1;
                    if let Some((seq, rnd)) = g {
                        let sent = cur.sent.iter().find(|x| x.0 == seq && x.2 == SendO::Sent);
                        if rnd == round_idx && sent.is_some() && !cur.answered.contains_key(&seq) {
                            let (host, recv, kind) = resp_parts(r);
                            cur.answered.insert(seq, (host, recv, kind, sent.unwrap().3));
                            let e = match r {
                                Response::TimeExceeded(_, _, e) | Response::DestinationUnreachable(_, _, e) => crate::strat::opt_exts(e),
                                _ => "-".to_string(),
                            };
                            cur.answered_exts.insert(seq, e);
                            cur.last_genuine_recv = Some(recv);
                            if is_target_resp(cfg, r) {
                                cur.target_answered = true;
                                let ttl = sent.unwrap().1;
                                known_target_dist = Some(known_target_dist.map_or(ttl, |d| d.min(ttl)));
                                max_target_dist_seen = max_target_dist_seen.max(ttl);
                            }
                        }
                    }
                }
            }
        }
        // ---- update_round
        let dur = it.upd.saturating_sub(cur.start);
        if truth.is_some() {
            let grace = cur.last_genuine_recv.is_some_and(|l| it.upd.saturating_sub(l) > cfg.grace_ns);
            let policy = dur > cfg.max_ns || (dur > cfg.min_ns && cur.target_answered && grace);
            if policy != it.published && !(ii + 1 == n_iters && out.result != "ok") {
                fail("C08", format!("iteration {ii}: policy says publish={policy} (dur {dur}, min {}, max {}, target_answered {}, grace {grace}) but published={}",
                    cfg.min_ns, cfg.max_ns, cur.target_answered, it.published));
            }
        }
        if it.published {
            let Some(r) = out.rounds.get(pub_i) else { fail("C09", "publish flag without a round".to_string()); break };
            pub_i += 1;
            if truth.is_some() {
                let want = if cur.target_answered { CompletionReason::TargetFound } else { CompletionReason::RoundTimeLimitExceeded };
                if r.reason != want { fail("C08", format!("round {round_idx}: reason {:?}, ground truth says {:?}", r.reason, want)); }
            }
            // C01: the published round against ground truth
            if r.probes.len() != cur.sent.len() {
                fail("C01", format!("round {round_idx}: {} statuses published for {} probes sent", r.probes.len(), cur.sent.len()));
            }
            for (st, (seq, ttl, o, sent_t)) in r.probes.iter().zip(cur.sent.iter()) {
                match (st, o) {
                    (ProbeStatus::Skipped, SendO::InUse) => {}
                    (ProbeStatus::Failed(f), SendO::Failed) => {
                        if f.sequence.0 != *seq || f.ttl.0 != *ttl { fail("C01", format!("round {round_idx}: failed slot {}/{} for probe {seq}/{ttl}", f.sequence.0, f.ttl.0)); }
                    }
                    (ProbeStatus::Awaited(a), SendO::Sent) => {
                        if a.sequence.0 != *seq || a.ttl.0 != *ttl || a.round.0 != round_idx { fail("C01", format!("round {round_idx}: awaited slot mismatch for {seq}")); }
                        if truth.is_some() && cur.answered.contains_key(seq) { fail("C01", format!("round {round_idx}: probe {seq} genuinely answered but reported awaited")); }
                    }
                    (ProbeStatus::Complete(c), SendO::Sent) => {
                        if c.sequence.0 != *seq || c.ttl.0 != *ttl || c.round.0 != round_idx || vclock::to_ns(c.sent) != *sent_t { fail("C01", format!("round {round_idx}: complete slot mismatch for {seq}")); }
                        if truth.is_some() {
                            match cur.answered.get(seq) {
                                None => fail("C01", format!("round {round_idx}: probe {seq} reported complete without a genuine response")),
                                Some((host, recv, kind, _)) => {
                                    let k = crate::strat::render_icmp(&c.icmp_packet_type);
                                    if c.host != *host || vclock::to_ns(c.received) != *recv || k != *kind {
                                        fail("C01", format!("round {round_idx}: probe {seq} complete with host {}/{}/{k}, truth {host}/{recv}/{kind}", c.host, vclock::to_ns(c.received)));
                                    }
                                    // C14 / C01: the extensions of the genuine response reach the published round unchanged
                                    let got = crate::strat::opt_exts(&c.extensions);
                                    if let Some(want) = cur.answered_exts.get(seq) {
                                        if got != *want {
                                            fail("C14", format!("round {round_idx}: probe {seq} complete with extensions {got}, the response carried {want}"));
                                            fail("C01", format!("round {round_idx}: probe {seq} complete with extensions {got}, the response carried {want}"));
                                        }
                                    }
                                }
                            }
                        }
                    }
                    (s, o) => fail("C01", format!("round {round_idx}: probe {seq} sent with outcome {o:?} reported as {}", crate::strat::render_status(s).chars().take(40).collect::<String>())),
                }
            }
            // C10 (strategy side): largest_ttl is 0 or within the probed range
            let max_sent = cur.sent.iter().map(|x| x.1).max().unwrap_or(0);
            if r.largest_ttl != 0 && (r.largest_ttl < first || r.largest_ttl > max_sent.max(max_target_dist_seen)) {
                fail("C10", format!("round {round_idx}: largest_ttl {} outside probed range {first}..{max_sent}", r.largest_ttl));
            }
            if truth.is_some() && cur.answered.is_empty() && known_target_dist.is_none() && r.largest_ttl != 0 {
                fail("C10", format!("round {round_idx}: nothing answered but largest_ttl {}", r.largest_ttl));
            }
            // (a configuration with first_ttl > max_ttl or a window of zero probes - accepted by the library builder, refused by the
            //  command line - can send nothing: "starts at first_ttl" and "never beyond max_ttl / the window" cannot both be met)
            if cur.sent.is_empty() && cfg.first_ttl <= cfg.max_ttl && cfg.max_inflight >= 1 { fail("C06", format!("round {round_idx} sent no probe")); }
            // next round
            if let Some(next_first) = out.sends.get(send_i).map(|x| x.0.sequence.0) {
                if let Some(last) = cur.sent.last().map(|x| x.0) {
                    if next_first != last.wrapping_add(1) && next_first != cfg.initial_sequence {
                        fail("C07", format!("round {} starts at {next_first} after {last} (initial {})", round_idx + 1, cfg.initial_sequence));
                    }
                }
            }
            prev_round_seqs = cur.sent.iter().map(|x| x.0).collect();
            cur = RoundTruth { start: it.adv, ..Default::default() };
            round_idx += 1;
        }
    }
    // ---- a run the harness had to end (iteration budget of the environment): every iteration waits at least one read timeout, so the
    //      budget alone is no failure for long traces - but the round in progress must not have been open for longer than the
    //      policy allows (max-round-duration plus one wait of at most 10 ms and the sends of one iteration)
    if out.budget_hit && truth.is_some() {
        let open_for = out.end_ns.saturating_sub(cur.start);
        if open_for > cfg.max_ns + 25_000_000 {
            fail("C08", format!("round {round_idx} was still open {open_for} ns after it started (max-round-duration {} ns) when the harness gave up", cfg.max_ns));
            fail("C09", format!("the run did not terminate: round {round_idx} of {} never completed", cfg.max_rounds));
        }
    }
    // ---- C09: termination and failure semantics
    match (&out.result[..], &first_fatal) {
        ("ok", None) => {
            if cfg.max_rounds > 0 && out.rounds.len() != cfg.max_rounds { fail("C09", format!("finished with {} rounds, limit {}", out.rounds.len(), cfg.max_rounds)); }
        }
        ("ok", Some(k)) => fail("C09", format!("fatal {k} was injected but the run returned ok")),
        (r, Some(k)) if r.starts_with("err:") => {
            if &r[4..] != k { fail("C09", format!("fatal {k} surfaced as {r}")); }
            if let Some(s) = &out.snapshot { if s.error().is_none() { fail("C09", "fatal error not visible in the snapshot".to_string()); } }
            if let Some(None) = &out.error_after_clear { fail("C09", "error of the ended run no longer visible in snapshots after clear()".to_string()); }
        }
        ("err:cap", None) => {
            // capacity error: only legitimate for TCP when a round used all 512 sequences
            if !(cfg.proto == Protocol::Tcp && cur.sent.len() >= 512) { fail("C09", format!("capacity error with {} sequences used in the round", cur.sent.len())); }
        }
        (r, None) => fail("C09", format!("result {r} although no fatal error was injected")),
        _ => {}
    }
    if cfg.max_rounds > 0 && out.rounds.len() > cfg.max_rounds { fail("C09", format!("{} rounds published, limit {}", out.rounds.len(), cfg.max_rounds)); }
    for (j, r) in out.rounds.iter().enumerate() {
        for st in &r.probes {
            let rid = match st { ProbeStatus::Awaited(p) => Some(p.round.0), ProbeStatus::Complete(c) => Some(c.round.0), ProbeStatus::Failed(f) => Some(f.round.0), _ => None };
            if let Some(rid) = rid { if rid != j { fail("C09", format!("round {j} contains a probe of round {rid}")); } }
        }
    }
    fails
}

pub fn verdict(fails: &[String]) -> String {
    if fails.is_empty() { "ok".to_string() } else { format!("FAIL:{}", fails.join(";").replace(' ', "_")) }
}
