//! Shared by the `c14` and `c04pkt` modes: an independent RFC 4884 / RFC 4950 message builder (the oracle's
//! ground truth, written from the RFCs and not from trippy's parser), dumps of every non-mutating accessor of
//! every trippy-packet view, and the compact field sweeps.
use crate::rng::{hex, Rng};
use std::panic::{catch_unwind, AssertUnwindSafe};
use trippy_core::{Extension, Extensions};
use trippy_packet::icmp_extension::extension_header::ExtensionHeaderPacket;
use trippy_packet::icmp_extension::extension_object::ExtensionObjectPacket;
use trippy_packet::icmp_extension::extension_structure::ExtensionsPacket;
use trippy_packet::icmp_extension::mpls_label_stack::MplsLabelStackPacket;
use trippy_packet::icmp_extension::mpls_label_stack_member::MplsLabelStackMemberPacket;
use trippy_packet::ipv4::Ipv4Packet;
use trippy_packet::ipv6::Ipv6Packet;
use trippy_packet::tcp::TcpPacket;
use trippy_packet::udp::UdpPacket;
use trippy_packet::{icmpv4, icmpv6};

// ------------------------------------------------------------------------------------------------
// RFC builder (specification side)
// ------------------------------------------------------------------------------------------------
#[derive(Clone, Debug)]
pub struct Lse {
    pub label: u32,
    pub exp: u8,
    pub s: u8,
    pub ttl: u8,
}
#[derive(Clone, Debug)]
pub enum Obj {
    Mpls(u8, Vec<Lse>),
    Other(u8, u8, Vec<u8>),
}

pub fn enc_lse(e: &Lse) -> [u8; 4] {
    // RFC 3032 s.2.1: label(20) exp(3) S(1) ttl(8)
    let w: u32 = (e.label << 12) | (u32::from(e.exp) << 9) | (u32::from(e.s) << 8) | u32::from(e.ttl);
    w.to_be_bytes()
}
pub fn obj_payload(o: &Obj) -> Vec<u8> {
    match o {
        Obj::Mpls(_, st) => st.iter().flat_map(|e| enc_lse(e).to_vec()).collect(),
        Obj::Other(_, _, p) => p.clone(),
    }
}
pub fn enc_obj(o: &Obj) -> Vec<u8> {
    let p = obj_payload(o);
    let n = (4 + p.len()) as u16;
    let (c, t) = match o {
        Obj::Mpls(t, _) => (1u8, *t),
        Obj::Other(c, t, _) => (*c, *t),
    };
    let mut v = vec![(n >> 8) as u8, n as u8, c, t];
    v.extend(p);
    v
}
fn rfc1071(d: &[u8]) -> u16 {
    let mut acc: u64 = 0;
    for c in d.chunks(2) {
        let w = if c.len() == 2 { u16::from_be_bytes([c[0], c[1]]) } else { u16::from(c[0]) << 8 };
        acc += u64::from(w);
        if acc > 0xFFFF {
            acc = (acc & 0xFFFF) + 1;
        }
    }
    !(acc as u16)
}
pub fn ext_structure(objs: &[Obj]) -> Vec<u8> {
    let mut v = vec![0x20u8, 0, 0, 0];
    for o in objs {
        v.extend(enc_obj(o));
    }
    let c = rfc1071(&v);
    v[2] = (c >> 8) as u8;
    v[3] = c as u8;
    v
}
pub fn word(v6: bool) -> usize {
    if v6 { 8 } else { 4 }
}
pub fn pad_word(v6: bool, orig: &[u8]) -> Vec<u8> {
    let w = word(v6);
    let mut v = orig.to_vec();
    while v.len() % w != 0 {
        v.push(0);
    }
    v
}
fn pad_to(n: usize, mut v: Vec<u8>) -> Vec<u8> {
    while v.len() < n {
        v.push(0);
    }
    v
}
/// `fixed`: the seven octets of the ICMP header other than the length attribute
pub fn build_message(v6: bool, fixed: &[u8; 7], orig: &[u8], objs: &[Obj], compliant: bool) -> Vec<u8> {
    let (quoted, l) = if compliant {
        let p = pad_word(v6, orig);
        let l = p.len() / word(v6);
        assert!(l <= 255);
        (pad_to(128, p), l as u8)
    } else {
        (pad_to(128, orig[..orig.len().min(128)].to_vec()), 0u8)
    };
    let k = if v6 { 4 } else { 5 };
    let mut m = fixed[..k].to_vec();
    m.push(l);
    m.extend(&fixed[k..]);
    m.extend(quoted);
    m.extend(ext_structure(objs));
    m
}
pub fn expected_datagram(v6: bool, orig: &[u8], compliant: bool) -> Vec<u8> {
    if compliant { pad_word(v6, orig) } else { pad_to(128, orig[..orig.len().min(128)].to_vec()) }
}
/// canonical encoding (same as strat::enc_exts) of what a faithful parser reports for `objs`;
/// None when some MPLS object carries no entry at all (not a label stack: RFC 4950 objects hold >= 1 entry)
pub fn expected_exts(objs: &[Obj]) -> Option<Vec<u8>> {
    let mut v = vec![];
    for o in objs {
        match o {
            Obj::Other(c, t, p) => {
                v.extend([0, *c, *t, (p.len() >> 8) as u8, p.len() as u8]);
                v.extend(p);
            }
            Obj::Mpls(_, st) => {
                if st.is_empty() {
                    return None;
                }
                let mut upto = vec![];
                for e in st {
                    upto.push(e.clone());
                    if e.s > 0 {
                        break;
                    }
                }
                v.extend([1, (upto.len() >> 8) as u8, upto.len() as u8]);
                for e in upto {
                    v.extend([(e.label >> 16) as u8, (e.label >> 8) as u8, e.label as u8, e.exp, e.s, e.ttl]);
                }
            }
        }
    }
    Some(v)
}
pub fn obj_tok(o: &Obj) -> String {
    match o {
        Obj::Mpls(t, st) => format!(
            "M:{t}:{}",
            if st.is_empty() { "-".to_string() } else { st.iter().map(|e| format!("{}/{}/{}/{}", e.label, e.exp, e.s, e.ttl)).collect::<Vec<_>>().join(";") }
        ),
        Obj::Other(c, t, p) => format!("O:{c}:{t}:{}", hex(p)),
    }
}
pub fn objs_tok(objs: &[Obj]) -> String {
    if objs.is_empty() { "-".to_string() } else { objs.iter().map(obj_tok).collect::<Vec<_>>().join(",") }
}
pub fn random_stack(rng: &mut Rng, depth: usize, wellformed: bool) -> Vec<Lse> {
    (0..depth)
        .map(|i| Lse {
            label: match rng.below(4) { 0 => 0, 1 => 0xFFFFF, _ => (rng.next() as u32) & 0xFFFFF },
            exp: rng.below(8) as u8,
            s: if wellformed { u8::from(i + 1 == depth) } else { rng.below(2) as u8 },
            ttl: rng.next() as u8,
        })
        .collect()
}
pub fn random_obj(rng: &mut Rng) -> Obj {
    if rng.chance(1, 2) {
        let depth = rng.range(1, 8) as usize;
        let wf = rng.chance(3, 4);
        Obj::Mpls(rng.next() as u8, random_stack(rng, depth, wf))
    } else {
        let c = *rng.pick(&[0u8, 2, 3, 4, 5, 127, 255]);
        let n = *rng.pick(&[0usize, 1, 2, 3, 4, 5, 7, 8, 12, 20, 40]);
        Obj::Other(c, rng.next() as u8, rng.bytes(n))
    }
}
pub fn random_objs(rng: &mut Rng, n: usize) -> Vec<Obj> {
    (0..n).map(|_| random_obj(rng)).collect()
}

// ------------------------------------------------------------------------------------------------
// canonical printing
// ------------------------------------------------------------------------------------------------
pub fn enc_exts(e: &Extensions) -> Vec<u8> {
    let mut v = vec![];
    for x in &e.extensions {
        match x {
            Extension::Unknown(u) => {
                v.extend([0, u.class_num, u.class_subtype, (u.bytes.len() >> 8) as u8, u.bytes.len() as u8]);
                v.extend(&u.bytes);
            }
            Extension::Mpls(m) => {
                v.extend([1, (m.members.len() >> 8) as u8, m.members.len() as u8]);
                for mm in &m.members {
                    v.extend([(mm.label >> 16) as u8, (mm.label >> 8) as u8, mm.label as u8, mm.exp, mm.bos, mm.ttl]);
                }
            }
        }
    }
    v
}
pub fn exts_tok(e: &Extensions) -> String {
    let h = hex(&enc_exts(e));
    format!("+{}", if h == "-" { String::new() } else { h })
}
pub fn fnv(b: &[u8]) -> u32 {
    let mut h: u32 = 0x811c_9dc5;
    for x in b {
        h = (h ^ u32::from(*x)).wrapping_mul(16_777_619);
    }
    h
}
pub fn digest(b: &[u8]) -> String {
    format!("{}.{:08x}", b.len(), fnv(b))
}
pub fn filler(seed: usize, len: usize) -> Vec<u8> {
    (0..len).map(|i| ((seed * 131 + i * 31 + (i >> 8) * 7) & 0xff) as u8).collect()
}
/// offset of a sub-slice inside `buf` (pointer arithmetic on what the implementation returned); None = not inside
pub fn offset_in(buf: &[u8], s: &[u8]) -> Option<usize> {
    if s.is_empty() {
        return Some(0);
    }
    let b = buf.as_ptr() as usize;
    let p = s.as_ptr() as usize;
    if p >= b && p + s.len() <= b + buf.len() { Some(p - b) } else { None }
}
/// iterator items are suffixes of the buffer: print their start offsets
pub fn offsets(n: usize, items: &[&[u8]]) -> String {
    if items.is_empty() { "-".to_string() } else { items.iter().map(|i| (n - i.len()).to_string()).collect::<Vec<_>>().join(",") }
}

/// run one accessor under catch_unwind
pub fn guard<T>(f: impl FnOnce() -> T) -> Result<T, ()> {
    catch_unwind(AssertUnwindSafe(f)).map_err(|_| ())
}
fn tok<T>(r: Result<T, ()>, f: impl FnOnce(T) -> String) -> String {
    match r {
        Ok(v) => f(v),
        Err(()) => "fault:panic".to_string(),
    }
}
pub fn opt_hex(o: Option<&[u8]>) -> String {
    match o { None => "~".to_string(), Some(b) => hex(b) }
}

/// the objects iterator with a step cap (so that a non-terminating iterator is reported, not waited for)
pub fn objects_capped<'a>(p: &'a ExtensionsPacket<'_>, n: usize) -> (Vec<&'a [u8]>, bool) {
    let cap = n / 4 + 2;
    let v: Vec<&[u8]> = p.objects().take(cap).collect();
    let over = v.len() >= cap;
    (v, over)
}
pub fn members_capped<'a>(p: &'a MplsLabelStackPacket<'_>, n: usize) -> (Vec<&'a [u8]>, bool) {
    let cap = n / 4 + 2;
    let v: Vec<&[u8]> = p.members().take(cap).collect();
    let over = v.len() >= cap;
    (v, over)
}

// ------------------------------------------------------------------------------------------------
// every non-mutating accessor of every view (order = Packet/Views.v view_accessors)
// ------------------------------------------------------------------------------------------------
macro_rules! acc {
    ($v:ident, $name:expr, $e:expr, $f:expr) => {
        $v.push(format!("{}={}", $name, tok(guard(|| $e), $f)));
    };
}
fn int<T: Into<u64>>(x: T) -> String {
    x.into().to_string()
}
fn hx(b: &[u8]) -> String {
    hex(b)
}

macro_rules! icmp_common {
    ($v:ident, $p:ident) => {
        acc!($v, "type", $p.get_icmp_type().id(), int);
        acc!($v, "code", $p.get_icmp_code().0, int);
        acc!($v, "checksum", $p.get_checksum(), int);
    };
}
macro_rules! echo_view {
    ($ty:ty, $buf:ident) => {{
        match <$ty>::new_view($buf) {
            Err(_) => "err".to_string(),
            Ok(p) => {
                let mut v: Vec<String> = vec![];
                icmp_common!(v, p);
                acc!(v, "identifier", p.get_identifier(), int);
                acc!(v, "sequence", p.get_sequence(), int);
                acc!(v, "payload", p.payload().to_vec(), |b: Vec<u8>| hx(&b));
                acc!(v, "dbg", format!("{p:?}").len(), |_| "ok".to_string());
                v.join(" ")
            }
        }
    }};
}
macro_rules! te_view {
    ($ty:ty, $buf:ident) => {{
        match <$ty>::new_view($buf) {
            Err(_) => "err".to_string(),
            Ok(p) => {
                let mut v: Vec<String> = vec![];
                icmp_common!(v, p);
                acc!(v, "length", p.get_length(), int);
                acc!(v, "payload", p.payload().to_vec(), |b: Vec<u8>| hx(&b));
                acc!(v, "payload_raw", p.payload_raw().to_vec(), |b: Vec<u8>| hx(&b));
                acc!(v, "extension", p.extension().map(<[u8]>::to_vec), |o: Option<Vec<u8>>| opt_hex(o.as_deref()));
                acc!(v, "dbg", format!("{p:?}").len(), |_| "ok".to_string());
                v.join(" ")
            }
        }
    }};
}

macro_rules! du_line {
    ($p:ident) => {{
        let mut v: Vec<String> = vec![];
        icmp_common!(v, $p);
        acc!(v, "length", $p.get_length(), int);
        acc!(v, "next_hop_mtu", $p.get_next_hop_mtu(), int);
        acc!(v, "payload", $p.payload().to_vec(), |b: Vec<u8>| hx(&b));
        acc!(v, "payload_raw", $p.payload_raw().to_vec(), |b: Vec<u8>| hx(&b));
        acc!(v, "extension", $p.extension().map(<[u8]>::to_vec), |o: Option<Vec<u8>>| opt_hex(o.as_deref()));
        acc!(v, "dbg", format!("{:?}", $p).len(), |_| "ok".to_string());
        v.join(" ")
    }};
}

pub fn view_line(name: &str, buf: &[u8]) -> String {
    let n = buf.len();
    match name {
        "ipv4" => match Ipv4Packet::new_view(buf) {
            Err(_) => "err".to_string(),
            Ok(p) => {
                let mut v: Vec<String> = vec![];
                acc!(v, "version", p.get_version(), int);
                acc!(v, "ihl", p.get_header_length(), int);
                acc!(v, "dscp", p.get_dscp(), int);
                acc!(v, "ecn", p.get_ecn(), int);
                acc!(v, "tos", p.get_tos(), int);
                acc!(v, "total_length", p.get_total_length(), int);
                acc!(v, "identification", p.get_identification(), int);
                acc!(v, "flags_frag", p.get_flags_and_fragment_offset(), int);
                acc!(v, "ttl", p.get_ttl(), int);
                acc!(v, "protocol", p.get_protocol().id(), int);
                acc!(v, "checksum", p.get_checksum(), int);
                acc!(v, "source", p.get_source().octets(), |b: [u8; 4]| hx(&b));
                acc!(v, "destination", p.get_destination().octets(), |b: [u8; 4]| hx(&b));
                acc!(v, "options_raw", p.get_options_raw().to_vec(), |b: Vec<u8>| hx(&b));
                acc!(v, "payload", p.payload().to_vec(), |b: Vec<u8>| hx(&b));
                acc!(v, "dbg", format!("{p:?}").len(), |_| "ok".to_string());
                v.join(" ")
            }
        },
        "ipv6" => match Ipv6Packet::new_view(buf) {
            Err(_) => "err".to_string(),
            Ok(p) => {
                let mut v: Vec<String> = vec![];
                acc!(v, "version", p.get_version(), int);
                acc!(v, "traffic_class", p.get_traffic_class(), int);
                acc!(v, "flow_label", p.get_flow_label(), int);
                acc!(v, "payload_length", p.get_payload_length(), int);
                acc!(v, "next_header", p.get_next_header().id(), int);
                acc!(v, "hop_limit", p.get_hop_limit(), int);
                acc!(v, "source", p.get_source_address().octets(), |b: [u8; 16]| hx(&b));
                acc!(v, "destination", p.get_destination_address().octets(), |b: [u8; 16]| hx(&b));
                acc!(v, "payload", p.payload().to_vec(), |b: Vec<u8>| hx(&b));
                acc!(v, "dbg", format!("{p:?}").len(), |_| "ok".to_string());
                v.join(" ")
            }
        },
        "udp" => match UdpPacket::new_view(buf) {
            Err(_) => "err".to_string(),
            Ok(p) => {
                let mut v: Vec<String> = vec![];
                acc!(v, "source", p.get_source(), int);
                acc!(v, "destination", p.get_destination(), int);
                acc!(v, "length", p.get_length(), int);
                acc!(v, "checksum", p.get_checksum(), int);
                acc!(v, "payload", p.payload().to_vec(), |b: Vec<u8>| hx(&b));
                acc!(v, "dbg", format!("{p:?}").len(), |_| "ok".to_string());
                v.join(" ")
            }
        },
        "tcp" => match TcpPacket::new_view(buf) {
            Err(_) => "err".to_string(),
            Ok(p) => {
                let mut v: Vec<String> = vec![];
                acc!(v, "source", p.get_source(), int);
                acc!(v, "destination", p.get_destination(), int);
                acc!(v, "sequence", p.get_sequence(), int);
                acc!(v, "acknowledgement", p.get_acknowledgement(), int);
                acc!(v, "data_offset", p.get_data_offset(), int);
                acc!(v, "reserved", p.get_reserved(), int);
                acc!(v, "flags", p.get_flags(), int);
                acc!(v, "window_size", p.get_window_size(), int);
                acc!(v, "checksum", p.get_checksum(), int);
                acc!(v, "urgent_pointer", p.get_urgent_pointer(), int);
                acc!(v, "options_raw", p.get_options_raw().to_vec(), |b: Vec<u8>| hx(&b));
                acc!(v, "payload", p.payload().to_vec(), |b: Vec<u8>| hx(&b));
                acc!(v, "dbg", format!("{p:?}").len(), |_| "ok".to_string());
                v.join(" ")
            }
        },
        "icmp4" => match icmpv4::IcmpPacket::new_view(buf) {
            Err(_) => "err".to_string(),
            Ok(p) => {
                let mut v: Vec<String> = vec![];
                icmp_common!(v, p);
                acc!(v, "dbg", format!("{p:?}").len(), |_| "ok".to_string());
                v.join(" ")
            }
        },
        "icmp6" => match icmpv6::IcmpPacket::new_view(buf) {
            Err(_) => "err".to_string(),
            Ok(p) => {
                let mut v: Vec<String> = vec![];
                icmp_common!(v, p);
                acc!(v, "dbg", format!("{p:?}").len(), |_| "ok".to_string());
                v.join(" ")
            }
        },
        "echoreq4" => echo_view!(icmpv4::echo_request::EchoRequestPacket, buf),
        "echorep4" => echo_view!(icmpv4::echo_reply::EchoReplyPacket, buf),
        "echoreq6" => echo_view!(icmpv6::echo_request::EchoRequestPacket, buf),
        "echorep6" => echo_view!(icmpv6::echo_reply::EchoReplyPacket, buf),
        "te4" => te_view!(icmpv4::time_exceeded::TimeExceededPacket, buf),
        "te6" => te_view!(icmpv6::time_exceeded::TimeExceededPacket, buf),
        "du4" => match icmpv4::destination_unreachable::DestinationUnreachablePacket::new_view(buf) {
            Err(_) => "err".to_string(),
            Ok(p) => du_line!(p),
        },
        "du6" => match icmpv6::destination_unreachable::DestinationUnreachablePacket::new_view(buf) {
            Err(_) => "err".to_string(),
            Ok(p) => du_line!(p),
        },
        "exts" => match ExtensionsPacket::new_view(buf) {
            Err(_) => "err".to_string(),
            Ok(p) => {
                let mut v: Vec<String> = vec![];
                acc!(v, "header", p.header().to_vec(), |b: Vec<u8>| hx(&b));
                acc!(v, "objects", objects_capped(&p, n), |(items, over): (Vec<&[u8]>, bool)| if over { "fault:nontermination".to_string() } else { offsets(n, &items) });
                v.join(" ")
            }
        },
        "exthdr" => match ExtensionHeaderPacket::new_view(buf) {
            Err(_) => "err".to_string(),
            Ok(p) => {
                let mut v: Vec<String> = vec![];
                acc!(v, "version", p.get_version(), int);
                acc!(v, "checksum", p.get_checksum(), int);
                acc!(v, "dbg", format!("{p:?}").len(), |_| "ok".to_string());
                v.join(" ")
            }
        },
        "extobj" => match ExtensionObjectPacket::new_view(buf) {
            Err(_) => "err".to_string(),
            Ok(p) => {
                let mut v: Vec<String> = vec![];
                acc!(v, "length", p.get_length(), int);
                acc!(v, "class_num", p.get_class_num().id(), int);
                acc!(v, "class_subtype", p.get_class_subtype().0, int);
                acc!(v, "payload", p.payload().to_vec(), |b: Vec<u8>| hx(&b));
                acc!(v, "dbg", format!("{p:?}").len(), |_| "ok".to_string());
                v.join(" ")
            }
        },
        "mplsstack" => match MplsLabelStackPacket::new_view(buf) {
            Err(_) => "err".to_string(),
            Ok(p) => {
                let mut v: Vec<String> = vec![];
                acc!(v, "members", members_capped(&p, n), |(items, over): (Vec<&[u8]>, bool)| if over { "fault:nontermination".to_string() } else { offsets(n, &items) });
                v.join(" ")
            }
        },
        "mplsmember" => match MplsLabelStackMemberPacket::new_view(buf) {
            Err(_) => "err".to_string(),
            Ok(p) => {
                let mut v: Vec<String> = vec![];
                acc!(v, "label", p.get_label(), int);
                acc!(v, "exp", p.get_exp(), int);
                acc!(v, "bos", p.get_bos(), int);
                acc!(v, "ttl", p.get_ttl(), int);
                acc!(v, "dbg", format!("{p:?}").len(), |_| "ok".to_string());
                v.join(" ")
            }
        },
        _ => "?view".to_string(),
    }
}

pub const VIEWS: [(&str, usize); 19] = [
    ("ipv4", 20), ("ipv6", 40), ("udp", 8), ("tcp", 20), ("icmp4", 8), ("icmp6", 8),
    ("echoreq4", 8), ("echorep4", 8), ("echoreq6", 8), ("echorep6", 8),
    ("te4", 8), ("te6", 8), ("du4", 8), ("du6", 8),
    ("exts", 4), ("exthdr", 4), ("extobj", 4), ("mplsstack", 4), ("mplsmember", 4),
];

// ------------------------------------------------------------------------------------------------
// compact sweeps: one line = one (view, field, buffer length, filler seed), all values of the field
// ------------------------------------------------------------------------------------------------
pub fn objlen_domain(len: i64) -> Vec<u16> {
    let mut v: Vec<i64> = vec![0, 1, 2, 3, 4, 5, 6, 7, 8, 9, 11, 12, 13, 255, 256, 257, 0x7fff, 0x8000, 0xfffe, 0xffff];
    for d in [-5i64, -4, -3, -2, -1, 0, 1, 2, 3, 4, 5, 256] {
        v.push(len + d);
    }
    let mut v: Vec<u16> = v.into_iter().filter(|x| (0..=65535).contains(x)).map(|x| x as u16).collect();
    v.sort_unstable();
    v.dedup();
    v
}
fn dig(r: Result<Vec<u8>, ()>) -> String {
    match r { Ok(b) => digest(&b), Err(()) => "F".to_string() }
}
fn dig_opt(r: Result<Option<Vec<u8>>, ()>) -> String {
    match r { Ok(None) => "~".to_string(), Ok(Some(b)) => digest(&b), Err(()) => "F".to_string() }
}
macro_rules! te_sweep {
    ($ty:ty, $buf:ident) => {{
        let p = <$ty>::new_view(&$buf).unwrap();
        format!("{}|{}", dig(guard(|| p.payload().to_vec())), dig_opt(guard(|| p.extension().map(<[u8]>::to_vec))))
    }};
}
pub const SWEEPS: [(&str, &str, usize); 9] = [
    ("ipv4", "ihl", 20), ("tcp", "doff", 20), ("te4", "len", 8), ("te6", "len", 8), ("du4", "len", 8), ("du6", "len", 8),
    ("ipv6", "plen", 40), ("extobj", "objlen", 4), ("exts", "objlen", 4),
];
pub fn sweep_line(name: &str, field: &str, len: usize, seed: usize) -> String {
    let mut base = filler(seed, len);
    let mut res: Vec<String> = vec![];
    match (name, field) {
        ("ipv4", "ihl") => {
            for x in 0..16u8 {
                base[0] = 0x40 | x;
                let p = Ipv4Packet::new_view(&base).unwrap();
                res.push(format!("{x}:{}|{}", dig(guard(|| p.get_options_raw().to_vec())), dig(guard(|| p.payload().to_vec()))));
            }
        }
        ("tcp", "doff") => {
            for x in 0..16u8 {
                base[12] = (x << 4) | (seed & 15) as u8;
                let p = TcpPacket::new_view(&base).unwrap();
                res.push(format!("{x}:{}|{}", dig(guard(|| p.get_options_raw().to_vec())), dig(guard(|| p.payload().to_vec()))));
            }
        }
        ("te4" | "te6" | "du4" | "du6", "len") => {
            let off = if name.ends_with('4') { 5 } else { 4 };
            for x in 0..=255u8 {
                base[off] = x;
                let d = match name {
                    "te4" => te_sweep!(icmpv4::time_exceeded::TimeExceededPacket, base),
                    "te6" => te_sweep!(icmpv6::time_exceeded::TimeExceededPacket, base),
                    "du4" => te_sweep!(icmpv4::destination_unreachable::DestinationUnreachablePacket, base),
                    _ => te_sweep!(icmpv6::destination_unreachable::DestinationUnreachablePacket, base),
                };
                res.push(format!("{x}:{d}"));
            }
        }
        ("ipv6", "plen") => {
            for x in objlen_domain(len as i64 - 40) {
                base[4] = (x >> 8) as u8;
                base[5] = x as u8;
                let p = Ipv6Packet::new_view(&base).unwrap();
                res.push(format!("{x}:{}", dig(guard(|| p.payload().to_vec()))));
            }
        }
        ("extobj", "objlen") => {
            for x in objlen_domain(len as i64) {
                base[0] = (x >> 8) as u8;
                base[1] = x as u8;
                let p = ExtensionObjectPacket::new_view(&base).unwrap();
                res.push(format!("{x}:{}", dig(guard(|| p.payload().to_vec()))));
            }
        }
        ("exts", "objlen") => {
            if seed & 1 == 1 && len > 6 {
                base[6] = 1;
            }
            base[0] = 0x20;
            for x in objlen_domain(len as i64 - 4) {
                if len >= 6 {
                    base[4] = (x >> 8) as u8;
                    base[5] = x as u8;
                }
                let p = ExtensionsPacket::new_view(&base).unwrap();
                let objs = match guard(|| objects_capped(&p, len)) {
                    Ok((items, false)) => items.len().to_string(),
                    _ => "F".to_string(),
                };
                let ex = match guard(|| Extensions::try_from(base.as_slice())) {
                    Ok(Ok(e)) => digest(&enc_exts(&e)),
                    Ok(Err(_)) => "E".to_string(),
                    Err(()) => "F".to_string(),
                };
                res.push(format!("{x}:{objs}|{ex}"));
            }
        }
        _ => return "?sweep".to_string(),
    }
    res.join(",")
}
