//! A simulated `Socket`: the real `Channel` runs over it.  Because the trait's constructors are
//! associated functions, the simulated world lives in a thread-local.
use crate::vclock;
use std::cell::RefCell;
use std::collections::VecDeque;
use std::io;
use std::net::{IpAddr, Ipv4Addr, Ipv6Addr, SocketAddr};
use std::time::Duration;
use trippy_core::verif::{IoError, IoOperation, IoResult, Socket, SocketError};

#[derive(Debug, Clone, PartialEq, Eq)]
pub enum Op {
    New(&'static str, bool),
    Bind(usize, SocketAddr),
    SetTos(usize, u32),
    SetTtl(usize, u32),
    SetReusePort(usize, bool),
    SetHeaderIncluded(usize, bool),
    SetUnicastHopsV6(usize, u8),
    Connect(usize, SocketAddr),
    SendTo(usize, Vec<u8>, SocketAddr),
    Shutdown(usize),
}

impl Op {
    pub fn render(&self) -> String {
        match self {
            Op::New(k, raw) => format!("new:{k}:{}", u8::from(*raw)),
            Op::Bind(_, a) => format!("bind:{}:{}", addr_hex(a.ip()), a.port()),
            Op::SetTos(_, v) => format!("tos:{v}"),
            Op::SetTtl(_, v) => format!("ttl:{v}"),
            Op::SetReusePort(_, v) => format!("reuse:{}", u8::from(*v)),
            Op::SetHeaderIncluded(_, v) => format!("hdrincl:{}", u8::from(*v)),
            Op::SetUnicastHopsV6(_, v) => format!("hops:{v}"),
            Op::Connect(_, a) => format!("connect:{}:{}", addr_hex(a.ip()), a.port()),
            Op::SendTo(_, b, a) => format!("sendto:{}:{}:{}", crate::rng::hex(b), addr_hex(a.ip()), a.port()),
            Op::Shutdown(_) => "shutdown".to_string(),
        }
    }
}

pub fn addr_hex(a: IpAddr) -> String {
    match a {
        IpAddr::V4(a) => crate::rng::hex(&a.octets()),
        IpAddr::V6(a) => crate::rng::hex(&a.octets()),
    }
}

/// What a scripted TCP socket reports once it is "writable".
#[derive(Debug, Clone)]
pub enum TcpOutcome {
    Connected(IpAddr),
    Refused,
    HostUnreachable(IpAddr),
    OtherError,
    /// never becomes writable
    Pending,
}

/// An error to inject into the next call of a given kind.
#[derive(Debug, Clone, Copy, PartialEq, Eq)]
pub enum Call {
    Bind,
    Connect,
    SendTo,
    SetTtl,
    SetTos,
    Hops,
    Read,
    Select,
    New,
}

#[derive(Default)]
pub struct World {
    pub ops: Vec<Op>,
    pub next_id: usize,
    /// packets waiting for the receive socket: (due time ns, bytes, source address)
    pub pending: Vec<(u64, Vec<u8>, Option<SocketAddr>)>,
    pub readyq: VecDeque<(Vec<u8>, Option<SocketAddr>)>,
    /// injected failures: (call kind, countdown, raw os error or kind)
    pub inject: Vec<(Call, usize, io::ErrorKind)>,
    /// scripted outcome for stream sockets, by creation order
    pub tcp_outcomes: VecDeque<TcpOutcome>,
    pub tcp: Vec<(usize, TcpOutcome)>,
    /// called on every send_to: returns packets to schedule (delay ns, bytes, from)
    pub on_send: Option<Box<dyn FnMut(&[u8], SocketAddr, u64) -> Vec<(u64, Vec<u8>, Option<SocketAddr>)>>>,
    /// called on every connect of a stream socket: (socket id, peer, now) -> the outcome of the handshake and packets to schedule
    pub on_connect: Option<Box<dyn FnMut(usize, SocketAddr, u64) -> (TcpOutcome, Vec<(u64, Vec<u8>, Option<SocketAddr>)>)>>,
    /// advance of the virtual clock per send_to
    pub send_cost_ns: u64,
    /// how often the receive socket was waited on / read (one recv_probe call must wait at most once and read at most once)
    pub n_select: usize,
    pub n_read: usize,
}

thread_local! {
    pub static WORLD: RefCell<World> = RefCell::new(World::default());
}

pub fn reset() {
    WORLD.with(|w| *w.borrow_mut() = World::default());
}
pub fn with<R>(f: impl FnOnce(&mut World) -> R) -> R {
    WORLD.with(|w| f(&mut w.borrow_mut()))
}

impl World {
    fn take_injected(&mut self, call: Call) -> Option<io::ErrorKind> {
        let mut hit = None;
        for (i, (c, n, _)) in self.inject.iter_mut().enumerate() {
            if *c == call {
                if *n == 0 {
                    hit = Some(i);
                    break;
                }
                *n -= 1;
            }
        }
        hit.map(|i| self.inject.remove(i).2)
    }
    fn promote_due(&mut self, now: u64) {
        self.pending.sort_by_key(|p| p.0);
        while let Some(first) = self.pending.first() {
            if first.0 <= now {
                let (_, b, a) = self.pending.remove(0);
                self.readyq.push_back((b, a));
            } else {
                break;
            }
        }
    }
}

pub struct SimSocket {
    id: usize,
    stream: bool,
}

fn new_sock(kind: &'static str, raw: bool, stream: bool) -> IoResult<SimSocket> {
    with(|w| {
        if let Some(k) = w.take_injected(Call::New) {
            return Err(IoError::Other(io::Error::from(k), IoOperation::NewSocket));
        }
        let id = w.next_id;
        w.next_id += 1;
        w.ops.push(Op::New(kind, raw));
        if stream {
            let outcome = w.tcp_outcomes.pop_front().unwrap_or(TcpOutcome::Pending);
            w.tcp.push((id, outcome));
        }
        Ok(SimSocket { id, stream })
    })
}

impl Socket for SimSocket {
    fn new_icmp_send_socket_ipv4(raw: bool) -> IoResult<Self> {
        new_sock("icmp4", raw, false)
    }
    fn new_icmp_send_socket_ipv6(raw: bool) -> IoResult<Self> {
        new_sock("icmp6", raw, false)
    }
    fn new_udp_send_socket_ipv4(raw: bool) -> IoResult<Self> {
        new_sock("udp4", raw, false)
    }
    fn new_udp_send_socket_ipv6(raw: bool) -> IoResult<Self> {
        new_sock("udp6", raw, false)
    }
    fn new_recv_socket_ipv4(_addr: Ipv4Addr, raw: bool) -> IoResult<Self> {
        new_sock("recv4", raw, false)
    }
    fn new_recv_socket_ipv6(_addr: Ipv6Addr, raw: bool) -> IoResult<Self> {
        new_sock("recv6", raw, false)
    }
    fn new_stream_socket_ipv4() -> IoResult<Self> {
        new_sock("tcp4", false, true)
    }
    fn new_stream_socket_ipv6() -> IoResult<Self> {
        new_sock("tcp6", false, true)
    }
    fn new_udp_dgram_socket_ipv4() -> IoResult<Self> {
        new_sock("dgram4", false, false)
    }
    fn new_udp_dgram_socket_ipv6() -> IoResult<Self> {
        new_sock("dgram6", false, false)
    }
    fn bind(&mut self, address: SocketAddr) -> IoResult<()> {
        with(|w| {
            w.ops.push(Op::Bind(self.id, address));
            match w.take_injected(Call::Bind) {
                Some(k) => Err(IoError::Bind(io::Error::from(k), address)),
                None => Ok(()),
            }
        })
    }
    fn set_tos(&mut self, tos: u32) -> IoResult<()> {
        with(|w| {
            w.ops.push(Op::SetTos(self.id, tos));
            match w.take_injected(Call::SetTos) {
                Some(k) => Err(IoError::Other(io::Error::from(k), IoOperation::SetTos)),
                None => Ok(()),
            }
        })
    }
    fn set_ttl(&mut self, ttl: u32) -> IoResult<()> {
        with(|w| {
            w.ops.push(Op::SetTtl(self.id, ttl));
            match w.take_injected(Call::SetTtl) {
                Some(k) => Err(IoError::Other(io::Error::from(k), IoOperation::SetTtl)),
                None => Ok(()),
            }
        })
    }
    fn set_reuse_port(&mut self, reuse: bool) -> IoResult<()> {
        with(|w| w.ops.push(Op::SetReusePort(self.id, reuse)));
        Ok(())
    }
    fn set_header_included(&mut self, included: bool) -> IoResult<()> {
        with(|w| w.ops.push(Op::SetHeaderIncluded(self.id, included)));
        Ok(())
    }
    fn set_unicast_hops_v6(&mut self, hops: u8) -> IoResult<()> {
        with(|w| {
            w.ops.push(Op::SetUnicastHopsV6(self.id, hops));
            match w.take_injected(Call::Hops) {
                Some(k) => Err(IoError::Other(io::Error::from(k), IoOperation::SetUnicastHopsV6)),
                None => Ok(()),
            }
        })
    }
    fn connect(&mut self, address: SocketAddr) -> IoResult<()> {
        let (res, mut cb) = with(|w| {
            w.ops.push(Op::Connect(self.id, address));
            let r = match w.take_injected(Call::Connect) {
                Some(k) => Err(IoError::Connect(io::Error::from(k), address)),
                None => Ok(()),
            };
            (r, w.on_connect.take())
        });
        if res.is_ok() {
            if let Some(f) = cb.as_mut() {
                let now = vclock::now();
                let (outcome, sched) = f(self.id, address, now);
                with(|w| {
                    if let Some(e) = w.tcp.iter_mut().find(|(id, _)| *id == self.id) { e.1 = outcome; }
                    for (d, b, a) in sched {
                        w.pending.push((now + d, b, a));
                    }
                });
            }
        }
        with(|w| w.on_connect = cb);
        res
    }
    fn send_to(&mut self, buf: &[u8], addr: SocketAddr) -> IoResult<()> {
        let mut cb = with(|w| {
            w.ops.push(Op::SendTo(self.id, buf.to_vec(), addr));
            w.on_send.take()
        });
        let injected = with(|w| w.take_injected(Call::SendTo));
        let cost = with(|w| w.send_cost_ns);
        vclock::advance(cost);
        let res = if let Some(k) = injected {
            Err(IoError::SendTo(io::Error::from(k), addr))
        } else {
            if let Some(f) = cb.as_mut() {
                let now = vclock::now();
                let sched = f(buf, addr, now);
                with(|w| {
                    for (d, b, a) in sched {
                        w.pending.push((now + d, b, a));
                    }
                });
            }
            Ok(())
        };
        with(|w| w.on_send = cb);
        res
    }
    fn is_readable(&mut self, timeout: Duration) -> IoResult<bool> {
        with(|w| {
            w.n_select += 1;
            if let Some(k) = w.take_injected(Call::Select) {
                return Err(IoError::Other(io::Error::from(k), IoOperation::Select));
            }
            let now = vclock::now();
            w.promote_due(now);
            if !w.readyq.is_empty() {
                return Ok(true);
            }
            let deadline = now + timeout.as_nanos() as u64;
            w.pending.sort_by_key(|p| p.0);
            if let Some(first) = w.pending.first() {
                if first.0 <= deadline {
                    let due = first.0;
                    vclock::set(due);
                    w.promote_due(due);
                    return Ok(true);
                }
            }
            vclock::set(deadline);
            Ok(false)
        })
    }
    fn is_writable(&mut self) -> IoResult<bool> {
        with(|w| {
            let o = w.tcp.iter().find(|(id, _)| *id == self.id).map(|(_, o)| o.clone());
            Ok(!matches!(o, Some(TcpOutcome::Pending) | None))
        })
    }
    fn recv_from(&mut self, buf: &mut [u8]) -> IoResult<(usize, Option<SocketAddr>)> {
        with(|w| {
            w.n_read += 1;
            if let Some(k) = w.take_injected(Call::Read) {
                return Err(IoError::Other(io::Error::from(k), IoOperation::RecvFrom));
            }
            match w.readyq.pop_front() {
                Some((b, a)) => {
                    let n = b.len().min(buf.len());
                    buf[..n].copy_from_slice(&b[..n]);
                    Ok((n, a))
                }
                None => Err(IoError::Other(io::Error::from(io::ErrorKind::WouldBlock), IoOperation::RecvFrom)),
            }
        })
    }
    fn read(&mut self, buf: &mut [u8]) -> IoResult<usize> {
        with(|w| {
            w.n_read += 1;
            if let Some(k) = w.take_injected(Call::Read) {
                return Err(IoError::Other(io::Error::from(k), IoOperation::Read));
            }
            match w.readyq.pop_front() {
                Some((b, _)) => {
                    let n = b.len().min(buf.len());
                    buf[..n].copy_from_slice(&b[..n]);
                    Ok(n)
                }
                None => Err(IoError::Other(io::Error::from(io::ErrorKind::WouldBlock), IoOperation::Read)),
            }
        })
    }
    fn shutdown(&mut self) -> IoResult<()> {
        with(|w| w.ops.push(Op::Shutdown(self.id)));
        Ok(())
    }
    fn peer_addr(&mut self) -> IoResult<Option<SocketAddr>> {
        with(|w| {
            let o = w.tcp.iter().find(|(id, _)| *id == self.id).map(|(_, o)| o.clone());
            Ok(match o {
                Some(TcpOutcome::Connected(a)) => Some(SocketAddr::new(a, 0)),
                _ => None,
            })
        })
    }
    fn take_error(&mut self) -> IoResult<Option<SocketError>> {
        let _ = self.stream;
        with(|w| {
            let o = w.tcp.iter().find(|(id, _)| *id == self.id).map(|(_, o)| o.clone());
            Ok(match o {
                Some(TcpOutcome::Refused) => Some(SocketError::ConnectionRefused),
                Some(TcpOutcome::HostUnreachable(_)) => Some(SocketError::HostUnreachable),
                Some(TcpOutcome::OtherError) => Some(SocketError::Other(io::Error::from(io::ErrorKind::Other))),
                _ => None,
            })
        })
    }
    fn icmp_error_info(&mut self) -> IoResult<IpAddr> {
        with(|w| {
            let o = w.tcp.iter().find(|(id, _)| *id == self.id).map(|(_, o)| o.clone());
            match o {
                Some(TcpOutcome::HostUnreachable(a)) => Ok(a),
                _ => Err(IoError::Other(io::Error::from(io::ErrorKind::Other), IoOperation::TcpIcmpErrorInfo)),
            }
        })
    }
}
