//! Closed-loop network simulator at the `Network` interface (topology, delays, losses, duplicates,
//! stragglers, adversarial injections, faults).  It exists only here; the model sees the recorded trace.
use crate::rng::Rng;
use crate::strat::{addr_bytes, Cfg, Env, ErrK, RecvO, SendO};
use crate::vclock;
use std::net::{IpAddr, Ipv4Addr, Ipv6Addr};
use trippy_core::verif::{
    IcmpPacketCode, IcmpProtocolResponse, ProtocolResponse, Response, ResponseData, TcpProtocolResponse,
    UdpProtocolResponse,
};
use trippy_core::{MultipathStrategy, PortDirection, Probe, Protocol, TypeOfService};

#[derive(Clone, Debug)]
pub struct Hop {
    pub addr: IpAddr,
    pub silent: bool,
    pub delay_ns: u64,
    pub dup: bool,
    /// answers only every n-th probe (rate limiting); 1 = always
    pub every: u32,
    pub seen: u32,
}

#[derive(Clone, Debug, Default)]
pub struct Knobs {
    /// per-mille probabilities
    pub p_send_failed: u64,
    pub p_send_inuse: u64,
    pub p_send_fatal: u64,
    pub p_recv_fatal: u64,
    pub p_inject_foreign: u64,
    pub p_inject_neversent: u64,
    pub p_inject_dup_late: u64,
    pub p_ecmp_flip: u64,
    /// start a burst of consecutive AddressInUse outcomes (TCP): per-mille chance per send, burst length up to this
    pub p_inuse_burst: u64,
    pub inuse_burst_max: u64,
    /// the wall clock is not monotonic: per-mille chance that a response is stamped with a reading taken after the clock stepped
    /// BACK by several seconds (its receive time then lies before the send time of the probe it answers)
    pub p_clock_stepped_back: u64,
    /// the publish callback (state update under the write lock, the user's closure) takes time: per-mille chance per published round
    pub p_slow_publish: u64,
}

fn alias_of(a: IpAddr) -> IpAddr {
    let mut b = addr_bytes(a);
    let n = b.len();
    b[n - 1] ^= 0x40;
    crate::strat::addr_from(&b)
}

/// set when a simulated environment ended a run because its iteration budget was used up (read and reset by strat::exec)
pub static BUDGET_HIT: std::sync::atomic::AtomicBool = std::sync::atomic::AtomicBool::new(false);

/// what the simulator actually delivered (ground truth for the oracles)
#[derive(Clone, Debug)]
pub struct Delivery {
    pub at: u64,
    /// (sequence, round) of the probe this response answers by identity (None = answers no probe ever sent)
    pub truth: Option<(u16, usize)>,
    pub from: IpAddr,
    pub kind: &'static str,
}

pub struct SimEnv {
    pub cfg: Cfg,
    pub rng: Rng,
    pub path: Vec<Hop>, // index = ttl - 1 ; the last entry is the target when `target_answers`
    pub alt_path: Vec<Hop>,
    pub target_dist: usize,
    pub target_answers: bool,
    pub pending: Vec<(u64, Response, Option<(u16, usize)>, Option<u16>)>, // due, response, truth, or sequence named by an injected response (truth resolved at delivery)
    pub read_timeout_ns: u64,
    pub send_cost_ns: u64,
    pub iter_budget: usize,
    pub iters: usize,
    pub knobs: Knobs,
    pub deliveries: std::rc::Rc<std::cell::RefCell<Vec<Delivery>>>,
    pub round: usize,
    pub sent_seqs: std::collections::HashMap<u16, usize>,
    pub use_alt: bool,
    pub burst_left: u64,
}

pub fn rand_addr(rng: &mut Rng, v6: bool) -> IpAddr {
    if v6 {
        let mut b = [0u8; 16];
        for x in b.iter_mut() { *x = rng.next() as u8; }
        b[0] = 0x20;
        IpAddr::V6(Ipv6Addr::from(b))
    } else {
        IpAddr::V4(Ipv4Addr::new(10, rng.next() as u8, rng.next() as u8, 1 + (rng.below(250) as u8)))
    }
}

impl SimEnv {
    pub fn proto_resp(cfg: &Cfg, probe: &Probe, tos: Option<TypeOfService>) -> ProtocolResponse {
        match cfg.proto {
            Protocol::Icmp => ProtocolResponse::Icmp(IcmpProtocolResponse::new(probe.identifier.0, probe.sequence.0, tos)),
            Protocol::Udp => {
                let v6 = cfg.target.is_ipv6();
                let (ident, actual, plen, magic) = match cfg.strategy {
                    MultipathStrategy::Classic => (0, 0x1234, 0, false),
                    MultipathStrategy::Paris => (0, probe.sequence.0, 2, false),
                    MultipathStrategy::Dublin => {
                        if v6 { (0, 0x4321, probe.sequence.0.wrapping_sub(cfg.initial_sequence), true) } else { (probe.identifier.0, 0x7777, 0, false) }
                    }
                };
                ProtocolResponse::Udp(UdpProtocolResponse::new(ident, cfg.target, probe.src_port.0, probe.dest_port.0, tos, 0x7777, actual, plen, magic))
            }
            Protocol::Tcp => ProtocolResponse::Tcp(TcpProtocolResponse::new(cfg.target, probe.src_port.0, probe.dest_port.0, tos)),
        }
    }
    fn schedule(&mut self, due: u64, r: Response, genuine: Option<u16>) {
        self.pending.push((due, r, genuine.map(|s| (s, self.round)), None));
    }
}


/// a random extension list (MPLS stacks and unknown objects), as a router may attach to an ICMP error
fn rand_exts(rng: &mut crate::rng::Rng) -> Option<trippy_core::Extensions> {
    use trippy_core::{Extension, Extensions, MplsLabelStack, MplsLabelStackMember, UnknownExtension};
    if !rng.chance(1, 4) {
        return None;
    }
    let n = 1 + rng.below(3) as usize;
    let extensions = (0..n).map(|_| {
        if rng.chance(2, 3) {
            let k = 1 + rng.below(3) as usize;
            Extension::Mpls(MplsLabelStack { members: (0..k).map(|i| MplsLabelStackMember {
                label: rng.below(1 << 20) as u32, exp: rng.below(8) as u8, bos: u8::from(i + 1 == k), ttl: rng.next() as u8 }).collect() })
        } else {
            let n = 4 * rng.below(3) as usize;
            Extension::Unknown(UnknownExtension { class_num: *rng.pick(&[2u8, 3, 200]), class_subtype: rng.next() as u8, bytes: rng.bytes(n) })
        }
    }).collect();
    Some(Extensions { extensions })
}

impl Env for SimEnv {
    fn on_send(&mut self, probe: &Probe) -> SendO {
        vclock::advance(self.send_cost_ns);
        let now = vclock::now();
        self.round = probe.round.0;
        let k = self.knobs.clone();
        if self.rng.chance(k.p_send_fatal, 1000) {
            return SendO::Fatal(self.rng.pick(&[ErrK::Io, ErrK::Other, ErrK::Pkt]).clone());
        }
        if self.rng.chance(k.p_send_failed, 1000) {
            return SendO::Failed;
        }
        if self.burst_left > 0 {
            self.burst_left -= 1;
            return SendO::InUse;
        }
        if k.inuse_burst_max > 0 && self.rng.chance(k.p_inuse_burst, 1000) {
            self.burst_left = self.rng.range(1, k.inuse_burst_max) - 1;
            return SendO::InUse;
        }
        if self.rng.chance(k.p_send_inuse, 1000) {
            return SendO::InUse;
        }
        self.sent_seqs.insert(probe.sequence.0, self.round);
        if self.rng.chance(k.p_ecmp_flip, 1000) {
            self.use_alt = !self.use_alt;
        }
        let ttl = usize::from(probe.ttl.0);
        let tos = if self.rng.chance(1, 2) { Some(TypeOfService(self.rng.next() as u8)) } else { None };
        let pr = SimEnv::proto_resp(&self.cfg, probe, tos);
        let path = if self.use_alt && !self.alt_path.is_empty() { &mut self.alt_path } else { &mut self.path };
        if ttl >= self.target_dist && self.target_dist > 0 {
            if self.target_answers {
                let delay = path.get(self.target_dist - 1).map_or(1_000_000, |h| h.delay_ns);
                // a multi-homed / anycast target may answer an echo request from another of its addresses
                let from = if self.cfg.proto == Protocol::Icmp && self.rng.chance(1, 8) { alias_of(self.cfg.target) } else { self.cfg.target };
                let d = ResponseData::new(vclock::from_ns(0), from, pr);
                let r = match self.cfg.proto {
                    Protocol::Icmp => Response::EchoReply(d, IcmpPacketCode(0)),
                    Protocol::Udp => { let e = rand_exts(&mut self.rng); Response::DestinationUnreachable(d, IcmpPacketCode(3), e) }
                    Protocol::Tcp => if self.rng.chance(1, 2) { Response::TcpReply(d) } else { Response::TcpRefused(d) },
                };
                let jitter = self.rng.below(delay / 4 + 1);
                self.schedule(now + delay + jitter, r, Some(probe.sequence.0));
            }
        } else if ttl >= 1 && ttl <= path.len() {
            let h = &mut path[ttl - 1];
            h.seen += 1;
            if !h.silent && h.seen % h.every == 0 {
                let (addr, delay, dup) = (h.addr, h.delay_ns, h.dup);
                let d = ResponseData::new(vclock::from_ns(0), addr, pr.clone());
                let exts = rand_exts(&mut self.rng);
                let jitter = self.rng.below(delay / 4 + 1);
                // mostly Time Exceeded; now and then a router answers Destination Unreachable (filtered / no route)
                let r = if self.rng.chance(1, 12) {
                    Response::DestinationUnreachable(d.clone(), IcmpPacketCode(*self.rng.pick(&[0u8, 1, 13])), exts.clone())
                } else {
                    Response::TimeExceeded(d.clone(), IcmpPacketCode(0), exts.clone())
                };
                self.schedule(now + delay + jitter, r, Some(probe.sequence.0));
                if dup {
                    let r2 = Response::TimeExceeded(d, IcmpPacketCode(0), exts);
                    let extra = self.rng.below(delay + 1);
                    self.schedule(now + delay + jitter + extra, r2, Some(probe.sequence.0));
                }
            }
        }
        // adversarial injections relative to the live window
        if self.rng.chance(k.p_inject_foreign, 1000) {
            let mut p2 = probe.clone();
            let mut cfg2 = self.cfg.clone();
            if self.cfg.proto == Protocol::Icmp {
                p2.identifier = trippy_core::TraceId(probe.identifier.0.wrapping_add(1 + (self.rng.below(5) as u16)));
            } else {
                // other target / other fixed port
                match (self.rng.below(2), self.cfg.portdir) {
                    (0, _) => cfg2.target = rand_addr(&mut self.rng, self.cfg.target.is_ipv6()),
                    (_, PortDirection::FixedSrc(_)) => p2.src_port = trippy_core::Port(p2.src_port.0.wrapping_add(7)),
                    (_, PortDirection::FixedDest(_)) => p2.dest_port = trippy_core::Port(p2.dest_port.0.wrapping_add(9)),
                    _ => p2.src_port = trippy_core::Port(p2.src_port.0.wrapping_add(11)),
                }
            }
            let pr2 = SimEnv::proto_resp(&cfg2, &p2, None);
            // the foreign response may well be SENT by this tracer's own target (another tracer probing through it)
            let from = if self.rng.chance(1, 2) { self.cfg.target } else { rand_addr(&mut self.rng, self.cfg.target.is_ipv6()) };
            let r = Response::TimeExceeded(ResponseData::new(vclock::from_ns(0), from, pr2), IcmpPacketCode(0), None);
            let d = self.rng.below(3_000_000);
            self.pending.push((now + d, r, None, None));
        }
        if self.rng.chance(k.p_inject_neversent, 1000) {
            let off = *self.rng.pick(&[1u16, 2, 3, 10, 200, 510, 511, 512, 513, 1000]);
            let neg = self.rng.chance(1, 3);
            let q = if neg { probe.sequence.0.wrapping_sub(off) } else { probe.sequence.0.wrapping_add(off) };
            let p2 = probe_with_seq(&self.cfg, probe, q);
            let pr2 = SimEnv::proto_resp(&self.cfg, &p2, None);
            let from = if self.rng.chance(1, 2) { self.cfg.target } else { rand_addr(&mut self.rng, self.cfg.target.is_ipv6()) };
            let r = Response::TimeExceeded(ResponseData::new(vclock::from_ns(0), from, pr2), IcmpPacketCode(0), None);
            let d = self.rng.below(3_000_000);
            // by identity this answers probe q if q has been sent by the time it is delivered
            self.pending.push((now + d, r, None, Some(q)));
        }
        SendO::Sent
    }

    fn on_publish(&mut self) {
        if self.rng.chance(self.knobs.p_slow_publish, 1000) {
            vclock::advance(*self.rng.pick(&[200_000u64, 3_000_000, 40_000_000, 700_000_000]));
        }
    }

    fn on_recv(&mut self) -> RecvO {
        self.iters += 1;
        if self.iters > self.iter_budget {
            BUDGET_HIT.store(true, std::sync::atomic::Ordering::SeqCst);
            return RecvO::Fatal(ErrK::Other);
        }
        if self.rng.chance(self.knobs.p_recv_fatal, 1000) {
            return RecvO::Fatal(self.rng.pick(&[ErrK::Io, ErrK::Pkt, ErrK::Missing]).clone());
        }
        let now = vclock::now();
        self.pending.sort_by_key(|p| p.0);
        if let Some(first) = self.pending.first() {
            if first.0 <= now + self.read_timeout_ns {
                let (due, r, truth, named) = self.pending.remove(0);
                let truth = truth.or_else(|| named.and_then(|q| self.sent_seqs.get(&q).map(|r| (q, *r))));
                let t = due.max(now);
                vclock::set(t);
                // (either the stamp lies before the send - the clock stepped back before the read - or it lies in the clock's future: the clock
                //  stepped back right after the stamp was taken)
                let ts = if self.rng.chance(self.knobs.p_clock_stepped_back, 1000) { if self.rng.chance(1, 2) { t.saturating_sub(5_000_000_000) } else { t + *self.rng.pick(&[400_000u64, 30_000_000, 5_000_000_000]) } } else { t };
                let stamp = |d: &ResponseData| ResponseData::new(vclock::from_ns(ts), d.addr, d.proto_resp.clone());
                let r = match r {
                    Response::TimeExceeded(d, c, e) => Response::TimeExceeded(stamp(&d), c, e),
                    Response::DestinationUnreachable(d, c, e) => Response::DestinationUnreachable(stamp(&d), c, e),
                    Response::EchoReply(d, c) => Response::EchoReply(stamp(&d), c),
                    Response::TcpReply(d) => Response::TcpReply(stamp(&d)),
                    Response::TcpRefused(d) => Response::TcpRefused(stamp(&d)),
                };
                let kind = match &r { Response::TimeExceeded(..) => "te", Response::DestinationUnreachable(..) => "du", Response::EchoReply(..) => "er", Response::TcpReply(..) => "tr", Response::TcpRefused(..) => "tf" };
                self.deliveries.borrow_mut().push(Delivery { at: t, truth, from: r.data().addr, kind });
                let _ = addr_bytes;
                return RecvO::Resp(r);
            }
        }
        vclock::set(now + self.read_timeout_ns);
        RecvO::Timeout
    }
}

/// a copy of `probe` whose response will be read as sequence `q` by the strategy
pub fn probe_with_seq(cfg: &Cfg, probe: &Probe, q: u16) -> Probe {
    let mut p = probe.clone();
    p.sequence = trippy_core::Sequence(q);
    match cfg.proto {
        Protocol::Icmp => {}
        Protocol::Udp => match (cfg.strategy, cfg.portdir) {
            (MultipathStrategy::Classic, PortDirection::FixedDest(_)) => p.src_port = trippy_core::Port(q),
            (MultipathStrategy::Classic, _) => p.dest_port = trippy_core::Port(q),
            (MultipathStrategy::Paris, _) => {}
            (MultipathStrategy::Dublin, _) => p.identifier = trippy_core::TraceId(q),
        },
        Protocol::Tcp => match cfg.portdir {
            PortDirection::FixedSrc(_) => p.dest_port = trippy_core::Port(q),
            _ => p.src_port = trippy_core::Port(q),
        },
    }
    p
}
