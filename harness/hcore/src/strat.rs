//! Runs the real `Strategy` (through `Tracer::verif_run_with_network`) over a scripted or simulated
//! `Network` under the virtual clock, records the interaction trace at the `Network` interface and
//! renders inputs / outputs in the canonical case-line format shared with the OCaml driver.
use crate::rng::{hex, unhex};
use crate::vclock;
use std::cell::RefCell;
use std::net::{IpAddr, Ipv4Addr, Ipv6Addr, SocketAddr};
use std::num::NonZeroUsize;
use std::rc::Rc;
use std::time::Duration;
use trippy_core::verif::{
    IcmpPacketCode, IcmpProtocolResponse, IoError, IoOperation, Network, ProtocolResponse, Response,
    ResponseData, TcpProtocolResponse, UdpProtocolResponse,
};
use trippy_core::{
    Builder, CompletionReason, Error, Extension, Extensions, IcmpPacketType, MaxInflight, MaxRounds,
    MplsLabelStack, MplsLabelStackMember, MultipathStrategy, PortDirection, Probe, ProbeStatus,
    Protocol, Sequence, State, TimeToLive, TraceId, TypeOfService, UnknownExtension,
};

// ---------------------------------------------------------------- configuration
#[derive(Clone, Debug)]
pub struct Cfg {
    pub proto: Protocol,
    pub strategy: MultipathStrategy,
    pub portdir: PortDirection,
    pub target: IpAddr,
    pub trace_id: u16,
    pub max_rounds: usize, // 0 = None
    pub first_ttl: u8,
    pub max_ttl: u8,
    pub grace_ns: u64,
    pub max_inflight: u8,
    pub initial_sequence: u16,
    pub min_ns: u64,
    pub max_ns: u64,
    pub max_samples: usize,
    pub max_flows: usize,
}

pub fn addr_bytes(a: IpAddr) -> Vec<u8> {
    match a {
        IpAddr::V4(a) => a.octets().to_vec(),
        IpAddr::V6(a) => a.octets().to_vec(),
    }
}
pub fn addr_from(b: &[u8]) -> IpAddr {
    if b.len() == 4 {
        IpAddr::V4(Ipv4Addr::new(b[0], b[1], b[2], b[3]))
    } else {
        let mut a = [0u8; 16];
        a.copy_from_slice(&b[..16]);
        IpAddr::V6(Ipv6Addr::from(a))
    }
}

impl Cfg {
    pub fn render(&self) -> String {
        let p = match self.proto { Protocol::Icmp => "I", Protocol::Udp => "U", Protocol::Tcp => "T" };
        let m = match self.strategy { MultipathStrategy::Classic => "C", MultipathStrategy::Paris => "P", MultipathStrategy::Dublin => "D" };
        let d = match self.portdir {
            PortDirection::None => "N".to_string(),
            PortDirection::FixedSrc(s) => format!("S{}", s.0),
            PortDirection::FixedDest(d) => format!("D{}", d.0),
            PortDirection::FixedBoth(s, d) => format!("B{}:{}", s.0, d.0),
        };
        format!(
            "{p},{m},{d},{},{},{},{},{},{},{},{},{},{}",
            hex(&addr_bytes(self.target)), self.trace_id, self.max_rounds, self.first_ttl, self.max_ttl,
            self.grace_ns, self.max_inflight, self.initial_sequence, self.min_ns, self.max_ns
        )
    }
    pub fn parse(s: &str) -> Cfg {
        let t: Vec<&str> = s.split(',').collect();
        let proto = match t[0] { "I" => Protocol::Icmp, "U" => Protocol::Udp, _ => Protocol::Tcp };
        let strategy = match t[1] { "C" => MultipathStrategy::Classic, "P" => MultipathStrategy::Paris, _ => MultipathStrategy::Dublin };
        let portdir = match &t[2][..1] {
            "N" => PortDirection::None,
            "S" => PortDirection::new_fixed_src(t[2][1..].parse().unwrap()),
            "D" => PortDirection::new_fixed_dest(t[2][1..].parse().unwrap()),
            _ => {
                let (a, b) = t[2][1..].split_once(':').unwrap();
                PortDirection::new_fixed_both(a.parse().unwrap(), b.parse().unwrap())
            }
        };
        Cfg {
            proto, strategy, portdir,
            target: addr_from(&unhex(t[3])),
            trace_id: t[4].parse().unwrap(),
            max_rounds: t[5].parse().unwrap(),
            first_ttl: t[6].parse().unwrap(),
            max_ttl: t[7].parse().unwrap(),
            grace_ns: t[8].parse().unwrap(),
            max_inflight: t[9].parse().unwrap(),
            initial_sequence: t[10].parse().unwrap(),
            min_ns: t[11].parse().unwrap(),
            max_ns: t[12].parse().unwrap(),
            max_samples: 256,
            max_flows: 64,
        }
    }
    /// build through the real `Builder` (so builder validation is part of what runs)
    pub fn build(&self) -> Result<trippy_core::Tracer, Error> {
        let mut b = Builder::new(self.target)
            .protocol(self.proto)
            .multipath_strategy(self.strategy)
            .port_direction(self.portdir)
            .trace_identifier(self.trace_id)
            .first_ttl(self.first_ttl)
            .max_ttl(self.max_ttl)
            .grace_duration(Duration::from_nanos(self.grace_ns))
            .max_inflight(self.max_inflight)
            .initial_sequence(self.initial_sequence)
            .min_round_duration(Duration::from_nanos(self.min_ns))
            .max_round_duration(Duration::from_nanos(self.max_ns))
            .max_samples(self.max_samples)
            .max_flows(self.max_flows);
        if self.max_rounds > 0 {
            b = b.max_rounds(Some(self.max_rounds));
        } else {
            b = b.max_rounds(None);
        }
        b.build()
    }
}

// ---------------------------------------------------------------- script (inputs)
#[derive(Clone, Debug, PartialEq)]
pub enum ErrK { Io, Pkt, Missing, Other, InUse, Cap, Size, Failed, BadConfig }
impl ErrK {
    pub fn tok(&self) -> &'static str {
        match self { ErrK::Io => "io", ErrK::Pkt => "pkt", ErrK::Missing => "missing", ErrK::Other => "other",
            ErrK::InUse => "inuse", ErrK::Cap => "cap", ErrK::Size => "size", ErrK::Failed => "failed", ErrK::BadConfig => "badconfig" }
    }
    pub fn parse(s: &str) -> ErrK {
        match s { "io" => ErrK::Io, "pkt" => ErrK::Pkt, "missing" => ErrK::Missing, "inuse" => ErrK::InUse,
            "cap" => ErrK::Cap, "size" => ErrK::Size, "failed" => ErrK::Failed, "badconfig" => ErrK::BadConfig, _ => ErrK::Other }
    }
    pub fn of(e: &Error) -> ErrK {
        match e {
            Error::InvalidPacketSize(_) => ErrK::Size,
            Error::PacketError(_) => ErrK::Pkt,
            Error::IoError(_) => ErrK::Io,
            Error::ProbeFailed(_) => ErrK::Failed,
            Error::InsufficientCapacity => ErrK::Cap,
            Error::AddressInUse(_) => ErrK::InUse,
            Error::MissingAddr => ErrK::Missing,
            Error::BadConfig(_) => ErrK::BadConfig,
            _ => ErrK::Other,
        }
    }
    pub fn to_error(&self) -> Error {
        let ioe = || IoError::Other(std::io::Error::from(std::io::ErrorKind::PermissionDenied), IoOperation::Select);
        match self {
            ErrK::Io => Error::IoError(ioe()),
            ErrK::Pkt => Error::PacketError(trippy_packet::error::Error::InsufficientPacketBuffer("x".to_string(), 1, 0)),
            ErrK::Missing => Error::MissingAddr,
            ErrK::InUse => Error::AddressInUse(SocketAddr::new(IpAddr::V4(Ipv4Addr::UNSPECIFIED), 0)),
            ErrK::Cap => Error::InsufficientCapacity,
            ErrK::Size => Error::InvalidPacketSize(0),
            ErrK::Failed => Error::ProbeFailed(ioe()),
            ErrK::BadConfig => Error::BadConfig("x".to_string()),
            ErrK::Other => Error::Other("x".to_string()),
        }
    }
}

#[derive(Clone, Debug, PartialEq)]
pub enum SendO { Sent, Failed, InUse, Fatal(ErrK) }
#[derive(Clone, Debug)]
pub enum RecvO { Timeout, Fatal(ErrK), Resp(Response) }

#[derive(Clone, Debug)]
pub struct Iter {
    pub clk: Vec<u64>,
    pub sends: Vec<SendO>,
    pub recv: RecvO,
    pub upd: u64,
    pub adv: u64,
    /// output side: did this iteration publish a round (not part of the rendered input)
    pub published: bool,
}

fn opt_tos(t: Option<TypeOfService>) -> String { t.map_or("-".to_string(), |t| t.0.to_string()) }
fn parse_tos(s: &str) -> Option<TypeOfService> { if s == "-" { None } else { Some(TypeOfService(s.parse().unwrap())) } }

/// canonical opaque encoding of `Extensions` (shared with the Coq byte-level model)
pub fn enc_exts(e: &Extensions) -> Vec<u8> {
    let mut v = vec![];
    for x in &e.extensions {
        match x {
            Extension::Unknown(u) => {
                v.push(0);
                v.push(u.class_num);
                v.push(u.class_subtype);
                v.push((u.bytes.len() >> 8) as u8);
                v.push(u.bytes.len() as u8);
                v.extend(&u.bytes);
            }
            Extension::Mpls(m) => {
                v.push(1);
                v.push((m.members.len() >> 8) as u8);
                v.push(m.members.len() as u8);
                for mm in &m.members {
                    v.push((mm.label >> 16) as u8);
                    v.push((mm.label >> 8) as u8);
                    v.push(mm.label as u8);
                    v.push(mm.exp);
                    v.push(mm.bos);
                    v.push(mm.ttl);
                }
            }
        }
    }
    v
}
pub fn dec_exts(b: &[u8]) -> Extensions {
    let mut i = 0;
    let mut out = vec![];
    while i < b.len() {
        if b[i] == 0 {
            let n = (usize::from(b[i + 3]) << 8) | usize::from(b[i + 4]);
            out.push(Extension::Unknown(UnknownExtension { class_num: b[i + 1], class_subtype: b[i + 2], bytes: b[i + 5..i + 5 + n].to_vec() }));
            i += 5 + n;
        } else {
            let n = (usize::from(b[i + 1]) << 8) | usize::from(b[i + 2]);
            let mut members = vec![];
            i += 3;
            for _ in 0..n {
                members.push(MplsLabelStackMember {
                    label: (u32::from(b[i]) << 16) | (u32::from(b[i + 1]) << 8) | u32::from(b[i + 2]),
                    exp: b[i + 3], bos: b[i + 4], ttl: b[i + 5],
                });
                i += 6;
            }
            out.push(Extension::Mpls(MplsLabelStack { members }));
        }
    }
    Extensions { extensions: out }
}
pub fn opt_exts(e: &Option<Extensions>) -> String {
    match e { None => "-".to_string(), Some(e) => format!("+{}", { let h = hex(&enc_exts(e)); if h == "-" { String::new() } else { h } }) }
}
pub fn parse_exts(s: &str) -> Option<Extensions> {
    if s == "-" { None } else { Some(dec_exts(&unhex(if s.len() == 1 { "-" } else { &s[1..] }))) }
}

pub fn render_response(r: &Response) -> String {
    let (kind, d, code, exts) = match r {
        Response::TimeExceeded(d, c, e) => ("te", d, c.0, opt_exts(e)),
        Response::DestinationUnreachable(d, c, e) => ("du", d, c.0, opt_exts(e)),
        Response::EchoReply(d, c) => ("er", d, c.0, "-".to_string()),
        Response::TcpReply(d) => ("tr", d, 0, "-".to_string()),
        Response::TcpRefused(d) => ("tf", d, 0, "-".to_string()),
    };
    let p = match &d.proto_resp {
        ProtocolResponse::Icmp(i) => format!("i/{}/{}/{}", i.identifier, i.sequence, opt_tos(i.tos)),
        ProtocolResponse::Udp(u) => format!("u/{}/{}/{}/{}/{}/{}/{}/{}/{}", u.identifier, hex(&addr_bytes(u.dest_addr)), u.src_port, u.dest_port,
            opt_tos(u.tos), u.expected_udp_checksum, u.actual_udp_checksum, u.payload_len, u8::from(u.has_magic)),
        ProtocolResponse::Tcp(t) => format!("t/{}/{}/{}/{}", hex(&addr_bytes(t.dest_addr)), t.src_port, t.dest_port, opt_tos(t.tos)),
    };
    format!("{kind}/{}/{}/{code}/{exts}/{p}", vclock::to_ns(d.recv), hex(&addr_bytes(d.addr)))
}
pub fn parse_response(s: &str) -> Response {
    let t: Vec<&str> = s.split('/').collect();
    let recv = vclock::from_ns(t[1].parse().unwrap());
    let addr = addr_from(&unhex(t[2]));
    let code = IcmpPacketCode(t[3].parse().unwrap());
    let exts = parse_exts(t[4]);
    let p = match t[5] {
        "i" => ProtocolResponse::Icmp(IcmpProtocolResponse::new(t[6].parse().unwrap(), t[7].parse().unwrap(), parse_tos(t[8]))),
        "u" => ProtocolResponse::Udp(UdpProtocolResponse::new(t[6].parse().unwrap(), addr_from(&unhex(t[7])), t[8].parse().unwrap(), t[9].parse().unwrap(),
            parse_tos(t[10]), t[11].parse().unwrap(), t[12].parse().unwrap(), t[13].parse().unwrap(), t[14] == "1")),
        _ => ProtocolResponse::Tcp(TcpProtocolResponse::new(addr_from(&unhex(t[6])), t[7].parse().unwrap(), t[8].parse().unwrap(), parse_tos(t[9]))),
    };
    let d = ResponseData::new(recv, addr, p);
    match t[0] {
        "te" => Response::TimeExceeded(d, code, exts),
        "du" => Response::DestinationUnreachable(d, code, exts),
        "er" => Response::EchoReply(d, code),
        "tr" => Response::TcpReply(d),
        _ => Response::TcpRefused(d),
    }
}

impl Iter {
    pub fn render(&self) -> String {
        let clk = self.clk.iter().map(u64::to_string).collect::<Vec<_>>().join(",");
        let sends = self.sends.iter().map(|s| match s {
            SendO::Sent => "S".to_string(), SendO::Failed => "P".to_string(), SendO::InUse => "A".to_string(),
            SendO::Fatal(k) => format!("F{}", k.tok()) }).collect::<Vec<_>>().join(",");
        let recv = match &self.recv { RecvO::Timeout => "T".to_string(), RecvO::Fatal(k) => format!("F{}", k.tok()), RecvO::Resp(r) => render_response(r) };
        format!("{clk}|{sends}|{recv}|{}|{}", self.upd, self.adv)
    }
    pub fn parse(s: &str) -> Iter {
        let t: Vec<&str> = s.split('|').collect();
        let clk = if t[0].is_empty() { vec![] } else { t[0].split(',').map(|x| x.parse().unwrap()).collect() };
        let sends = if t[1].is_empty() { vec![] } else { t[1].split(',').map(|x| match &x[..1] {
            "S" => SendO::Sent, "P" => SendO::Failed, "A" => SendO::InUse, _ => SendO::Fatal(ErrK::parse(&x[1..])) }).collect() };
        let recv = if t[2] == "T" { RecvO::Timeout } else if t[2].starts_with('F') { RecvO::Fatal(ErrK::parse(&t[2][1..])) } else { RecvO::Resp(parse_response(t[2])) };
        Iter { clk, sends, recv, upd: t[3].parse().unwrap(), adv: t[4].parse().unwrap(), published: false }
    }
}

pub fn render_iters(v: &[Iter]) -> String {
    if v.is_empty() { "-".to_string() } else { v.iter().map(Iter::render).collect::<Vec<_>>().join(";") }
}
pub fn parse_iters(s: &str) -> Vec<Iter> {
    if s == "-" { vec![] } else { s.split(';').map(Iter::parse).collect() }
}

// ---------------------------------------------------------------- outputs
pub fn render_probe(p: &Probe) -> String {
    format!("{}.{}.{}.{}.{}.{}.{}", p.sequence.0, p.identifier.0, p.src_port.0, p.dest_port.0, p.ttl.0, p.round.0, vclock::to_ns(p.sent))
}
pub fn render_icmp(t: &IcmpPacketType) -> String {
    match t {
        IcmpPacketType::TimeExceeded(c) => format!("te{}", c.0),
        IcmpPacketType::EchoReply(c) => format!("er{}", c.0),
        IcmpPacketType::Unreachable(c) => format!("du{}", c.0),
        IcmpPacketType::NotApplicable => "na".to_string(),
    }
}
pub fn render_status(s: &ProbeStatus) -> String {
    match s {
        ProbeStatus::NotSent => "N".to_string(),
        ProbeStatus::Skipped => "K".to_string(),
        ProbeStatus::Failed(f) => format!("F:{}.{}.{}.{}.{}.{}.{}", f.sequence.0, f.identifier.0, f.src_port.0, f.dest_port.0, f.ttl.0, f.round.0, vclock::to_ns(f.sent)),
        ProbeStatus::Awaited(p) => format!("A:{}.{}", render_probe(p), p.flags.bits()),
        ProbeStatus::Complete(c) => format!(
            "C:{}.{}.{}.{}.{}.{}.{}:{}:{}:{}:{}:{}:{}:{}",
            c.sequence.0, c.identifier.0, c.src_port.0, c.dest_port.0, c.ttl.0, c.round.0, vclock::to_ns(c.sent),
            hex(&addr_bytes(c.host)), vclock::to_ns(c.received), render_icmp(&c.icmp_packet_type), opt_tos(c.tos),
            c.expected_udp_checksum.map_or("-".to_string(), |x| x.0.to_string()),
            c.actual_udp_checksum.map_or("-".to_string(), |x| x.0.to_string()),
            opt_exts(&c.extensions)),
    }
}

#[derive(Clone, Debug)]
pub struct RoundOut {
    pub probes: Vec<ProbeStatus>,
    pub largest_ttl: u8,
    pub reason: CompletionReason,
    pub at: u64, // virtual time of the publish callback
}

#[derive(Clone, Debug)]
pub struct RunOut {
    pub result: String, // ok | more | err:<k> | fault:panic
    pub sends: Vec<(Probe, SendO)>,
    pub rounds: Vec<RoundOut>,
    pub iters: Vec<Iter>,
    pub t0: u64,
    pub snapshot: Option<State>,
    pub error_text: Option<String>,
    /// for a run that ended with an error: the error shown by a snapshot taken after a subsequent clear()
    pub error_after_clear: Option<Option<String>>,
    /// the clock when the run returned, and whether the harness ended it (iteration budget of the simulated environment used up)
    pub end_ns: u64,
    pub budget_hit: bool,
    pub stamp_fails: Vec<String>,
}

impl RunOut {
    pub fn render(&self) -> String {
        let sends = self.sends.iter().map(|(p, o)| format!("{}.{}.{}", render_probe(p), p.flags.bits(), match o {
            SendO::Sent => "S".to_string(), SendO::Failed => "P".to_string(), SendO::InUse => "A".to_string(), SendO::Fatal(k) => format!("F{}", k.tok()) }))
            .collect::<Vec<_>>().join(",");
        let rounds = self.rounds.iter().map(|r| format!("{}/{}/{}", r.largest_ttl,
            if r.reason == CompletionReason::TargetFound { "tf" } else { "tl" },
            r.probes.iter().map(render_status).collect::<Vec<_>>().join(","))).collect::<Vec<_>>().join(";");
        let snap = match (&self.snapshot, self.result.starts_with("fault")) {
            (Some(st), false) => {
                let mut ids: Vec<u64> = vec![0];
                ids.extend(st.flows().iter().map(|(_, id)| id.0));
                match std::panic::catch_unwind(std::panic::AssertUnwindSafe(|| crate::m_state::render_state(st, &ids))) {
                    Ok(s) => s.replace(' ', "!"),
                    Err(_) => "fault:panic".to_string(),
                }
            }
            _ => "-".to_string(),
        };
        format!("res={} sends={} rounds={} snap={}", self.result, if sends.is_empty() { "-" } else { &sends }, if rounds.is_empty() { "-" } else { &rounds }, snap)
    }
}

// ---------------------------------------------------------------- environment + executor
/// The environment decides every outcome; it may move the virtual clock.
pub trait Env {
    fn on_send(&mut self, probe: &Probe) -> SendO;
    fn on_recv(&mut self) -> RecvO;
    /// called from the publish callback (replay uses it to script the next clock readings)
    fn on_publish(&mut self) {}
}

#[derive(Default)]
pub struct Log {
    pub events: Vec<Ev>,
    /// probes whose `sent` stamp is not the time at which they were handed to the network
    pub stamp_fails: Vec<String>,
}
/// what a refused bind/connect attempt (address in use) costs on the virtual clock
pub const IN_USE_COST_NS: u64 = 250_000;
pub enum Ev { Clock(u64), Send(Probe, SendO), Recv(RecvO), Publish(RoundOut) }

pub struct ScriptNet {
    pub env: Rc<RefCell<Box<dyn Env>>>,
    pub log: Rc<RefCell<Log>>,
}
fn drain_clock(log: &mut Log) {
    for t in vclock::take_readings() {
        log.events.push(Ev::Clock(t));
    }
}
impl Network for ScriptNet {
    fn send_probe(&mut self, probe: Probe) -> Result<(), Error> {
        drain_clock(&mut self.log.borrow_mut());
        let handed_over = vclock::now();
        if vclock::to_ns(probe.sent) != handed_over && self.log.borrow().stamp_fails.len() < 4 {
            self.log.borrow_mut().stamp_fails.push(format!("seq={},ttl={},sent={},handed_over={}", probe.sequence.0, probe.ttl.0, vclock::to_ns(probe.sent), handed_over));
        }
        let o = self.env.borrow_mut().on_send(&probe);
        let _ = vclock::take_readings();
        if o == SendO::InUse {
            vclock::advance(IN_USE_COST_NS);
        }
        self.log.borrow_mut().events.push(Ev::Send(probe, o.clone()));
        match o {
            SendO::Sent => Ok(()),
            SendO::Failed => Err(ErrK::Failed.to_error()),
            SendO::InUse => Err(ErrK::InUse.to_error()),
            SendO::Fatal(k) => Err(k.to_error()),
        }
    }
    fn recv_probe(&mut self) -> Result<Option<Response>, Error> {
        drain_clock(&mut self.log.borrow_mut());
        let o = self.env.borrow_mut().on_recv();
        let _ = vclock::take_readings();
        self.log.borrow_mut().events.push(Ev::Recv(o.clone()));
        match o {
            RecvO::Timeout => Ok(None),
            RecvO::Fatal(k) => Err(k.to_error()),
            RecvO::Resp(r) => Ok(Some(r)),
        }
    }
}

/// Run the real strategy + state handler.  `max_iters` bounds the loop for unbounded configurations
/// (the environment returns a fatal `other` error once exceeded; reported as `more`).
pub fn exec(cfg: &Cfg, env: Box<dyn Env>, t0: u64, tick: u64) -> RunOut {
    let env = Rc::new(RefCell::new(env));
    let log = Rc::new(RefCell::new(Log::default()));
    vclock::TICK_NS.store(tick, std::sync::atomic::Ordering::SeqCst);
    let tracer = match cfg.build() {
        Ok(t) => t,
        Err(e) => {
            return RunOut { result: format!("err:{}", ErrK::of(&e).tok()), sends: vec![], rounds: vec![], iters: vec![], t0, snapshot: None, error_text: None, error_after_clear: None, end_ns: t0, budget_hit: false, stamp_fails: vec![] };
        }
    };
    let _ = vclock::take_readings();
    vclock::RECORD.store(true, std::sync::atomic::Ordering::SeqCst);
    let net = ScriptNet { env: env.clone(), log: log.clone() };
    let log2 = log.clone();
    let env2 = env.clone();
    let res = std::panic::catch_unwind(std::panic::AssertUnwindSafe(|| {
        tracer.verif_run_with_network(net, |round| {
            drain_clock(&mut log2.borrow_mut());
            let r = RoundOut { probes: round.probes.to_vec(), largest_ttl: round.largest_ttl.0, reason: round.reason, at: vclock::now() };
            log2.borrow_mut().events.push(Ev::Publish(r));
            env2.borrow_mut().on_publish();
            let _ = vclock::take_readings();
        })
    }));
    vclock::RECORD.store(false, std::sync::atomic::Ordering::SeqCst);
    let end_ns = vclock::now();
    let mut lg = log.borrow_mut();
    drain_clock(&mut lg);
    vclock::set_script(vec![]);
    let (result, error_text) = match &res {
        Ok(Ok(())) => ("ok".to_string(), None),
        Ok(Err(e)) => (format!("err:{}", ErrK::of(e).tok()), Some(e.to_string())),
        Err(_) => ("fault:panic".to_string(), None),
    };
    // group the event log into iterations:  [C? S (C S)*]  R  C  [P C]
    let mut sends = vec![];
    let mut rounds = vec![];
    let mut iters: Vec<Iter> = vec![];
    let mut t0_seen = None;
    let mut cur = Iter { clk: vec![], sends: vec![], recv: RecvO::Timeout, upd: 0, adv: 0, published: false };
    // phase: 0 = before recv, 1 = after recv (expect update reading), 2 = after update reading, 3 = after publish (expect advance reading)
    let mut phase = 0;
    let mut last_clock = t0;
    for ev in lg.events.drain(..) {
        match ev {
            Ev::Clock(t) => {
                last_clock = t;
                if t0_seen.is_none() {
                    t0_seen = Some(t);
                    continue;
                }
                match phase {
                    0 => cur.clk.push(t),
                    1 => { cur.upd = t; cur.adv = t; phase = 2; }
                    2 => {
                        // first reading of the next iteration
                        iters.push(std::mem::replace(&mut cur, Iter { clk: vec![t], sends: vec![], recv: RecvO::Timeout, upd: 0, adv: 0, published: false }));
                        phase = 0;
                    }
                    _ => {
                        cur.adv = t;
                        iters.push(std::mem::replace(&mut cur, Iter { clk: vec![], sends: vec![], recv: RecvO::Timeout, upd: 0, adv: 0, published: false }));
                        phase = 0;
                    }
                }
            }
            Ev::Send(p, o) => {
                if phase == 2 {
                    iters.push(std::mem::replace(&mut cur, Iter { clk: vec![], sends: vec![], recv: RecvO::Timeout, upd: 0, adv: 0, published: false }));
                    phase = 0;
                }
                cur.sends.push(o.clone());
                sends.push((p, o));
            }
            Ev::Recv(o) => {
                if phase == 2 {
                    iters.push(std::mem::replace(&mut cur, Iter { clk: vec![], sends: vec![], recv: RecvO::Timeout, upd: 0, adv: 0, published: false }));
                }
                cur.recv = o;
                cur.upd = last_clock;
                cur.adv = last_clock;
                phase = 1;
            }
            Ev::Publish(r) => {
                rounds.push(r);
                cur.published = true;
                phase = 3;
            }
        }
    }
    if phase != 0 || !cur.clk.is_empty() || !cur.sends.is_empty() {
        iters.push(cur);
    }
    let stamp_fails = std::mem::take(&mut lg.stamp_fails);
    let snapshot = Some(tracer.snapshot());
    let error_after_clear = if result.starts_with("err:") { tracer.clear(); Some(tracer.snapshot().error().map(ToString::to_string)) } else { None };
    RunOut { result, sends, rounds, iters, t0: t0_seen.unwrap_or(t0), snapshot, error_text, error_after_clear, end_ns, budget_hit: crate::simnet::BUDGET_HIT.swap(false, std::sync::atomic::Ordering::SeqCst), stamp_fails }
}

/// Replay environment: feeds a recorded trace back (exhaustion => timeouts / sent).
pub struct ReplayEnv {
    pub iters: Vec<Iter>,
    pub i: usize,
    pub s: usize,
}
impl ReplayEnv {
    fn script_after(&self, first: Vec<u64>) {
        let mut v = first;
        if let Some(n) = self.iters.get(self.i + 1) {
            v.extend(&n.clk);
        }
        vclock::set_script(v);
    }
}
impl Env for ReplayEnv {
    fn on_send(&mut self, _probe: &Probe) -> SendO {
        let o = self.iters.get(self.i).and_then(|it| it.sends.get(self.s).cloned()).unwrap_or(SendO::Sent);
        self.s += 1;
        o
    }
    fn on_recv(&mut self) -> RecvO {
        match self.iters.get(self.i) {
            None => RecvO::Fatal(ErrK::Other), // trace exhausted: stop the run
            Some(it) => {
                let o = it.recv.clone();
                self.script_after(vec![it.upd]);
                o
            }
        }
    }
    fn on_publish(&mut self) {
        if let Some(it) = self.iters.get(self.i) {
            self.script_after(vec![it.adv]);
        }
    }
}

/// replay a recorded trace through the real code
pub fn exec_replay(cfg: &Cfg, t0: u64, iters: Vec<Iter>) -> RunOut {
    // the clock script: t0 for TracerState::new, then the first iteration's send readings
    let mut first = vec![t0];
    if let Some(it) = iters.first() {
        first.extend(&it.clk);
    }
    vclock::set(t0);
    vclock::set_script(first);
    struct Wrap(ReplayEnv);
    impl Env for Wrap {
        fn on_send(&mut self, p: &Probe) -> SendO { self.0.on_send(p) }
        fn on_recv(&mut self) -> RecvO {
            let r = self.0.on_recv();
            r
        }
        fn on_publish(&mut self) { self.0.on_publish(); }
    }
    // advancing the iteration index: an iteration ends after its recv (and the optional publish);
    // the index moves when the next on_send / on_recv of a later iteration arrives.
    struct Stepper { inner: ReplayEnv, recv_done: bool }
    impl Env for Stepper {
        fn on_send(&mut self, p: &Probe) -> SendO {
            if self.recv_done { self.inner.i += 1; self.inner.s = 0; self.recv_done = false; }
            self.inner.on_send(p)
        }
        fn on_recv(&mut self) -> RecvO {
            if self.recv_done { self.inner.i += 1; self.inner.s = 0; }
            self.recv_done = true;
            self.inner.on_recv()
        }
        fn on_publish(&mut self) { self.inner.on_publish(); }
    }
    let _ = Wrap;
    let env = Stepper { inner: ReplayEnv { iters, i: 0, s: 0 }, recv_done: false };
    exec(cfg, Box::new(env), t0, 0)
}

pub fn seqv(x: u16) -> Sequence { Sequence(x) }
pub fn ttlv(x: u8) -> TimeToLive { TimeToLive(x) }
pub fn tid(x: u16) -> TraceId { TraceId(x) }
pub fn nz(x: usize) -> MaxRounds { MaxRounds(NonZeroUsize::new(x).unwrap()) }
pub fn inflight(x: u8) -> MaxInflight { MaxInflight(x) }
