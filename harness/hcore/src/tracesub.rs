//! A `tracing` subscriber that behaves like `--verbose --log-filter trippy=trace`: while switched on (per thread) every span and
//! event of the code under test is enabled and every field value is formatted (into nothing).  Field expressions of `tracing`
//! macros are only evaluated when a subscriber enables the call site, so code that is correct with logging off can still panic
//! with logging on.
use std::cell::Cell;
use std::fmt::Write;
use tracing::field::{Field, Visit};

thread_local! { static ON: Cell<bool> = const { Cell::new(false) }; }

pub fn set(on: bool) {
    ON.with(|f| f.set(on));
}

struct Sink(String);
impl Visit for Sink {
    fn record_debug(&mut self, field: &Field, value: &dyn std::fmt::Debug) {
        self.0.clear();
        let _ = write!(self.0, "{}={value:?}", field.name());
    }
}

pub struct TraceAll;
impl tracing::Subscriber for TraceAll {
    fn register_callsite(&self, _: &'static tracing::Metadata<'static>) -> tracing::subscriber::Interest {
        tracing::subscriber::Interest::sometimes()
    }
    fn enabled(&self, _: &tracing::Metadata<'_>) -> bool {
        ON.with(Cell::get)
    }
    fn new_span(&self, attrs: &tracing::span::Attributes<'_>) -> tracing::span::Id {
        attrs.record(&mut Sink(String::new()));
        tracing::span::Id::from_u64(1)
    }
    fn record(&self, _: &tracing::span::Id, values: &tracing::span::Record<'_>) {
        values.record(&mut Sink(String::new()));
    }
    fn record_follows_from(&self, _: &tracing::span::Id, _: &tracing::span::Id) {}
    fn event(&self, event: &tracing::Event<'_>) {
        event.record(&mut Sink(String::new()));
    }
    fn enter(&self, _: &tracing::span::Id) {}
    fn exit(&self, _: &tracing::span::Id) {}
}

pub fn install() {
    let _ = tracing::subscriber::set_global_default(TraceAll);
}
