//! Virtual time: the harness binary defines `clock_gettime`, which interposes the libc symbol
//! used by `SystemTime::now()`.  While `VIRTUAL` is false the real clock is read via the raw syscall.
use std::collections::VecDeque;
use std::sync::atomic::{AtomicBool, AtomicU64, Ordering};
use std::sync::Mutex;

/// every reading of the virtual clock, in order (drained by the recorder)
pub static READINGS: Mutex<Vec<u64>> = Mutex::new(Vec::new());
/// scripted readings (replay): while non-empty the next reading is popped from here
pub static SCRIPT: Mutex<VecDeque<u64>> = Mutex::new(VecDeque::new());
pub static RECORD: AtomicBool = AtomicBool::new(false);

pub static VIRTUAL: AtomicBool = AtomicBool::new(false);
/// nanoseconds since the epoch
pub static NOW_NS: AtomicU64 = AtomicU64::new(0);
/// every reading of the virtual clock advances it by this much (0 = frozen between explicit steps)
pub static TICK_NS: AtomicU64 = AtomicU64::new(0);

pub const BASE_NS: u64 = 1_000_000_000_000;

#[repr(C)]
pub struct Timespec {
    tv_sec: i64,
    tv_nsec: i64,
}

#[no_mangle]
pub unsafe extern "C" fn clock_gettime(clk: i32, ts: *mut Timespec) -> i32 {
    if VIRTUAL.load(Ordering::SeqCst) {
        let scripted = SCRIPT.lock().ok().and_then(|mut q| q.pop_front());
        let now = if let Some(t) = scripted {
            NOW_NS.store(t, Ordering::SeqCst);
            t
        } else {
            let tick = TICK_NS.load(Ordering::SeqCst);
            NOW_NS.fetch_add(tick, Ordering::SeqCst) + tick
        };
        if RECORD.load(Ordering::SeqCst) {
            if let Ok(mut r) = READINGS.lock() {
                r.push(now);
            }
        }
        (*ts).tv_sec = (now / 1_000_000_000) as i64;
        (*ts).tv_nsec = (now % 1_000_000_000) as i64;
        0
    } else {
        libc::syscall(libc::SYS_clock_gettime, clk as libc::c_long, ts) as i32
    }
}

pub fn enable(start_ns: u64) {
    NOW_NS.store(start_ns, Ordering::SeqCst);
    VIRTUAL.store(true, Ordering::SeqCst);
}
pub fn disable() {
    VIRTUAL.store(false, Ordering::SeqCst);
}
pub fn now() -> u64 {
    NOW_NS.load(Ordering::SeqCst)
}
pub fn set(ns: u64) {
    NOW_NS.store(ns, Ordering::SeqCst);
}
pub fn advance(ns: u64) {
    NOW_NS.fetch_add(ns, Ordering::SeqCst);
}
pub fn to_ns(t: std::time::SystemTime) -> u64 {
    t.duration_since(std::time::UNIX_EPOCH).map(|d| d.as_nanos() as u64).unwrap_or(0)
}
pub fn from_ns(ns: u64) -> std::time::SystemTime {
    std::time::UNIX_EPOCH + std::time::Duration::from_nanos(ns)
}

pub fn take_readings() -> Vec<u64> {
    READINGS.lock().map(|mut r| std::mem::take(&mut *r)).unwrap_or_default()
}
pub fn set_script(v: Vec<u64>) {
    if let Ok(mut q) = SCRIPT.lock() {
        *q = v.into();
    }
}
