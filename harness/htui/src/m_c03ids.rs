//! C03, several tracers of one process: the trace identifiers `start_tracers` (trippy-tui app.rs) assigns.
//! One line per process id: the identifiers of the tracers at a fixed set of target indices, through the real
//! assignment (hook `trippy_tui::verif::trace_identifier`).  Oracle (model free): no panic, every identifier
//! non-zero (a zero identifier in a response is accepted by every tracer), identifiers pairwise distinct.
use crate::{Args, Out};
use std::panic::{catch_unwind, AssertUnwindSafe};

const INDICES: [usize; 16] = [0, 1, 2, 3, 4, 5, 6, 7, 15, 16, 255, 256, 1000, 32767, 65533, 65534];

fn case(pid: u16, idx: &[usize], out: &mut Out) {
    let input = format!("tids {pid} {}", idx.iter().map(ToString::to_string).collect::<Vec<_>>().join(","));
    let r = catch_unwind(AssertUnwindSafe(|| idx.iter().map(|&i| trippy_tui::verif::trace_identifier(pid, i)).collect::<Vec<u16>>()));
    match r {
        Err(_) => out.case(&input, "fault:panic", "FAIL:C03:trace_identifier_assignment_panics"),
        Ok(ids) => {
            let mut fails = vec![];
            if ids.iter().any(|&t| t == 0) {
                fails.push("C03:trace_identifier_zero_is_accepted_by_every_tracer".to_string());
            }
            let mut s = ids.clone();
            s.sort_unstable();
            s.dedup();
            if s.len() != ids.len() {
                fails.push("C03:two_tracers_share_a_trace_identifier".to_string());
            }
            let o = ids.iter().map(ToString::to_string).collect::<Vec<_>>().join(",");
            out.case(&input, &o, &if fails.is_empty() { "ok".to_string() } else { format!("FAIL:{}", fails.join(";")) });
        }
    }
}

pub fn run(args: &Args, out: &mut Out) {
    if let Some(path) = &args.replay {
        for l in crate::replay_inputs(path) {
            let t: Vec<&str> = l.split(' ').collect();
            if t[0] != "tids" { continue; }
            let idx: Vec<usize> = t[2].split(',').map(|x| x.parse().unwrap()).collect();
            case(t[1].parse().unwrap(), &idx, out);
        }
        return;
    }
    // every process id the binary can pass (process::id() % 65535) and the one beyond
    for pid in 0..=u16::MAX {
        case(pid, &INDICES, out);
    }
    out.stat("pids", "all 65536");
    out.stat("indices", format!("{INDICES:?}"));
}
