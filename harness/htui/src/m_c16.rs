//! C16 (first part): option precedence CLI > file > default through the real clap / toml parsers and the real
//! `TrippyConfig::build_config`.
//!
//! A case is a pair of abstract option maps (file, command line) + privilege + pid.  The harness renders the
//! maps to real argv strings and TOML text (rendering choices - long / short flags, `--k v` / `--k=v`,
//! duration units, letter case - are glue and are derived from a hash of the case, so a replay is exact),
//! runs the real parsers and `build_config`, prints the effective `TrippyConfig` in a canonical text form, and
//! evaluates the precedence rule directly on the recorded maps (model-free oracle, documented defaults).
use crate::colors::COLOR_NAMES;
use crate::rng::{hex, unhex, Rng};
use crate::{Args, Out};
use std::collections::BTreeMap;
use std::net::IpAddr;
use trippy_core::{MultipathStrategy, PortDirection, Protocol};
use trippy_tui::verif::{self as tv, TrippyConfig};

// ------------------------------------------------------------------ abstract values
#[derive(Clone, Debug, PartialEq)]
pub enum V {
    /// integers, enum variant index, bool (0/1), durations (ns), colour id, key id
    I(u64),
    /// strings
    S(String),
    /// IP address octets
    A(Vec<u8>),
}
impl V {
    fn tok(&self) -> String {
        match self {
            V::I(n) => n.to_string(),
            V::S(s) => hex(s.as_bytes()),
            V::A(b) => hex(b),
        }
    }
    fn int(&self) -> u64 {
        match self { V::I(n) => *n, _ => 0 }
    }
}

#[derive(Clone, Copy)]
enum K {
    En(&'static [&'static str]),
    Flag,
    Int,
    Dur,
    Str,
    Addr,
}

struct OptDef {
    name: &'static str,
    sec: &'static str,
    k: K,
    short: Option<char>,
    /// values a default-ish configuration accepts
    good: &'static [&'static str],
    /// boundary / rejected values
    edge: &'static [&'static str],
    /// documented default as a value token ("none" = no value)
    doc_default: &'static str,
}

const MS: u64 = 1_000_000;
const MODES: &[&str] = &["tui", "stream", "pretty", "markdown", "csv", "json", "dot", "flows", "silent"];
const PROTOCOLS: &[&str] = &["icmp", "udp", "tcp"];
const FAMILIES: &[&str] = &["ipv4", "ipv6", "ipv6-then-ipv4", "ipv4-then-ipv6", "system"];
const STRATEGIES: &[&str] = &["classic", "paris", "dublin"];
const LOG_FORMATS: &[&str] = &["compact", "pretty", "json", "chrome"];
const LOG_SPANS: &[&str] = &["off", "active", "full"];
const DNS_METHODS: &[&str] = &["system", "resolv", "google", "cloudflare"];
const ADDR_MODES: &[&str] = &["ip", "host", "both"];
const AS_MODES: &[&str] = &["asn", "prefix", "country-code", "registry", "allocated", "name"];
const EXT_MODES: &[&str] = &["off", "mpls", "full", "all"];
const GEO_MODES: &[&str] = &["off", "short", "long", "location"];

/// The 44 layered options (sections and keys of the configuration file reference; flags of `trip --help`).
/// `doc_default` is the documented default (configuration reference / help text), not read from the code.
const OPTS: &[OptDef] = &[
    // [trippy]
    OptDef { name: "mode", sec: "trippy", k: K::En(MODES), short: Some('m'), good: &["0", "1", "2", "6", "8"], edge: &["3", "4", "5", "7"], doc_default: "0" },
    OptDef { name: "unprivileged", sec: "trippy", k: K::Flag, short: Some('u'), good: &["0"], edge: &["1"], doc_default: "0" },
    OptDef { name: "log_format", sec: "trippy", k: K::En(LOG_FORMATS), short: None, good: &["0", "1", "2", "3"], edge: &[], doc_default: "1" },
    OptDef { name: "log_filter", sec: "trippy", k: K::Str, short: None, good: &["trippy=debug", "info", "trippy_core=trace"], edge: &[""], doc_default: "7472697070793d6465627567" },
    OptDef { name: "log_span_events", sec: "trippy", k: K::En(LOG_SPANS), short: None, good: &["0", "1", "2"], edge: &[], doc_default: "0" },
    // [strategy]
    OptDef { name: "protocol", sec: "strategy", k: K::En(PROTOCOLS), short: Some('p'), good: &["0", "1", "2"], edge: &[], doc_default: "0" },
    OptDef { name: "addr_family", sec: "strategy", k: K::En(FAMILIES), short: Some('F'), good: &["0", "1", "2", "3", "4"], edge: &[], doc_default: "3" },
    OptDef { name: "target_port", sec: "strategy", k: K::Int, short: Some('P'), good: &["80", "443", "33434"], edge: &["0", "1", "65535"], doc_default: "none" },
    OptDef { name: "source_port", sec: "strategy", k: K::Int, short: Some('S'), good: &["1024", "5000", "65535"], edge: &["0", "1023"], doc_default: "none" },
    OptDef { name: "source_address", sec: "strategy", k: K::Addr, short: Some('A'), good: &["10.0.0.7", "192.168.1.2", "2001:db8::1"], edge: &["0.0.0.0", "::"], doc_default: "none" },
    OptDef { name: "interface", sec: "strategy", k: K::Str, short: Some('I'), good: &["lo", "eth0", "en0"], edge: &[""], doc_default: "none" },
    OptDef { name: "min_round_duration", sec: "strategy", k: K::Dur, short: Some('i'), good: &["1000", "500", "250", "1"], edge: &["0", "2000", "5000"], doc_default: "1000000000" },
    OptDef { name: "max_round_duration", sec: "strategy", k: K::Dur, short: Some('T'), good: &["1000", "2000", "5000"], edge: &["1", "500", "999", "0"], doc_default: "1000000000" },
    OptDef { name: "initial_sequence", sec: "strategy", k: K::Int, short: None, good: &["33434", "0", "1", "64511"], edge: &["64512", "65535"], doc_default: "33434" },
    OptDef { name: "multipath_strategy", sec: "strategy", k: K::En(STRATEGIES), short: Some('R'), good: &["0"], edge: &["1", "2"], doc_default: "0" },
    OptDef { name: "grace_duration", sec: "strategy", k: K::Dur, short: Some('g'), good: &["100", "10", "1000", "50"], edge: &["9", "1001", "0"], doc_default: "100000000" },
    OptDef { name: "max_inflight", sec: "strategy", k: K::Int, short: Some('U'), good: &["24", "1", "255"], edge: &["0"], doc_default: "24" },
    OptDef { name: "first_ttl", sec: "strategy", k: K::Int, short: Some('f'), good: &["1", "2", "5"], edge: &["0", "64", "65", "254", "255"], doc_default: "1" },
    OptDef { name: "max_ttl", sec: "strategy", k: K::Int, short: Some('t'), good: &["64", "30", "254", "5"], edge: &["0", "1", "4", "255"], doc_default: "64" },
    OptDef { name: "packet_size", sec: "strategy", k: K::Int, short: None, good: &["84", "48", "1024", "100"], edge: &["27", "28", "47", "1025", "0", "65535"], doc_default: "84" },
    OptDef { name: "payload_pattern", sec: "strategy", k: K::Int, short: None, good: &["0", "1", "255"], edge: &[], doc_default: "0" },
    OptDef { name: "tos", sec: "strategy", k: K::Int, short: Some('Q'), good: &["0", "1", "255"], edge: &[], doc_default: "0" },
    OptDef { name: "icmp_extensions", sec: "strategy", k: K::Flag, short: Some('e'), good: &["0", "1"], edge: &[], doc_default: "0" },
    OptDef { name: "read_timeout", sec: "strategy", k: K::Dur, short: None, good: &["10", "50", "100"], edge: &["9", "101", "0"], doc_default: "10000000" },
    OptDef { name: "max_samples", sec: "strategy", k: K::Int, short: Some('s'), good: &["256", "1", "100000"], edge: &["0"], doc_default: "256" },
    OptDef { name: "max_flows", sec: "strategy", k: K::Int, short: None, good: &["64", "1", "1000"], edge: &["0"], doc_default: "64" },
    // [dns]
    OptDef { name: "dns_resolve_method", sec: "dns", k: K::En(DNS_METHODS), short: Some('r'), good: &["0", "1", "2", "3"], edge: &[], doc_default: "0" },
    OptDef { name: "dns_resolve_all", sec: "dns", k: K::Flag, short: Some('y'), good: &["0"], edge: &["1"], doc_default: "0" },
    OptDef { name: "dns_lookup_as_info", sec: "dns", k: K::Flag, short: Some('z'), good: &["0"], edge: &["1"], doc_default: "0" },
    OptDef { name: "dns_timeout", sec: "dns", k: K::Dur, short: None, good: &["5000", "1000", "0"], edge: &[], doc_default: "5000000000" },
    OptDef { name: "dns_ttl", sec: "dns", k: K::Dur, short: None, good: &["300000", "60000", "0"], edge: &[], doc_default: "300000000000" },
    // [report]
    OptDef { name: "report_cycles", sec: "report", k: K::Int, short: Some('C'), good: &["10", "1", "1000"], edge: &["0"], doc_default: "10" },
    // [tui]
    OptDef { name: "tui_preserve_screen", sec: "tui", k: K::Flag, short: None, good: &["0", "1"], edge: &[], doc_default: "0" },
    OptDef { name: "tui_refresh_rate", sec: "tui", k: K::Dur, short: None, good: &["100", "50", "1000"], edge: &["49", "1001", "0"], doc_default: "100000000" },
    OptDef { name: "tui_privacy_max_ttl", sec: "tui", k: K::Int, short: None, good: &["0", "1", "5", "255"], edge: &[], doc_default: "none" },
    OptDef { name: "tui_address_mode", sec: "tui", k: K::En(ADDR_MODES), short: Some('a'), good: &["0", "1", "2"], edge: &[], doc_default: "1" },
    OptDef { name: "tui_as_mode", sec: "tui", k: K::En(AS_MODES), short: None, good: &["0", "1", "2", "3", "4", "5"], edge: &[], doc_default: "0" },
    OptDef { name: "tui_icmp_extension_mode", sec: "tui", k: K::En(EXT_MODES), short: None, good: &["0", "1", "2", "3"], edge: &[], doc_default: "0" },
    OptDef { name: "tui_geoip_mode", sec: "tui", k: K::En(GEO_MODES), short: None, good: &["0"], edge: &["1", "2", "3"], doc_default: "0" },
    OptDef { name: "tui_max_addrs", sec: "tui", k: K::Int, short: Some('M'), good: &["0", "1", "5", "255"], edge: &[], doc_default: "none" },
    OptDef { name: "geoip_mmdb_file", sec: "tui", k: K::Str, short: Some('G'), good: &["GeoLite2-City.mmdb", "/tmp/x.mmdb"], edge: &[""], doc_default: "none" },
    OptDef { name: "tui_custom_columns", sec: "tui", k: K::Str, short: None, good: &["holsravbwdt", "hol", "h", "SPQTCNfFBDKMjgxi"], edge: &["", "hh", "holz", "hoLh"], doc_default: "686f6c7372617662776474" },
    OptDef { name: "tui_locale", sec: "tui", k: K::Str, short: None, good: &["en", "fr", "zz"], edge: &[""], doc_default: "none" },
    OptDef { name: "tui_timezone", sec: "tui", k: K::Str, short: None, good: &["UTC", "Europe/London", "America/New_York"], edge: &["Not/AZone", ""], doc_default: "none" },
];

const THEME_FIELDS: [&str; 34] = [
    "bg", "border", "text", "tab_text", "hops_table_header_bg", "hops_table_header_text", "hops_table_row_active_text",
    "hops_table_row_inactive_text", "hops_chart_selected", "hops_chart_unselected", "hops_chart_axis", "frequency_chart_bar",
    "frequency_chart_text", "flows_chart_bar_selected", "flows_chart_bar_unselected", "flows_chart_text_current",
    "flows_chart_text_non_current", "samples_chart", "samples_chart_lost", "help_dialog_bg", "help_dialog_text",
    "settings_dialog_bg", "settings_tab_text", "settings_table_header_text", "settings_table_header_bg",
    "settings_table_row_text", "map_world", "map_radius", "map_selected", "map_info_panel_border", "map_info_panel_bg",
    "map_info_panel_text", "info_bar_bg", "info_bar_text",
];
/// documented default theme (docs/reference/theme.md), colour names in item order
const THEME_DOC_DEFAULT: [&str; 34] = [
    "Black", "Gray", "Gray", "Green", "White", "Black", "Gray", "DarkGray", "Green", "Gray", "DarkGray", "Green", "Gray",
    "Green", "DarkGray", "LightGreen", "White", "Yellow", "Red", "Blue", "Gray", "Blue", "Green", "Black", "White", "Gray",
    "White", "Yellow", "Green", "Gray", "Black", "Gray", "White", "Black",
];
const BIND_FIELDS: [&str; 38] = [
    "toggle_help", "toggle_help_alt", "toggle_settings", "toggle_settings_tui", "toggle_settings_trace", "toggle_settings_dns",
    "toggle_settings_geoip", "toggle_settings_bindings", "toggle_settings_theme", "toggle_settings_columns", "previous_hop",
    "next_hop", "previous_trace", "next_trace", "previous_hop_address", "next_hop_address", "address_mode_ip",
    "address_mode_host", "address_mode_both", "toggle_freeze", "toggle_chart", "toggle_map", "toggle_flows", "expand_privacy",
    "contract_privacy", "expand_hosts", "contract_hosts", "expand_hosts_max", "contract_hosts_min", "chart_zoom_in",
    "chart_zoom_out", "clear_trace_data", "clear_dns_cache", "clear_selection", "toggle_as_info", "toggle_hop_details", "quit",
    "quit_preserve_screen",
];
/// documented default bindings (docs/reference/bindings.md), in command order
const BIND_DOC_DEFAULT: [&str; 38] = [
    "h", "?", "s", "1", "2", "3", "4", "5", "6", "7", "up", "down", "left", "right", ",", ".", "i", "n", "b", "ctrl+f", "c", "m",
    "f", "p", "o", "]", "[", "}", "{", "=", "-", "ctrl+r", "ctrl+k", "esc", "z", "d", "q", "shift+q",
];
const SPECIAL_KEYS: [&str; 16] = [
    "backspace", "enter", "left", "right", "up", "down", "home", "end", "pageup", "pagedown", "tab", "backtab", "delete",
    "insert", "null", "esc",
];
const MODIFIERS: [&str; 6] = ["shift", "ctrl", "alt", "super", "hyper", "meta"];
const SECTIONS: [&str; 7] = ["trippy", "strategy", "theme_colors", "bindings", "tui", "dns", "report"];

fn kebab(s: &str) -> String { s.replace('_', "-") }
fn opt_def(name: &str) -> Option<&'static OptDef> { OPTS.iter().find(|o| o.name == name) }

// ------------------------------------------------------------------ colour / key ids
fn color_id_of_name(name: &str) -> u64 {
    let n = name.to_ascii_lowercase();
    COLOR_NAMES.iter().position(|c| c.to_ascii_lowercase() == n).map_or(u64::MAX, |i| i as u64)
}
fn color_text(id: u64, r: &mut Rng) -> String {
    if id >= 1_000_000 {
        let s = format!("{:06x}", id - 1_000_000);
        if r.chance(1, 3) { s.to_ascii_uppercase() } else { s }
    } else {
        let name = COLOR_NAMES[id as usize];
        match r.below(3) { 0 => name.to_string(), 1 => name.to_ascii_lowercase(), _ => name.to_ascii_uppercase() }
    }
}
fn color_id(c: &tv::TuiColor) -> u64 {
    let d = format!("{c:?}");
    if let Some(rest) = d.strip_prefix("Rgb(") {
        let v: Vec<u64> = rest.trim_end_matches(')').split(", ").map(|x| x.parse().unwrap()).collect();
        1_000_000 + (v[0] << 16 | v[1] << 8 | v[2])
    } else {
        color_id_of_name(&d)
    }
}
/// key id = code * 64 + modifier bits; Char(c) = code point, special keys = 2097152 + index
fn key_id_of_text(s: &str) -> u64 {
    let (mods, key) = match s.rsplit_once('+') { Some((m, k)) if !k.is_empty() => (m, k), _ => ("", s) };
    let mut bits = 0u64;
    for m in mods.split('+').filter(|m| !m.is_empty()) {
        if let Some(i) = MODIFIERS.iter().position(|x| *x == m) { bits |= 1 << i; }
    }
    let code = if key.chars().count() == 1 { u64::from(u32::from(key.chars().next().unwrap())) }
               else { 2_097_152 + SPECIAL_KEYS.iter().position(|x| *x == key).map_or(999, |i| i as u64) };
    code * 64 + bits
}
fn key_text(id: u64, r: &mut Rng) -> String {
    let (code, bits) = (id / 64, id % 64);
    let mut s = String::new();
    for (i, m) in MODIFIERS.iter().enumerate() {
        if bits & (1 << i) != 0 {
            s.push_str(&if r.chance(1, 4) { m.to_ascii_uppercase() } else { (*m).to_string() });
            s.push('+');
        }
    }
    if code >= 2_097_152 {
        let k = SPECIAL_KEYS[(code - 2_097_152) as usize];
        s.push_str(&if r.chance(1, 4) { k.to_ascii_uppercase() } else { k.to_string() });
    } else {
        let c = char::from_u32(code as u32).unwrap();
        s.push(if r.chance(1, 4) { c.to_ascii_uppercase() } else { c });
    }
    s
}
fn key_id(b: &tv::TuiKeyBinding) -> u64 { key_id_of_text(&b.to_string()) }

// ------------------------------------------------------------------ the case
#[derive(Clone, Debug, PartialEq)]
pub enum FileSpec {
    /// `ConfigFile::default()` (no configuration file found)
    Default,
    /// the entries of a configuration file (possibly none = empty text)
    Entries(Vec<(String, V)>),
}
#[derive(Clone, Debug)]
pub struct Case {
    pub has: bool,
    pub needs: bool,
    pub pid: u16,
    pub file: FileSpec,
    pub cli: Vec<(String, V)>,
}

fn parse_value(name: &str, tok: &str) -> V {
    match opt_def(name).map(|d| d.k) {
        Some(K::Str) => V::S(String::from_utf8(unhex(tok)).unwrap()),
        Some(K::Addr) => V::A(unhex(tok)),
        _ => V::I(tok.parse().unwrap_or(0)),
    }
}
fn render_entries(e: &[(String, V)]) -> String {
    if e.is_empty() { return "-".to_string(); }
    e.iter().map(|(k, v)| format!("{k}={}", v.tok())).collect::<Vec<_>>().join(";")
}
fn parse_entries(s: &str) -> Vec<(String, V)> {
    if s == "-" { return vec![]; }
    s.split(';').map(|kv| {
        let (k, v) = kv.split_once('=').unwrap_or((kv, "1"));
        (k.to_string(), parse_value(k, v))
    }).collect()
}
impl Case {
    /// the timezone names of the case the timezone library accepts (recorded input for the model)
    fn tz_valid(&self) -> String {
        let mut names: Vec<String> = vec![];
        let mut add = |e: &[(String, V)]| for (k, v) in e { if k == "tui_timezone" { if let V::S(s) = v { if tv::timezone_is_valid(s) && !names.contains(s) { names.push(s.clone()); } } } };
        add(&self.cli);
        if let FileSpec::Entries(e) = &self.file { add(e); }
        if names.is_empty() { "-".to_string() } else { names.iter().map(|n| hex(n.as_bytes())).collect::<Vec<_>>().join(",") }
    }
    pub fn render(&self) -> String {
        let file = match &self.file { FileSpec::Default => "D".to_string(), FileSpec::Entries(e) => render_entries(e) };
        format!("c16 {}{} {} {} {} {}", u8::from(self.has), u8::from(self.needs), self.pid, self.tz_valid(), file, render_entries(&self.cli))
    }
    pub fn parse(l: &str) -> Option<Case> {
        let t: Vec<&str> = l.split(' ').collect();
        if t.len() < 6 || t[0] != "c16" { return None; }
        Some(Case {
            has: &t[1][..1] == "1", needs: &t[1][1..2] == "1", pid: t[2].parse().ok()?,
            file: if t[4] == "D" { FileSpec::Default } else { FileSpec::Entries(parse_entries(t[4])) },
            cli: parse_entries(t[5]),
        })
    }
    fn cli_get(&self, k: &str) -> Option<&V> { self.cli.iter().rev().find(|(n, _)| n == k).map(|(_, v)| v) }
    fn file_get(&self, k: &str) -> Option<&V> {
        match &self.file { FileSpec::Default => None, FileSpec::Entries(e) => e.iter().rev().find(|(n, _)| n == k).map(|(_, v)| v) }
    }
}

// ------------------------------------------------------------------ rendering to argv / TOML (glue)
fn dur_text(ns: u64, r: &mut Rng) -> String {
    if ns % 1_000_000_000 == 0 && r.chance(2, 3) { format!("{}s", ns / 1_000_000_000) }
    else if ns % MS == 0 && r.chance(3, 4) { format!("{}ms", ns / MS) }
    else if ns % 1000 == 0 && r.chance(1, 2) { format!("{}us", ns / 1000) }
    else { format!("{ns}ns") }
}
fn addr_text(b: &[u8]) -> String {
    if b.len() == 4 { IpAddr::from([b[0], b[1], b[2], b[3]]).to_string() }
    else { let mut a = [0u8; 16]; a.copy_from_slice(&b[..16]); IpAddr::from(a).to_string() }
}
fn value_text(d: &OptDef, v: &V, r: &mut Rng) -> String {
    match (d.k, v) {
        (K::En(names), V::I(i)) => names.get(*i as usize).map_or_else(|| format!("invalid{i}"), |s| (*s).to_string()),
        (K::Dur, V::I(n)) => dur_text(*n, r),
        (K::Addr, V::A(b)) => addr_text(b),
        (_, V::S(s)) => s.clone(),
        (_, V::I(n)) => n.to_string(),
        (_, V::A(b)) => addr_text(b),
    }
}
fn toml_quote(s: &str) -> String { format!("\"{}\"", s.replace('\\', "\\\\").replace('"', "\\\"")) }

pub fn render_toml(e: &[(String, V)], r: &mut Rng) -> String {
    // section -> lines, in first-appearance order
    let mut secs: Vec<(String, Vec<String>)> = vec![];
    let mut push = |sec: &str, line: Option<String>| {
        let i = secs.iter().position(|(s, _)| s == sec).unwrap_or_else(|| { secs.push((sec.to_string(), vec![])); secs.len() - 1 });
        if let Some(l) = line { secs[i].1.push(l); }
    };
    for (k, v) in e {
        if let Some(sec) = k.strip_prefix("sec.") { push(sec, None); continue; }
        if let Some(i) = k.strip_prefix("theme.") {
            let i: usize = i.parse().unwrap();
            push("theme_colors", Some(format!("{}-color = {}", kebab(THEME_FIELDS[i]), toml_quote(&color_text(v.int(), r)))));
            continue;
        }
        if let Some(i) = k.strip_prefix("bind.") {
            let i: usize = i.parse().unwrap();
            push("bindings", Some(format!("{} = {}", kebab(BIND_FIELDS[i]), toml_quote(&key_text(v.int(), r)))));
            continue;
        }
        match k.as_str() {
            "tui_max_samples" | "tui_max_flows" => { push("tui", Some(format!("{} = {}", kebab(k), v.int()))); continue; }
            "toggle_privacy" => { push("bindings", Some(format!("toggle-privacy = {}", toml_quote(&key_text(v.int(), r))))); continue; }
            _ => {}
        }
        let Some(d) = opt_def(k) else { continue };
        let lit = match d.k {
            K::Flag => (if v.int() != 0 { "true" } else { "false" }).to_string(),
            K::Int => v.int().to_string(),
            _ => toml_quote(&value_text(d, v, r)),
        };
        push(d.sec, Some(format!("{} = {}", kebab(d.name), lit)));
    }
    let mut s = String::new();
    for (sec, lines) in secs {
        s.push_str(&format!("[{}]\n", kebab(&sec)));
        for l in lines { s.push_str(&l); s.push('\n'); }
        s.push('\n');
    }
    s
}

pub fn render_argv(c: &Case, r: &mut Rng) -> Vec<String> {
    let mut argv = vec!["trip".to_string()];
    let ntargets = c.cli_get("targets").map_or(1, V::int).max(1);
    for i in 0..ntargets { argv.push(if i == 0 { "example.com".to_string() } else { format!("h{i}.example.com") }); }
    let mut theme: Vec<String> = vec![];
    let mut binds: Vec<String> = vec![];
    for (k, v) in &c.cli {
        if k == "targets" { continue; }
        if let Some(i) = k.strip_prefix("theme.") {
            let i: usize = i.parse().unwrap();
            theme.push(format!("{}-color={}", kebab(THEME_FIELDS[i]), color_text(v.int(), r)));
            continue;
        }
        if let Some(i) = k.strip_prefix("bind.") {
            let i: usize = i.parse().unwrap();
            binds.push(format!("{}={}", kebab(BIND_FIELDS[i]), key_text(v.int(), r)));
            continue;
        }
        match k.as_str() {
            "udp" | "tcp" | "icmp" | "ipv4" | "ipv6" | "verbose" => {
                if v.int() != 0 {
                    let short = match k.as_str() { "ipv4" => Some("-4"), "ipv6" => Some("-6"), "verbose" => Some("-v"), _ => None };
                    argv.push(match short { Some(s) if r.chance(1, 2) => s.to_string(), _ => format!("--{k}") });
                }
                continue;
            }
            _ => {}
        }
        let Some(d) = opt_def(k) else { continue };
        let use_short = d.short.is_some() && r.chance(1, 3);
        let flag = if use_short { format!("-{}", d.short.unwrap()) } else { format!("--{}", kebab(d.name)) };
        if let K::Flag = d.k {
            if v.int() != 0 { argv.push(flag); }
            continue;
        }
        let text = value_text(d, v, r);
        if !use_short && !text.is_empty() && r.chance(1, 2) {
            argv.push(format!("{flag}={text}"));
        } else {
            argv.push(flag);
            argv.push(text);
        }
    }
    if !theme.is_empty() { argv.push("--tui-theme-colors".to_string()); argv.push(theme.join(",")); }
    if !binds.is_empty() { argv.push("--tui-key-bindings".to_string()); argv.push(binds.join(",")); }
    argv
}

// ------------------------------------------------------------------ canonical text of the effective configuration
fn opt_tok<T>(o: Option<T>, f: impl Fn(T) -> String) -> String { o.map_or("none".to_string(), f) }
fn portdir_tok(p: PortDirection) -> String {
    match p {
        PortDirection::None => "N".to_string(),
        PortDirection::FixedSrc(s) => format!("S{}", s.0),
        PortDirection::FixedDest(d) => format!("D{}", d.0),
        PortDirection::FixedBoth(s, d) => format!("B{}:{}", s.0, d.0),
    }
}
fn idx(names: &[&str], debug: &str) -> String {
    names.iter().position(|n| n.eq_ignore_ascii_case(debug)).map_or(format!("?{debug}"), |i| i.to_string())
}
fn addr_tok(a: IpAddr) -> String {
    match a { IpAddr::V4(a) => hex(&a.octets()), IpAddr::V6(a) => hex(&a.octets()) }
}

/// the Builder call of app.rs `start_tracer` (replicated: that function is private and spawns a thread)
/// The verdict of the real `Builder::build` on the effective configuration, through the REAL `start_tracer` of app.rs (hook: the
/// tracer is built, not spawned), and - when it is accepted - every setting of the tracer that was built compared with the effective
/// configuration it was built from.  -> ("ok" | "bad" | ..., names of the settings that differ or "-")
pub fn start_tracer_verdict(cfg: &TrippyConfig, target: IpAddr, trace_identifier: u16) -> (String, String) {
    let r = std::panic::catch_unwind(std::panic::AssertUnwindSafe(|| tv::start_tracer_unspawned(cfg, "host.example", target, trace_identifier)));
    match r {
        Err(_) => ("fault:panic".to_string(), "-".to_string()),
        Ok(Err(e)) => match e.downcast_ref::<trippy_core::Error>() {
            Some(trippy_core::Error::BadConfig(_)) => ("bad".to_string(), "-".to_string()),
            _ => (format!("err:{e}").replace(' ', "_"), "-".to_string()),
        },
        Ok(Ok(info)) => {
            let t = &info.data;
            let mut d: Vec<&str> = vec![];
            let src = cfg.source_addr.unwrap_or(if target.is_ipv4() { IpAddr::from([192, 0, 2, 1]) } else { "2001:db8::1".parse().unwrap() });
            let c = t.verif_channel_config(src);
            if c.privilege_mode != cfg.privilege_mode { d.push("unprivileged"); }
            if c.protocol != cfg.protocol { d.push("protocol"); }
            if c.target_addr != target { d.push("target"); }
            if c.packet_size.0 != cfg.packet_size { d.push("packet_size"); }
            if c.payload_pattern.0 != cfg.payload_pattern { d.push("payload_pattern"); }
            if c.initial_sequence.0 != cfg.initial_sequence { d.push("initial_sequence"); }
            if c.tos.0 != cfg.tos { d.push("tos"); }
            if c.icmp_extension_parse_mode != cfg.icmp_extension_parse_mode { d.push("icmp_extensions"); }
            if c.read_timeout != cfg.read_timeout { d.push("read_timeout"); }
            // (app.rs gives the TCP connect timeout the minimum round duration)
            if c.tcp_connect_timeout != cfg.min_round_duration { d.push("tcp_connect_timeout"); }
            let k = t.verif_strategy_config();
            if k.target_addr != target { d.push("target"); }
            if k.protocol != cfg.protocol { d.push("protocol"); }
            if k.trace_identifier.0 != trace_identifier { d.push("trace_identifier"); }
            if k.max_rounds.map(|n| n.0.get()) != cfg.max_rounds { d.push("max_rounds"); }
            if k.first_ttl.0 != cfg.first_ttl { d.push("first_ttl"); }
            if k.max_ttl.0 != cfg.max_ttl { d.push("max_ttl"); }
            if k.grace_duration != cfg.grace_duration { d.push("grace_duration"); }
            if k.max_inflight.0 != cfg.max_inflight { d.push("max_inflight"); }
            if k.initial_sequence.0 != cfg.initial_sequence { d.push("initial_sequence"); }
            if k.multipath_strategy != cfg.multipath_strategy { d.push("multipath_strategy"); }
            if k.port_direction != cfg.port_direction { d.push("port_direction"); }
            if k.min_round_duration != cfg.min_round_duration { d.push("min_round_duration"); }
            if k.max_round_duration != cfg.max_round_duration { d.push("max_round_duration"); }
            let st = t.snapshot();
            if st.max_samples() != cfg.max_samples { d.push("max_samples"); }
            if st.max_flows() != cfg.max_flows() { d.push("max_flows"); }
            if info.target_hostname != "host.example" { d.push("target_hostname"); }
            d.dedup();
            ("ok".to_string(), if d.is_empty() { "-".to_string() } else { d.join(",") })
        }
    }
}

pub fn config_fields(c: &TrippyConfig, pid: u16) -> Vec<(&'static str, String)> {
    let t = &c.tui_theme;
    let theme = [
        t.bg, t.border, t.text, t.tab_text, t.hops_table_header_bg, t.hops_table_header_text, t.hops_table_row_active_text,
        t.hops_table_row_inactive_text, t.hops_chart_selected, t.hops_chart_unselected, t.hops_chart_axis, t.frequency_chart_bar,
        t.frequency_chart_text, t.flows_chart_bar_selected, t.flows_chart_bar_unselected, t.flows_chart_text_current,
        t.flows_chart_text_non_current, t.samples_chart, t.samples_chart_lost, t.help_dialog_bg, t.help_dialog_text,
        t.settings_dialog_bg, t.settings_tab_text, t.settings_table_header_text, t.settings_table_header_bg,
        t.settings_table_row_text, t.map_world, t.map_radius, t.map_selected, t.map_info_panel_border, t.map_info_panel_bg,
        t.map_info_panel_text, t.info_bar_bg, t.info_bar_text,
    ];
    let b = &c.tui_bindings;
    let binds = [
        b.toggle_help, b.toggle_help_alt, b.toggle_settings, b.toggle_settings_tui, b.toggle_settings_trace, b.toggle_settings_dns,
        b.toggle_settings_geoip, b.toggle_settings_bindings, b.toggle_settings_theme, b.toggle_settings_columns, b.previous_hop,
        b.next_hop, b.previous_trace, b.next_trace, b.previous_hop_address, b.next_hop_address, b.address_mode_ip,
        b.address_mode_host, b.address_mode_both, b.toggle_freeze, b.toggle_chart, b.toggle_map, b.toggle_flows, b.expand_privacy,
        b.contract_privacy, b.expand_hosts, b.contract_hosts, b.expand_hosts_max, b.contract_hosts_min, b.chart_zoom_in,
        b.chart_zoom_out, b.clear_trace_data, b.clear_dns_cache, b.clear_selection, b.toggle_as_info, b.toggle_hop_details, b.quit,
        b.quit_preserve_screen,
    ];
    let s = |x: &String| hex(x.as_bytes());
    let ns = |d: std::time::Duration| d.as_nanos().to_string();
    vec![
        ("targets", c.targets.len().to_string()),
        ("protocol", match c.protocol { Protocol::Icmp => "0", Protocol::Udp => "1", Protocol::Tcp => "2" }.to_string()),
        ("addr_family", idx(&["Ipv4Only", "Ipv6Only", "Ipv6thenIpv4", "Ipv4thenIpv6", "System"], &format!("{:?}", c.addr_family))),
        ("first_ttl", c.first_ttl.to_string()),
        ("max_ttl", c.max_ttl.to_string()),
        ("min_round_duration", ns(c.min_round_duration)),
        ("max_round_duration", ns(c.max_round_duration)),
        ("grace_duration", ns(c.grace_duration)),
        ("max_inflight", c.max_inflight.to_string()),
        ("initial_sequence", c.initial_sequence.to_string()),
        ("tos", c.tos.to_string()),
        ("icmp_extensions", idx(&["Disabled", "Enabled"], &format!("{:?}", c.icmp_extension_parse_mode))),
        ("read_timeout", ns(c.read_timeout)),
        ("packet_size", c.packet_size.to_string()),
        ("payload_pattern", c.payload_pattern.to_string()),
        ("source_address", opt_tok(c.source_addr, addr_tok)),
        ("interface", opt_tok(c.interface.as_ref(), s)),
        ("multipath_strategy", match c.multipath_strategy { MultipathStrategy::Classic => "0", MultipathStrategy::Paris => "1", MultipathStrategy::Dublin => "2" }.to_string()),
        ("port_direction", portdir_tok(c.port_direction)),
        ("dns_timeout", ns(c.dns_timeout)),
        ("dns_ttl", ns(c.dns_ttl)),
        ("dns_resolve_method", idx(&["System", "Resolv", "Google", "Cloudflare"], &format!("{:?}", c.dns_resolve_method))),
        ("dns_lookup_as_info", u8::from(c.dns_lookup_as_info).to_string()),
        ("max_samples", c.max_samples.to_string()),
        ("max_flows", c.max_flows.to_string()),
        ("tui_preserve_screen", u8::from(c.tui_preserve_screen).to_string()),
        ("tui_refresh_rate", ns(c.tui_refresh_rate)),
        ("tui_privacy_max_ttl", opt_tok(c.tui_privacy_max_ttl, |x| x.to_string())),
        ("tui_address_mode", (c.tui_address_mode as usize).to_string()),
        ("tui_as_mode", (c.tui_as_mode as usize).to_string()),
        ("tui_custom_columns", hex(c.tui_custom_columns.0.iter().map(ToString::to_string).collect::<String>().as_bytes())),
        ("tui_icmp_extension_mode", (c.tui_icmp_extension_mode as usize).to_string()),
        ("tui_geoip_mode", (c.tui_geoip_mode as usize).to_string()),
        ("tui_max_addrs", opt_tok(c.tui_max_addrs, |x| x.to_string())),
        ("tui_locale", opt_tok(c.tui_locale.as_ref(), s)),
        ("tui_timezone", opt_tok(c.tui_timezone, |z| hex(z.name().as_bytes()))),
        ("theme", theme.iter().map(|x| color_id(x).to_string()).collect::<Vec<_>>().join(",")),
        ("bindings", binds.iter().map(|x| key_id(x).to_string()).collect::<Vec<_>>().join(",")),
        ("mode", (c.mode as usize).to_string()),
        ("unprivileged", idx(&["Privileged", "Unprivileged"], &format!("{:?}", c.privilege_mode))),
        ("dns_resolve_all", u8::from(c.dns_resolve_all).to_string()),
        ("report_cycles", c.report_cycles.to_string()),
        ("geoip_mmdb_file", opt_tok(c.geoip_mmdb_file.as_ref(), s)),
        ("max_rounds", opt_tok(c.max_rounds, |x| x.to_string())),
        ("verbose", u8::from(c.verbose).to_string()),
        ("log_format", (c.log_format as usize).to_string()),
        ("log_filter", s(&c.log_filter)),
        ("log_span_events", (c.log_span_events as usize).to_string()),
        ("max_flows_eff", c.max_flows().to_string()),
        ("builder", start_tracer_verdict(c, IpAddr::from([10, 0, 0, 1]), pid).0),
    ]
}

/// The configuration the frontend runs with (app.rs make_tui_config, through the hook) against the effective
/// configuration it is derived from, field by field: the names of the fields that differ ("-" when none).
pub fn tui_config_diff(c: &TrippyConfig) -> String {
    use trippy_tui::verif_frontend::{Bindings, Columns, Theme};
    let locale = "xx-test".to_string();
    let t = match std::panic::catch_unwind(std::panic::AssertUnwindSafe(|| tv::make_tui_config(c, locale.clone()))) { Ok(t) => t, Err(_) => return "panic".to_string() };
    let mut d: Vec<&str> = vec![];
    if t.refresh_rate != c.tui_refresh_rate { d.push("tui_refresh_rate"); }
    if t.privacy_max_ttl != c.tui_privacy_max_ttl { d.push("tui_privacy_max_ttl"); }
    if t.preserve_screen != c.tui_preserve_screen { d.push("tui_preserve_screen"); }
    if t.address_mode as usize != c.tui_address_mode as usize { d.push("tui_address_mode"); }
    if t.lookup_as_info != c.dns_lookup_as_info { d.push("dns_lookup_as_info"); }
    if t.as_mode as usize != c.tui_as_mode as usize { d.push("tui_as_mode"); }
    if t.icmp_extension_mode as usize != c.tui_icmp_extension_mode as usize { d.push("tui_icmp_extension_mode"); }
    if t.geoip_mode as usize != c.tui_geoip_mode as usize { d.push("tui_geoip_mode"); }
    if t.max_addrs != c.tui_max_addrs { d.push("tui_max_addrs"); }
    if t.geoip_mmdb_file != c.geoip_mmdb_file { d.push("geoip_mmdb_file"); }
    if t.dns_resolve_all != c.dns_resolve_all { d.push("dns_resolve_all"); }
    if t.locale != locale { d.push("locale"); }
    if t.timezone != c.tui_timezone { d.push("tui_timezone"); }
    if format!("{:?}", t.theme) != format!("{:?}", Theme::from(c.tui_theme)) { d.push("tui_theme"); }
    if format!("{:?}", t.bindings) != format!("{:?}", Bindings::from(c.tui_bindings)) { d.push("tui_bindings"); }
    if format!("{:?}", t.tui_columns) != format!("{:?}", Columns::from(c.tui_custom_columns.clone())) { d.push("tui_custom_columns"); }
    if d.is_empty() { "-".to_string() } else { d.join(",") }
}

/// which `Err(anyhow!(..))` site of build_config produced this message
pub fn classify_error(msg: &str) -> String {
    let table: &[(&str, &str)] = &[
        ("is deprecated", "deprecated"),
        ("unknown column code", "column_code"),
        ("must be >= 1024", "source_port"),
        ("only one of source-port and target-port", "ports"),
        ("privileges are required", "privilege"),
        ("unprivileged mode not supported", "privilege"),
        ("cannot enable verbose logging", "logging"),
        ("tracing strategy cannot be used in unprivileged mode", "strategy"),
        ("multipath strategy not", "protocol_strategy"),
        ("only a single target may be specified", "multi"),
        ("this mode requires the paris or dublin", "flows"),
        ("first-ttl (", "ttl"),
        ("max-ttl (", "ttl"),
        ("max-inflight (", "max_inflight"),
        ("read-timeout (", "read_timeout"),
        ("max-round-duration (", "round_duration"),
        ("grace-duration (", "grace_duration"),
        ("packet-size (", "packet_size"),
        ("tui-refresh-rate (", "refresh_rate"),
        ("report-cycles (", "report_cycles"),
        ("AS lookup not supported", "dns"),
        ("geoip-mmdb-file must be given", "geoip"),
        ("Missing or no custom columns", "custom_columns"),
        ("Duplicate custom columns", "custom_columns"),
        ("Duplicate key bindings", "bindings"),
        ("failed to parse timezone", "timezone"),
        ("is not a valid timezone", "timezone"),
    ];
    for (pat, kind) in table {
        if msg.contains(pat) { return (*kind).to_string(); }
    }
    format!("unknown:{}", msg.replace([' ', '\n'], "_"))
}

// ------------------------------------------------------------------ running a case
pub struct Ran {
    pub output: String,
    pub fields: Option<Vec<(&'static str, String)>>,
    /// the rendered inputs and the raw error text (printed as `#detail` lines in replay mode)
    pub detail: String,
}

fn case_hash(s: &str) -> u64 {
    let mut h = 0xcbf2_9ce4_8422_2325u64;
    for b in s.bytes() { h = (h ^ u64::from(b)).wrapping_mul(0x0100_0000_01b3); }
    h
}

pub fn run_case(c: &Case) -> Ran {
    let mut r = Rng::new(case_hash(&c.render()));
    let argv = render_argv(c, &mut r);
    let file_text = match &c.file { FileSpec::Default => None, FileSpec::Entries(e) => Some(render_toml(e, &mut r)) };
    let res = std::panic::catch_unwind(|| -> Result<TrippyConfig, String> {
        let args = tv::parse_args(&argv).map_err(|e| format!("parse:args:{e}"))?;
        let cfg_file = match &file_text {
            None => tv::ConfigFile::default(),
            Some(t) => tv::parse_config_file(t).map_err(|e| format!("parse:file:{e}"))?,
        };
        let privilege = tv::Privilege::new(c.has, c.needs);
        tv::build_config(args, cfg_file, &privilege, c.pid)
    });
    let inputs = format!("argv={argv:?} file={:?}", file_text);
    match res {
        Err(_) => Ran { output: "fault:panic".to_string(), fields: None, detail: inputs },
        Ok(Err(e)) if e.starts_with("parse:") => Ran { output: "err:parse".to_string(), fields: None, detail: format!("{inputs} error={e:?}") },
        Ok(Err(e)) => Ran { output: format!("err:{}", classify_error(&e)), fields: None, detail: format!("{inputs} error={e:?}") },
        Ok(Ok(cfg)) => {
            let mut f = config_fields(&cfg, c.pid);
            let out = format!("ok {}", f.iter().map(|(k, v)| format!("{k}={v}")).collect::<Vec<_>>().join(" "));
            // (not printed, so the model line is unchanged: judged by the oracle only)
            f.push(("tui_config_diff", tui_config_diff(&cfg)));
            f.push(("tracer_diff", start_tracer_verdict(&cfg, IpAddr::from([10, 0, 0, 1]), c.pid).1));
            Ran { output: out, fields: Some(f), detail: inputs }
        }
    }
}

// ------------------------------------------------------------------ the model-free oracle
/// The precedence rule evaluated directly on the recorded maps: command line, else file, else documented default.
pub fn oracle(c: &Case, ran: &Ran) -> String {
    let Some(fields) = &ran.fields else {
        if ran.output.starts_with("fault") { return "FAIL:C16:build_config_panicked".to_string(); }
        // nothing given at all and sufficient privileges: the documented defaults must be accepted
        let no_file = match &c.file { FileSpec::Default => true, FileSpec::Entries(e) => e.is_empty() };
        let nothing = c.cli.is_empty() && no_file;
        if nothing && c.has { return "FAIL:C16:the_documented_defaults_are_rejected".to_string(); }
        return "ok".to_string();
    };
    let actual: BTreeMap<&str, &String> = fields.iter().map(|(k, v)| (*k, v)).collect();
    let fails: std::cell::RefCell<Vec<String>> = std::cell::RefCell::new(vec![]);
    let layered = |name: &str, dflt: &str| -> String {
        let d = opt_def(name).unwrap();
        if let K::Flag = d.k {
            // a flag on the command line can only say "true"
            if c.cli_get(name).is_some_and(|v| v.int() != 0) { return "1".to_string(); }
        } else if let Some(v) = c.cli_get(name) { return v.tok(); }
        if let Some(v) = c.file_get(name) { return v.tok(); }
        dflt.to_string()
    };
    let expect = |field: &str, want: String| {
        if let Some(got) = actual.get(field) {
            if **got != want { fails.borrow_mut().push(format!("{field}:expected_{want}_got_{got}")); }
        }
    };
    for d in OPTS {
        let want = layered(d.name, d.doc_default);
        match d.name {
            "protocol" | "addr_family" | "target_port" | "source_port" | "tui_max_addrs" => {}
            _ => expect(d.name, want),
        }
    }
    let flag = |k: &str| c.cli_get(k).is_some_and(|v| v.int() != 0);
    // shortcut flags count as "given on the command line"
    let proto = if flag("udp") { "1".to_string() } else if flag("tcp") { "2".to_string() } else if flag("icmp") { "0".to_string() } else { layered("protocol", "0") };
    expect("protocol", proto.clone());
    let fam = if flag("ipv4") { "0".to_string() } else if flag("ipv6") { "1".to_string() } else { layered("addr_family", "3") };
    expect("addr_family", fam);
    // port direction from the effective source / target port
    let (src, dst, strat) = (layered("source_port", "none"), layered("target_port", "none"), layered("multipath_strategy", "0"));
    let pd = match (proto.as_str(), src.as_str(), dst.as_str()) {
        ("0", _, _) => "N".to_string(),
        ("1", "none", "none") => format!("S{}", c.pid.max(1024)),
        ("2", "none", "none") => "D80".to_string(),
        (_, s, "none") => format!("S{s}"),
        (_, "none", d) => format!("D{d}"),
        (_, s, d) => format!("B{s}:{d}"),
    };
    expect("port_direction", pd.clone());
    if pd.starts_with('B') && !(proto == "1" && strat != "0") { fails.borrow_mut().push("both_ports_fixed_accepted_outside_udp_paris_dublin".to_string()); }
    let ma = layered("tui_max_addrs", "none");
    expect("tui_max_addrs", if ma == "0" { "none".to_string() } else { ma });
    let mode = layered("mode", "0");
    expect("max_rounds", if mode == "0" || mode == "1" { "none".to_string() } else { layered("report_cycles", "10") });
    expect("max_flows_eff", if strat == "0" { "1".to_string() } else { layered("max_flows", "64") });
    expect("verbose", u8::from(flag("verbose")).to_string());
    expect("targets", c.cli_get("targets").map_or(1, V::int).max(1).to_string());
    // theme colours and key bindings, item by item
    let items = |prefix: &str, n: usize, dflt: &dyn Fn(usize) -> u64| -> String {
        (0..n).map(|i| {
            let k = format!("{prefix}.{i}");
            c.cli_get(&k).or_else(|| c.file_get(&k)).map_or_else(|| dflt(i), V::int).to_string()
        }).collect::<Vec<_>>().join(",")
    };
    expect("theme", items("theme", 34, &|i| color_id_of_name(THEME_DOC_DEFAULT[i])));
    expect("bindings", items("bind", 38, &|i| key_id_of_text(BIND_DOC_DEFAULT[i])));
    // the frontend runs with exactly these values (app.rs make_tui_config)
    if let Some(dv) = actual.get("tui_config_diff") {
        if dv.as_str() != "-" { for k in dv.split(',') { fails.borrow_mut().push(format!("{k}:value_in_force_in_the_frontend_differs_from_the_effective_configuration")); } }
    }
    // the tracer app.rs start_tracer builds runs with exactly these values
    if let Some(dv) = actual.get("tracer_diff") {
        if dv.as_str() != "-" { for k in dv.split(',') { fails.borrow_mut().push(format!("{k}:value_in_force_in_the_tracer_differs_from_the_effective_configuration")); } }
    }
    // an accepted configuration must be accepted by the builder too, or refused by it with a configuration error
    if let Some(b) = actual.get("builder") {
        if b.as_str() != "ok" && b.as_str() != "bad" { fails.borrow_mut().push(format!("builder_{b}")); }
    }
    let fails = fails.into_inner();
    if fails.is_empty() { "ok".to_string() } else {
        // the privacy level the user asked for is what C18 starts from: a lost or altered level is also a C18 failure
        let privacy: Vec<String> = fails.iter().filter(|m| m.starts_with("tui_privacy_max_ttl:")).map(|m| format!("C18:requested_privacy_level_not_in_force:{m}")).collect();
        let mut out = format!("FAIL:C16:{}", fails.join(";C16:"));
        for m in privacy { out.push(';'); out.push_str(&m); }
        out
    }
}

// ------------------------------------------------------------------ generation
fn to_value(d: &OptDef, s: &str) -> V {
    match d.k {
        K::Str => V::S(s.to_string()),
        K::Addr => V::A(match s.parse::<IpAddr>().unwrap() { IpAddr::V4(a) => a.octets().to_vec(), IpAddr::V6(a) => a.octets().to_vec() }),
        K::Dur => V::I(s.parse::<u64>().unwrap() * MS),
        _ => V::I(s.parse().unwrap()),
    }
}
fn gen_value(d: &OptDef, r: &mut Rng, p_good: u64) -> V {
    let pool = if d.edge.is_empty() || r.chance(p_good, 100) { d.good } else { d.edge };
    to_value(d, *r.pick(pool))
}
fn gen_value_ne(d: &OptDef, r: &mut Rng, p_good: u64, other: &V) -> V {
    for _ in 0..20 {
        let v = gen_value(d, r, p_good);
        if v != *other { return v; }
    }
    gen_value(d, r, 0)
}
const COLOR_POOL: &[u64] = &[0, 1, 2, 3, 4, 7, 8, 15, 16, 60, 100, 142, 1_000_000, 1_000_000 + 0x00ff_00, 1_000_000 + 0xa1_b2c3, 1_000_000 + 0xff_ffff];
fn gen_color(r: &mut Rng) -> V { V::I(if r.chance(1, 4) { r.below(143) } else { *r.pick(COLOR_POOL) }) }
fn gen_key(r: &mut Rng, p_fresh: u64) -> V {
    if r.chance(p_fresh, 100) {
        // keys no default binding uses: alt / super / hyper / meta + letter, or function-less special keys
        let m = *r.pick(&[4u64, 8, 16, 32, 4 | 1, 2 | 4]);
        let code = if r.chance(1, 5) { 2_097_152 + *r.pick(&[0u64, 1, 6, 7, 8, 9, 10, 11, 12, 13, 14]) } else { u64::from(b'a') + r.below(26) };
        V::I(code * 64 + m)
    } else {
        // collides with some default (or equals it)
        V::I(key_id_of_text(*r.pick(&BIND_DOC_DEFAULT[..])))
    }
}

#[derive(Clone, Copy, PartialEq, Debug)]
enum St { Absent, File, Cli, Both }

/// random entries for the options other than the subject
fn gen_others(r: &mut Rng, subject: &str, file: &mut Vec<(String, V)>, cli: &mut Vec<(String, V)>) -> u64 {
    let density = *r.pick(&[0u64, 0, 3, 3, 8, 25]);
    let p_good = *r.pick(&[100u64, 95, 95, 80]);
    for d in OPTS {
        if d.name == subject { continue; }
        if r.chance(density, 100) { file.push((d.name.to_string(), gen_value(d, r, p_good))); }
        if r.chance(density, 100) {
            let v = if let K::Flag = d.k { V::I(1) } else { gen_value(d, r, p_good) };
            cli.push((d.name.to_string(), v));
        }
    }
    if density > 0 {
        for i in 0..34 {
            let k = format!("theme.{i}");
            if k == subject { continue; }
            if r.chance(density, 200) { file.push((k.clone(), gen_color(r))); }
            if r.chance(density, 200) { cli.push((k, gen_color(r))); }
        }
        for i in 0..38 {
            let k = format!("bind.{i}");
            if k == subject { continue; }
            if r.chance(density, 300) { file.push((k.clone(), gen_key(r, 97))); }
            if r.chance(density, 300) { cli.push((k, gen_key(r, 97))); }
        }
        for s in SECTIONS { if r.chance(4, 100) { file.push((format!("sec.{s}"), V::I(1))); } }
        if r.chance(1, 100) { file.push((r.pick(&["tui_max_samples", "tui_max_flows"]).to_string(), V::I(10))); }
        if r.chance(1, 200) { file.push(("toggle_privacy".to_string(), V::I(key_id_of_text("p")))); }
        for k in ["udp", "tcp", "icmp", "ipv4", "ipv6"] {
            if k != subject && !["protocol", "addr_family"].contains(&subject) && r.chance(density, 400) { cli.push((k.to_string(), V::I(1))); }
        }
        if r.chance(3, 100) { cli.push(("verbose".to_string(), V::I(1))); }
        if r.chance(4, 100) { cli.push(("targets".to_string(), V::I(2 + r.below(2)))); }
    }
    density
}

fn shuffle<T>(v: &mut [T], r: &mut Rng) {
    for i in (1..v.len()).rev() { v.swap(i, r.below(i as u64 + 1) as usize); }
}

fn gen_case(r: &mut Rng, subject: &str, st: St) -> Case {
    let mut file: Vec<(String, V)> = vec![];
    let mut cli: Vec<(String, V)> = vec![];
    gen_others(r, subject, &mut file, &mut cli);
    let in_file = st == St::File || st == St::Both;
    let in_cli = st == St::Cli || st == St::Both;
    if let Some(d) = opt_def(subject) {
        let fv = gen_value(d, r, 85);
        if in_file { file.push((subject.to_string(), fv.clone())); }
        if in_cli {
            let cv = if let K::Flag = d.k { V::I(1) } else if in_file { gen_value_ne(d, r, 85, &fv) } else { gen_value(d, r, 85) };
            cli.push((subject.to_string(), cv));
        }
    } else if subject.starts_with("theme.") {
        let fv = gen_color(r);
        if in_file { file.push((subject.to_string(), fv.clone())); }
        if in_cli { let mut cv = gen_color(r); while in_file && cv == fv { cv = gen_color(r); } cli.push((subject.to_string(), cv)); }
    } else if subject.starts_with("bind.") {
        let fv = gen_key(r, 90);
        if in_file { file.push((subject.to_string(), fv.clone())); }
        if in_cli { let mut cv = gen_key(r, 90); while in_file && cv == fv { cv = gen_key(r, 100); } cli.push((subject.to_string(), cv)); }
    } else {
        // shortcut flags: the file state sets the option the shortcut overrides
        let (opt, own) = match subject { "udp" => ("protocol", 1), "tcp" => ("protocol", 2), "icmp" => ("protocol", 0), "ipv4" => ("addr_family", 0), _ => ("addr_family", 1) };
        let d = opt_def(opt).unwrap();
        if in_file { file.push((opt.to_string(), gen_value_ne(d, r, 100, &V::I(own)))); }
        if in_cli { cli.push((subject.to_string(), V::I(1))); }
    }
    // a key appears once per layer (TOML and clap both refuse repeated keys): the last entry wins
    let dedup = |v: &mut Vec<(String, V)>| { let mut i = 0; while i < v.len() { if v[i + 1..].iter().any(|(k, _)| *k == v[i].0) { v.remove(i); } else { i += 1; } } };
    dedup(&mut file);
    dedup(&mut cli);
    // ',' separates the items of --tui-key-bindings
    for (k, v) in cli.iter_mut() { if k.starts_with("bind.") && v.int() / 64 == u64::from(b',') { *v = V::I(u64::from(b';') * 64 + v.int() % 64); } }
    shuffle(&mut file, r);
    shuffle(&mut cli, r);
    let (has, needs) = *r.pick(&[(true, false), (true, false), (true, false), (true, false), (true, false), (true, false), (true, false), (true, false), (true, true), (true, true), (false, false), (false, true)]);
    let pid = *r.pick(&[0u16, 1, 1023, 1024, 1025, 5000, 40000, 65535]);
    let file = if file.is_empty() && r.chance(1, 2) { FileSpec::Default } else { FileSpec::Entries(file) };
    Case { has, needs, pid, file, cli }
}

pub fn subjects() -> Vec<String> {
    let mut s: Vec<String> = OPTS.iter().map(|d| d.name.to_string()).collect();
    s.extend(["udp", "tcp", "icmp", "ipv4", "ipv6"].iter().map(ToString::to_string));
    s.extend((0..34).map(|i| format!("theme.{i}")));
    s.extend((0..38).map(|i| format!("bind.{i}")));
    s
}

/// Which file is layered under the command line: the real `TrippyConfig::from` over real files.  Every combination of the
/// eight default locations (trippy.toml / .trippy.toml in the current directory, the home directory, the configuration directory
/// and its trippy/ subdirectory) holding a file or not, with and without a file named with -c; every file sets a different
/// max-ttl, so the effective value names the file that was used.  `c16loc <named> <bits>` => `src=<k>`: 0 = the named file,
/// i+1 = default location i, 9 = none (built-in default 64).
fn loc_cases(out: &mut Out, only: Option<&[String]>) {
    let root = std::env::temp_dir().join(format!("tv-c16loc-{}", std::process::id()));
    let (cwd, home, xdg) = (root.join("cwd"), root.join("home"), root.join("xdg"));
    for d in [&cwd, &home, &xdg, &xdg.join("trippy")] { let _ = std::fs::create_dir_all(d); }
    let old_cwd = std::env::current_dir().ok();
    let old_env: Vec<(&str, Option<std::ffi::OsString>)> = ["HOME", "XDG_CONFIG_HOME"].iter().map(|k| (*k, std::env::var_os(k))).collect();
    std::env::set_var("HOME", &home);
    std::env::set_var("XDG_CONFIG_HOME", &xdg);
    let _ = std::env::set_current_dir(&cwd);
    let locs: Vec<std::path::PathBuf> = [&cwd, &home, &xdg, &xdg.join("trippy")].iter()
        .flat_map(|d| [d.join("trippy.toml"), d.join(".trippy.toml")]).collect();
    let named = root.join("named.toml");
    let _ = std::fs::write(&named, "[strategy]\nmax-ttl = 30\nmax-inflight = 7\n");
    let mut n = 0usize;
    for with_named in [false, true] {
        for bits in 0..256usize {
            let bitstr: String = (0..8).map(|i| if bits >> i & 1 == 1 { '1' } else { '0' }).collect();
            let input = format!("c16loc {} {}", u8::from(with_named), bitstr);
            if only.is_some_and(|o| !o.contains(&input)) { continue; }
            for (i, p) in locs.iter().enumerate() {
                if bits >> i & 1 == 1 { let _ = std::fs::write(p, format!("[strategy]\nmax-ttl = {}\nfirst-ttl = 2\n", 40 + i)); } else { let _ = std::fs::remove_file(p); }
            }
            let mut argv: Vec<String> = vec!["trip".into(), "example.com".into()];
            if with_named { argv.push("-c".into()); argv.push(named.to_string_lossy().into_owned()); }
            let res = std::panic::catch_unwind(|| -> Result<u8, String> {
                let a = tv::parse_args(&argv)?;
                TrippyConfig::from(a, &tv::Privilege::new(true, false), 4242).map(|c| c.max_ttl).map_err(|e| format!("{e:#}"))
            });
            let expect = if with_named { 0 } else { (0..8).find(|i| bits >> i & 1 == 1).map_or(9, |i| i + 1) };
            let (output, oracle) = match res {
                Err(_) => ("fault:panic".to_string(), "FAIL:C16:reading_the_configuration_file_panicked".to_string()),
                Ok(Err(e)) => ("err".to_string(), format!("FAIL:C16:configuration_refused:{}", e.replace(' ', "_"))),
                Ok(Ok(m)) => {
                    let k = match m { 30 => 0usize, 64 => 9, x if (40..48).contains(&x) => usize::from(x) - 39, _ => 99 };
                    (format!("src={k}"), if k == expect { "ok".to_string() } else { format!("FAIL:C16:values_taken_from_source_{k}_expected_{expect}_(0=the_file_named_with_-c,i=default_location_i,9=none)") })
                }
            };
            out.case(&input, &output, &oracle);
            n += 1;
        }
    }
    if let Some(d) = old_cwd { let _ = std::env::set_current_dir(d); }
    for (k, v) in old_env { match v { Some(v) => std::env::set_var(k, v), None => std::env::remove_var(k) } }
    let _ = std::fs::remove_dir_all(&root);
    out.stat("file_location_cases", n);
}

pub fn run(args: &Args, out: &mut Out) {
    let mut stats: BTreeMap<String, u64> = BTreeMap::new();
    let emit = |c: &Case, out: &mut Out, stats: &mut BTreeMap<String, u64>| {
        let ran = run_case(c);
        let orc = oracle(c, &ran);
        let key = ran.output.split(' ').next().unwrap().to_string();
        *stats.entry(format!("result.{key}")).or_insert(0) += 1;
        if let Some(f) = &ran.fields {
            let b = f.iter().find(|(k, _)| *k == "builder").map_or("?", |(_, v)| v.as_str());
            *stats.entry(format!("builder.{b}")).or_insert(0) += 1;
        }
        out.case(&c.render(), &ran.output, &orc);
        if args.replay.is_some() { out.stat("detail", ran.detail.replace('\n', "\\n")); }
    };
    if let Some(path) = &args.replay {
        let lines = crate::replay_inputs(path);
        let loc: Vec<String> = lines.iter().filter(|l| l.starts_with("c16loc ")).cloned().collect();
        if !loc.is_empty() { loc_cases(out, Some(&loc)); }
        for l in lines {
            if l.starts_with("c16loc ") { continue; }
            if let Some(c) = Case::parse(&l) { emit(&c, out, &mut stats); }
        }
        return;
    }
    loc_cases(out, None);
    let mut rng = Rng::new(args.seed ^ 0xC16);
    let samples = args.n.unwrap_or(if args.tier_thorough { 300 } else { 20 });
    // the empty configuration in both file forms and all privilege combinations
    for file in [FileSpec::Default, FileSpec::Entries(vec![])] {
        for (has, needs) in [(true, false), (true, true), (false, false), (false, true)] {
            emit(&Case { has, needs, pid: 4242, file: file.clone(), cli: vec![] }, out, &mut stats);
        }
    }
    let subs = subjects();
    for s in &subs {
        for st in [St::Absent, St::File, St::Cli, St::Both] {
            for _ in 0..samples {
                let c = gen_case(&mut rng, s, st);
                emit(&c, out, &mut stats);
            }
        }
    }
    out.stat("subjects", subs.len());
    out.stat("samples_per_subject_and_state", samples);
    for (k, v) in &stats { out.stat(k, v); }
}
