//! C17: the terminal UI never crashes; every selection refers to an existing entry.
//!
//! One case = one scenario: a world of tracers, an initial TUI configuration and a list of ops
//! (data changes, TuiApp method calls, key events through the dispatch table, frames on a
//! `TestBackend`).  Output = the selection state after every op (`=` when unchanged), `fault` at the
//! first panic.  The extracted model (Tui/App.v) replays the same op list on the recorded data shapes.
//! Oracle (model-free): no panic; after the first frame every selection index exists in the data the
//! app displays (`tuikit::selection_valid`), no frame contains the code's own "no addr for index"
//! message, every observed data shape satisfies the environment assumption `shape_wf`.
use crate::rng::Rng;
use crate::tuikit::*;
use trippy_tui::verif_frontend::{GeoIpMode, TuiApp};
use crate::{Args, Out};
use std::collections::BTreeSet;
use std::panic::{catch_unwind, AssertUnwindSafe};

#[derive(Clone)]
pub struct Case {
    pub max_flows: Vec<usize>,
    pub cols: Option<String>,
    pub privacy: Option<u8>,
    pub max_addrs: Option<u8>,
    pub ops: Vec<Op>,
}

fn opt_u8(x: Option<u8>) -> String {
    x.map_or("-".to_string(), |v| v.to_string())
}

pub struct Outcome {
    pub input: String,
    pub output: String,
    pub oracle: String,
    pub frames: usize,
    pub panicked: bool,
}

#[derive(Default)]
struct Progress {
    w0: Vec<String>,
    cols0: String,
    op_txt: Vec<String>,
    states: Vec<String>,
    fails: Vec<String>,
    frames: usize,
    panicked: bool,
    /// the op being executed and when it started (watchdog)
    current: Option<(usize, String, std::time::Instant)>,
    done: bool,
}

/// What a mode plugs into the scenario runner.
pub struct Hooks {
    /// the TUI configuration beyond what the case line carries
    pub setup: Box<dyn Fn(&Case) -> Setup + Send>,
    /// make `addr(id)` (or the source address, id = u32::MAX) known to the resolver / GeoIP lookup
    pub seed: Box<dyn Fn(&TuiApp, u32) + Send>,
    /// called after every successful frame with the screen text; returns oracle failures and, for C18,
    /// what is appended to the state of that frame
    pub per_frame: Box<dyn FnMut(&mut Sut, &str, usize) -> (Vec<String>, Option<String>) + Send>,
    /// C17: the full selection state after every op; C18: the privacy value (plus the frame classification)
    pub privacy_only: bool,
}

pub fn c17_hooks() -> Hooks {
    Hooks {
        setup: Box::new(|c| Setup {
            max_flows: c.max_flows.clone(),
            cols: c.cols.clone(),
            privacy: c.privacy,
            max_addrs: c.max_addrs,
            // every second case runs with a real (generated) MaxMind DB: the map, the hop details and the GeoIP columns then go
            // through the real reader and the lookup cache (most first octets are located, some have no coordinates, some are absent)
            geoip_db: if c.ops.len() % 2 == 0 {
                Some(crate::tuikit::first_octet_mmdb(&|v| match v % 4 {
                    0 => None,
                    1 => Some(crate::tuikit::GeoRec { city: Some(format!("City{v}")), country_code: Some("XX".to_string()), ..Default::default() }),
                    _ => Some(crate::tuikit::GeoRec { lat: Some(f64::from(v) / 2.0 - 60.0), long: Some(f64::from(v) - 120.0), radius: Some(u16::from(v)), city: Some(format!("City{v}")),
                        sub: Some("Region".to_string()), sub_code: Some("RG".to_string()), country: Some("Country".to_string()), country_code: Some("CC".to_string()), continent: Some("Continent".to_string()) }),
                }))
            } else { None },
            geoip_file: if c.ops.len() % 2 == 0 { Some("generated.mmdb".to_string()) } else { None },
            // cases that carry steps of the wall clock run with the default 300 s time-to-live of the DNS cache: entries seeded before
            // a forward step are stale at the next frame (the path that queues them again)
            dns_ttl_s: if c.ops.iter().any(|o| matches!(o, Op::Clock(_))) { 300 } else { 1 << 30 },
            // every third case traces IPv6 targets
            target_v6: c.ops.len() % 3 == 0,
            geoip_mode: if c.ops.len() % 2 == 0 { [GeoIpMode::Short, GeoIpMode::Long, GeoIpMode::Location, GeoIpMode::Off][c.ops.len() / 2 % 4] } else { GeoIpMode::Off },
            ..Setup::default()
        }),
        seed: Box::new(|app, id| {
            if id == u32::MAX {
                seed_not_found(app, std::net::IpAddr::V4(std::net::Ipv4Addr::new(192, 168, 77, 1)));
            } else {
                seed_not_found(app, addr(id));
            }
        }),
        per_frame: Box::new(|_, _, _| (vec![], None)),
        privacy_only: false,
    }
}

/// How long a single op (in practice: drawing one frame) may take before it is reported as a hang.
const OP_LIMIT_SECS: u64 = 8;

/// Run one scenario on the real code.  `per_frame` is called after every successful frame with the
/// app and the screen text (used by C18).  The scenario runs on its own thread under a watchdog: an
/// op that does not return within OP_LIMIT_SECS is reported (`fault:hang`, `FAIL:C17:hang…`) and the
/// thread is abandoned.
pub fn run_case(mode: &str, c: &Case, hooks: Hooks) -> Outcome {
    use std::sync::{mpsc, Arc, Mutex};
    let prog = Arc::new(Mutex::new(Progress::default()));
    let (tx, rx) = mpsc::channel::<()>();
    let (c2, p2) = (c.clone(), prog.clone());
    std::thread::Builder::new()
        .stack_size(32 << 20)
        .spawn(move || {
            worker(&c2, &p2, hooks);
            let _ = tx.send(());
        })
        .expect("spawn");
    loop {
        match rx.recv_timeout(std::time::Duration::from_millis(200)) {
            Ok(()) => break,
            Err(mpsc::RecvTimeoutError::Disconnected) => {
                let mut g = prog.lock().unwrap();
                if !g.done {
                    g.fails.push("C17:harness_thread_died".to_string());
                }
                break;
            }
            Err(mpsc::RecvTimeoutError::Timeout) => {
                let mut g = prog.lock().unwrap();
                if let Some((i, op, t0)) = g.current.clone() {
                    if t0.elapsed().as_secs() >= OP_LIMIT_SECS {
                        g.op_txt.push(op.clone());
                        g.states.push("fault:hang".to_string());
                        g.fails.push(format!("C17:hang@{i}:{op}:no_return_within_{OP_LIMIT_SECS}s"));
                        g.panicked = true;
                        g.current = None;
                        g.done = true; // the worker is abandoned; whatever it does later is ignored
                        break;
                    }
                }
            }
        }
    }
    let g = prog.lock().unwrap();
    let input = format!(
        "{mode} nt={} cs={} cols0={} p={} ma={} w0={} ops={}",
        c.max_flows.len(),
        c.cols.clone().unwrap_or_else(|| "-".to_string()),
        g.cols0,
        opt_u8(c.privacy),
        opt_u8(c.max_addrs),
        g.w0.join(","),
        if g.op_txt.is_empty() { "-".to_string() } else { g.op_txt.join(";") }
    );
    let mut fails = g.fails.clone();
    fails.truncate(4);
    Outcome {
        input,
        output: if g.states.is_empty() { "-".to_string() } else { g.states.join(";") },
        oracle: if fails.is_empty() { "ok".to_string() } else { format!("FAIL:{}", fails.join(";")) },
        frames: g.frames,
        panicked: g.panicked,
    }
}

fn worker(c: &Case, prog: &std::sync::Arc<std::sync::Mutex<Progress>>, mut hooks: Hooks) {
    let setup = (hooks.setup)(c);
    let mut sut = mk_sut(&setup);
    let trace = std::env::var("HTUI_TRACE").is_ok();
    if trace {
        eprintln!("case mf={:?} cs={:?} p={:?} ma={:?}", c.max_flows, c.cols, c.privacy, c.max_addrs);
    }
    {
        let mut g = prog.lock().unwrap();
        g.w0 = sut.tracers.iter().map(shape_of).collect();
        g.cols0 = cols_string(&sut.app);
    }
    let mut prev = String::new();
    let mut seen_frame = false;
    let mut known: BTreeSet<u32> = BTreeSet::new();
    (hooks.seed)(&sut.app, u32::MAX);
    crate::tuikit::WALL_CLOCK_OFFSET_S.store(0, std::sync::atomic::Ordering::SeqCst);
    for (i, op) in c.ops.iter().enumerate() {
        if trace {
            eprintln!("op {i} {}", op.fmt());
        }
        if let Op::Clock(d) = op {
            // the wall clock steps (NTP, a resumed laptop): recorded in the line, no operation of the application
            crate::tuikit::WALL_CLOCK_OFFSET_S.fetch_add(*d, std::sync::atomic::Ordering::SeqCst);
            prog.lock().unwrap().op_txt.push(op.fmt());
            continue;
        }
        {
            let mut g = prog.lock().unwrap();
            if g.done {
                return;
            }
            g.current = Some((i, op.fmt(), std::time::Instant::now()));
        }
        // C18 step oracle (model-free): the privacy level before the op and the hop count on display
        let level = |app: &TuiApp| app.tui_config.privacy_max_ttl.map_or(-1i64, i64::from);
        let level_before = level(&sut.app);
        let hop_count_before = catch_unwind(AssertUnwindSafe(|| sut.app.tracer_data().hops_for_flow(sut.app.selected_flow).len() as i64)).unwrap_or(0);
        let dialogs_closed = !sut.app.show_help && !sut.app.show_settings;
        let r = catch_unwind(AssertUnwindSafe(|| match op {
            Op::Round { t, round, largest, probes } => {
                if *t < sut.tracers.len() {
                    apply_round(&sut.tracers[*t], *round, *largest, probes);
                }
                None
            }
            Op::Clear { t } => {
                if *t < sut.tracers.len() {
                    sut.tracers[*t].clear();
                }
                None
            }
            Op::Error { t, on } => {
                if *t < sut.tracers.len() {
                    sut.tracers[*t].verif_set_error(if *on { Some("simulated failure".to_string()) } else { None });
                }
                None
            }
            Op::Method(m) => {
                call_method(&mut sut.app, m);
                None
            }
            Op::Key(k) => {
                if let Some(ev) = key_of(k) {
                    dispatch(&mut sut.app, ev);
                }
                None
            }
            Op::Frame { w, h } => Some(frame(&mut sut.app, *w, *h)),
            Op::Clock(_) => None,
        }));
        let mut g = prog.lock().unwrap();
        if g.done {
            return; // reported as a hang meanwhile
        }
        g.current = None;
        // record the op (data ops with the resulting shape)
        let mut t = op.fmt();
        if let Op::Round { t: tr, probes, .. } = op {
            for p in probes {
                if p.kind == 'c' {
                    known.insert(p.addr);
                }
            }
            if *tr < sut.tracers.len() {
                t = format!("{t}={}", shape_of(&sut.tracers[*tr]));
            }
        } else if let Op::Clear { t: tr } | Op::Error { t: tr, .. } = op {
            if *tr < sut.tracers.len() {
                t = format!("{t}={}", shape_of(&sut.tracers[*tr]));
            }
        }
        g.op_txt.push(t);
        let text = match r {
            Err(e) => {
                let msg = crate::panic_msg(e).replace(' ', "_");
                if msg.contains("InternalSolverError") {
                    // the constraint solver behind ratatui's Layout gave up (hash-order dependent, see F17):
                    // a crash of the drawing library, outside the model
                    g.states.push("fault:layout_solver".to_string());
                    g.fails.push(format!("C17:layout_solver_panic@{i}:{}:{msg}", op.fmt()));
                } else {
                    g.states.push("fault:panic".to_string());
                    g.fails.push(format!("C17:panic@{i}:{}:{msg}", op.fmt()));
                }
                g.panicked = true;
                // the remaining ops are not executed (run_app would have died here)
                break;
            }
            Ok(t) => t,
        };
        {
            let after = level(&sut.app);
            let (expand, contract) = match op {
                Op::Method(m) => (m == "expand_privacy", m == "contract_privacy"),
                Op::Key(k) => (dialogs_closed && k == "expand_privacy", dialogs_closed && k == "contract_privacy"),
                _ => (false, false),
            };
            let want = if expand {
                if level_before < hop_count_before { level_before + 1 } else { level_before }
            } else if contract {
                if level_before >= 0 { level_before - 1 } else { -1 }
            } else {
                level_before
            };
            if after != want {
                g.fails.push(format!("C18:step@{i}:{}:level_{level_before}_to_{after}_with_{hop_count_before}_hops_expected_{want}", op.fmt()));
            }
        }
        if let Op::Round { t, .. } | Op::Clear { t } | Op::Error { t, .. } = op {
            if *t < sut.tracers.len() {
                if let Err(m) = shape_wf(&sut.tracers[*t].snapshot()) {
                    g.fails.push(format!("C17:shape_wf@{i}:{m}"));
                }
            }
        }
        // keep every address resolvable from the cache: no real lookup is ever attempted
        for a in &known {
            (hooks.seed)(&sut.app, *a);
        }
        let mut frame_extra: Option<String> = None;
        if let Some(txt) = &text {
            seen_frame = true;
            g.frames += 1;
            if txt.contains("no addr for index") {
                g.fails.push(format!("C17:stale_hop_address_on_screen@{i}"));
            }
            // the watchdog also covers the re-draws a mode makes
            g.current = Some((i, op.fmt(), std::time::Instant::now()));
            drop(g);
            let (extra, cls) = (hooks.per_frame)(&mut sut, txt, i);
            g = prog.lock().unwrap();
            if g.done {
                return;
            }
            g.current = None;
            g.fails.extend(extra);
            frame_extra = cls;
        }
        if hooks.privacy_only {
            let p = sut.app.tui_config.privacy_max_ttl.map_or("-".to_string(), |v| v.to_string());
            g.states.push(match frame_extra {
                Some(c) => format!("{p}:{c}"),
                None => p,
            });
            continue;
        }
        let s = state_string(&sut.app);
        if s == prev {
            g.states.push("=".to_string());
        } else {
            g.states.push(s.clone());
            prev = s;
        }
        if seen_frame {
            if let Err(m) = selection_valid(&sut.app) {
                g.fails.push(format!("C17:stale_selection@{i}:{}:{m}", op.fmt()));
            }
        }
    }
    prog.lock().unwrap().done = true;
}

pub fn parse_case(line: &str) -> Option<Case> {
    let mut c = Case { max_flows: vec![], cols: None, privacy: None, max_addrs: None, ops: vec![] };
    for tok in line.split(' ').skip(1) {
        let (k, v) = tok.split_once('=')?;
        match k {
            "cs" => c.cols = if v == "-" { None } else { Some(v.to_string()) },
            "p" => c.privacy = v.parse().ok(),
            "ma" => c.max_addrs = v.parse().ok(),
            "w0" => {
                c.max_flows = v.split(',').map(|s| s.split('/').next().unwrap().parse().unwrap_or(1)).collect();
            }
            "ops" => c.ops = parse_ops(v),
            _ => {}
        }
    }
    if c.max_flows.is_empty() {
        return None;
    }
    Some(c)
}

// ---------------------------------------------------------------- generation

pub type Path = Vec<Option<u32>>;

/// `largest_ttl` as `Strategy::publish_trace` computes it: the target's ttl when the target answered,
/// otherwise one beyond the farthest answering hop (capped by the farthest probe sent), 0 when nothing answered.
fn largest_ttl(probes: &[ProbeSpec], target_found: bool) -> u8 {
    let max_recv = probes.iter().filter(|p| p.kind == 'c').map(|p| p.ttl).max();
    let max_sent = probes.iter().map(|p| p.ttl).max().unwrap_or(0);
    match max_recv {
        None => 0,
        Some(m) if target_found => m,
        Some(m) => max_sent.min(m.saturating_add(1)),
    }
}

pub fn round_of_path(t: usize, round: usize, first: u8, p: &Path, extra_awaited: u8) -> Op {
    let mut probes = vec![];
    for (i, h) in p.iter().enumerate() {
        let ttl = first + i as u8;
        match h {
            Some(a) => probes.push(ProbeSpec { ttl, kind: 'c', addr: *a }),
            None => probes.push(ProbeSpec { ttl, kind: 'a', addr: 0 }),
        }
    }
    let end = first as usize + p.len();
    for k in 0..extra_awaited as usize {
        if end + k <= 254 {
            probes.push(ProbeSpec { ttl: (end + k) as u8, kind: 'a', addr: 0 });
        }
    }
    // the last hop of the path is the target when it answers
    let target_found = p.last().is_some_and(Option::is_some);
    let largest = largest_ttl(&probes, target_found);
    Op::Round { t, round, largest, probes }
}

pub const SIZES: &[(u16, u16)] = &[
    (1, 1), (1, 100), (300, 1), (2, 2), (5, 3), (20, 5), (40, 10), (60, 20), (80, 24), (100, 30), (120, 40),
    (200, 60), (300, 100),
];

fn rand_size(r: &mut Rng) -> (u16, u16) {
    if r.chance(2, 3) {
        *r.pick(SIZES)
    } else {
        (r.range(1, 300) as u16, r.range(1, 100) as u16)
    }
}

struct Gen {
    r: Rng,
    paths: Vec<Vec<Path>>, // per trace
    first: Vec<u8>,
    round: Vec<usize>,
    next_addr: u32,
}

impl Gen {
    fn new_path(&mut self, len: usize) -> Path {
        (0..len)
            .map(|_| {
                if self.r.chance(1, 6) {
                    None
                } else {
                    self.next_addr += 1;
                    Some(self.next_addr)
                }
            })
            .collect()
    }
    fn variant(&mut self, p: &Path) -> Path {
        // same path with a few hops answered by another router, possibly longer or shorter
        let mut q = p.clone();
        let n = q.len();
        for _ in 0..self.r.range(1, 3) {
            let i = self.r.below(n as u64) as usize;
            self.next_addr += 1;
            q[i] = Some(self.next_addr);
        }
        match self.r.below(4) {
            0 if q.len() > 1 => {
                let k = self.r.range(1, q.len() as u64 - 1) as usize;
                q.truncate(k);
                if let Some(l) = q.last_mut() {
                    self.next_addr += 1;
                    *l = Some(self.next_addr);
                }
            }
            1 if q.len() < 200 => {
                for _ in 0..self.r.range(1, 4) {
                    self.next_addr += 1;
                    q.push(Some(self.next_addr));
                }
            }
            _ => {}
        }
        q
    }
    fn data_op(&mut self, nt: usize) -> Op {
        let t = self.r.below(nt as u64) as usize;
        let k = self.r.below(100);
        if k < 4 {
            return Op::Clear { t };
        }
        if k < 7 {
            return Op::Error { t, on: self.r.chance(2, 3) };
        }
        self.round[t] += 1;
        if k < 12 {
            // an irregular round: failed probes, re-issued ttls, changing addresses, target "found" anywhere;
            // still what the strategy can publish (contiguous ttls from first_ttl, largest_ttl by its rule)
            let n = self.r.range(1, 8) as u8;
            let mut probes = vec![];
            for k in 0..n {
                let ttl = self.first[t].saturating_add(k).min(254);
                let reps = if self.r.chance(1, 6) { 2 } else { 1 };
                for _ in 0..reps {
                    let kind = *self.r.pick(&['c', 'c', 'a', 'f']);
                    self.next_addr += 1;
                    probes.push(ProbeSpec { ttl, kind, addr: self.next_addr % 40 + 1000 });
                }
            }
            let largest = largest_ttl(&probes, self.r.chance(1, 2));
            return Op::Round { t, round: self.round[t], largest, probes };
        }
        if self.paths[t].is_empty() || self.r.chance(1, 6) {
            let len = match self.r.below(20) {
                0 => self.r.range(40, 120) as usize,
                1 => 254 - self.first[t] as usize + 1,
                _ => self.r.range(1, 14) as usize,
            };
            let len = len.min(254 - self.first[t] as usize + 1);
            let p = if self.paths[t].is_empty() || self.r.chance(1, 3) {
                self.new_path(len)
            } else {
                let base = self.r.pick(&self.paths[t]).clone();
                self.variant(&base)
            };
            self.paths[t].push(p);
        }
        let p = self.r.pick(&self.paths[t]).clone();
        // transient loss: some answering hops stay silent in this round
        let p: Path = p.iter().map(|h| if self.r.chance(1, 10) { None } else { *h }).collect();
        let extra = if self.r.chance(1, 3) { self.r.range(1, 3) as u8 } else { 0 };
        round_of_path(t, self.round[t], self.first[t], &p, extra)
    }
}

const NAV_KEYS: &[&str] = &[
    "next_hop", "next_hop", "next_hop", "previous_hop", "next_trace", "previous_trace", "next_hop_address",
    "previous_hop_address", "toggle_flows", "toggle_flows", "toggle_hop_details", "toggle_freeze", "toggle_chart",
    "toggle_map", "expand_privacy", "contract_privacy", "clear_trace_data", "clear_selection", "expand_hosts",
    "contract_hosts", "expand_hosts_max", "contract_hosts_min", "chart_zoom_in", "chart_zoom_out",
    "toggle_settings", "toggle_help", "toggle_settings_columns", "toggle_chart", "next_hop_address",
];

pub fn random_case(seed_rng: &mut Rng, long: bool) -> Case {
    let mut r = seed_rng.fork();
    let nt = if r.chance(7, 10) { 1 } else { r.range(2, 3) as usize };
    let max_flows: Vec<usize> = (0..nt).map(|_| if nt == 1 { *r.pick(&[1usize, 2, 2, 3, 4, 8]) } else { *r.pick(&[1usize, 1, 2]) }).collect();
    let cols = match r.below(5) {
        0 => Some("holsravbwdt".to_string()),
        1 => Some("ho".to_string()),
        2 => Some("hosrjgxiSPQTCNfFBDKMlavbwdt".to_string()),
        3 => Some("h".to_string()),
        _ => None,
    };
    let privacy = match r.below(5) {
        0 => Some(0),
        1 => Some(r.range(1, 6) as u8),
        _ => None,
    };
    let max_addrs = match r.below(4) {
        0 => Some(r.range(1, 3) as u8),
        _ => None,
    };
    let first: Vec<u8> = (0..nt).map(|_| if r.chance(1, 5) { r.range(2, 5) as u8 } else { 1 }).collect();
    let mut g = Gen { r, paths: vec![vec![]; nt], first, round: vec![0; nt], next_addr: 100 };
    let n_ops = if long { g.r.range(60, 200) } else { g.r.range(10, 60) } as usize;
    let mut ops = vec![Op::Frame { w: 80, h: 24 }];
    // warm-up: usually some data before the user does anything
    for _ in 0..g.r.range(0, 6) {
        ops.push(g.data_op(nt));
    }
    while ops.len() < n_ops {
        let k = g.r.below(100);
        if k < 28 {
            let (w, h) = rand_size(&mut g.r);
            ops.push(Op::Frame { w, h });
        } else if k < 48 {
            ops.push(g.data_op(nt));
        } else if k < 78 {
            ops.push(Op::Key((*g.r.pick(NAV_KEYS)).to_string()));
        } else if k < 88 {
            ops.push(Op::Key((*g.r.pick(BINDINGS)).to_string()));
        } else {
            ops.push(Op::Method((*g.r.pick(METHODS)).to_string()));
        }
        // run_app draws a frame after (almost) every key; keep frames frequent
        if g.r.chance(1, 3) {
            let (w, h) = rand_size(&mut g.r);
            ops.push(Op::Frame { w, h });
        }
        // the wall clock is not monotonic
        if g.r.chance(1, 40) {
            ops.push(Op::Clock(*g.r.pick(&[-7200i64, -1, 3600, -86400])));
        }
    }
    ops.push(Op::Frame { w: 120, h: 40 });
    Case { max_flows, cols, privacy, max_addrs, ops }
}

fn k(s: &str) -> Op {
    Op::Key(s.to_string())
}
fn m(s: &str) -> Op {
    Op::Method(s.to_string())
}
fn f(w: u16, h: u16) -> Op {
    Op::Frame { w, h }
}
fn path(ids: &[u32]) -> Path {
    ids.iter().map(|i| if *i == 0 { None } else { Some(*i) }).collect()
}

/// Directed scenarios: each is the minimal op list of a defect class that was found on the pinned code
/// (they are also kept in corpus/C17), plus a few boundary walks.
pub fn structured_cases() -> Vec<Case> {
    let mut v = vec![];
    let base = |mf: usize, ops: Vec<Op>| Case { max_flows: vec![mf], cols: None, privacy: None, max_addrs: None, ops };
    // F10: flows shown, trace data cleared, next frame
    v.push(base(4, vec![
        f(80, 24),
        round_of_path(0, 1, 1, &path(&[1, 2, 3]), 0),
        round_of_path(0, 2, 1, &path(&[1, 4, 3]), 0),
        f(80, 24), k("toggle_flows"), f(80, 24), k("clear_trace_data"), f(80, 24), k("next_trace"), f(80, 24),
    ]));
    // the same with the second flow selected and data arriving again after the clear
    v.push(base(4, vec![
        f(80, 24),
        round_of_path(0, 1, 1, &path(&[1, 2, 3]), 0),
        round_of_path(0, 2, 1, &path(&[1, 4, 3]), 0),
        f(80, 24), k("toggle_flows"), f(80, 24), k("next_trace"), f(80, 24), k("clear_trace_data"),
        round_of_path(0, 3, 1, &path(&[1, 2, 3]), 0),
        f(80, 24), k("toggle_flows"), f(80, 24),
    ]));
    // an outage after the target distance is known: the strategy keeps publishing the carried path length although nothing
    // answers; the trace data is cleared during the outage, so every hop shown has no address at all; "show all hosts" is
    // pressed; then the path answers again
    let outage = |round: usize, n: u8| Op::Round { t: 0, round, largest: n, probes: (1..=n).map(|ttl| ProbeSpec { ttl, kind: 'a', addr: 0 }).collect() };
    v.push(base(1, vec![
        f(80, 24), round_of_path(0, 1, 1, &path(&[1, 2, 3]), 0), f(80, 24), k("clear_trace_data"), outage(2, 3), f(80, 24),
        k("expand_hosts_max"), f(80, 24), round_of_path(0, 3, 1, &path(&[1, 2, 3]), 0), f(80, 24), k("expand_hosts"), f(80, 24), k("contract_hosts"), f(80, 24),
    ]));
    v.push(base(4, vec![
        f(120, 40), round_of_path(0, 1, 1, &path(&[1, 2, 3]), 0), Op::Clear { t: 0 }, outage(2, 3), outage(3, 3), f(120, 40),
        k("next_hop"), k("toggle_hop_details"), k("expand_hosts_max"), f(120, 40), round_of_path(0, 4, 1, &path(&[1, 5, 3]), 0), f(120, 40), f(80, 24),
    ]));
    // the settings dialog: every tab, the selection walked down past the last item and up again (once with IPv4 and once with IPv6 targets:
    // the number of ops decides)
    for pad in 0..3usize {
        let mut ops = vec![f(120, 40), round_of_path(0, 1, 1, &path(&[1, 2, 3]), 0), f(120, 40), k("toggle_settings"), f(160, 100)];
        for _tab in 0..7 {
            for _ in 0..45 { ops.push(k("next_hop")); }
            ops.push(f(160, 100));
            ops.push(f(20, 5));
            for _ in 0..3 { ops.push(k("previous_hop")); }
            ops.push(f(160, 100));
            ops.push(k("next_trace"));
        }
        for _ in 0..pad { ops.push(f(80, 24)); }
        v.push(base(1, ops));
    }
    // host names on display, then more time than the DNS time-to-live passes without a frame (chart shown), then the table again
    v.push(base(1, vec![
        f(120, 40), round_of_path(0, 1, 1, &path(&[1, 2, 3]), 0), k("address_mode_host"), f(120, 40), k("toggle_chart"), f(120, 40),
        Op::Clock(3600), k("toggle_chart"), f(120, 40), f(120, 40), Op::Clock(100_000), f(80, 24), k("address_mode_both"), Op::Clock(301), f(120, 40),
    ]));
    // the display is frozen, then the wall clock is set back by an hour (and later forward again): frames keep being drawn
    v.push(base(1, vec![
        f(120, 40), round_of_path(0, 1, 1, &path(&[1, 2, 3]), 0), f(120, 40), k("toggle_freeze"), f(120, 40), Op::Clock(-3600), f(120, 40), f(80, 24),
        round_of_path(0, 2, 1, &path(&[1, 2, 3]), 0), f(120, 40), Op::Clock(7200), f(120, 40), k("toggle_freeze"), f(120, 40), Op::Clock(-7200), k("toggle_freeze"), f(120, 40),
    ]));
    // selection kept while the trace loses all hops (Tracer::clear without TuiApp::clear)
    v.push(base(1, vec![
        f(80, 24), round_of_path(0, 1, 1, &path(&[1, 2, 3, 4]), 0), f(80, 24),
        k("next_hop"), k("next_hop"), k("next_hop"), f(80, 24), Op::Clear { t: 0 }, f(80, 24), f(80, 24),
    ]));
    // frozen display, selected row beyond the end of the flow switched to
    v.push(base(4, vec![
        f(80, 24),
        round_of_path(0, 1, 1, &path(&[1, 2, 3]), 0),
        round_of_path(0, 2, 1, &path(&[1, 5, 6, 7, 8, 9]), 0),
        f(80, 24), k("previous_hop"), f(80, 24), k("toggle_freeze"), f(80, 24), k("toggle_flows"), f(80, 24),
    ]));
    v.push(base(4, vec![
        f(80, 24),
        round_of_path(0, 1, 1, &path(&[1, 5, 6, 7, 8, 9]), 0),
        round_of_path(0, 2, 1, &path(&[1, 2, 3]), 0),
        f(80, 24), k("toggle_flows"), f(80, 24), k("previous_hop"), f(80, 24), k("toggle_freeze"), f(80, 24),
        k("next_trace"), f(80, 24), k("previous_trace"), f(80, 24),
    ]));
    // next hop address on a hop that never answered
    v.push(base(1, vec![
        f(80, 24), round_of_path(0, 1, 1, &path(&[1, 0, 3]), 0), f(80, 24),
        k("next_hop"), k("next_hop"), f(80, 24), k("toggle_hop_details"), f(80, 24), k("next_hop_address"), f(80, 24),
        k("next_hop_address"), f(80, 24),
    ]));
    // hop address index kept while the hop behind it changes
    v.push(base(1, vec![
        f(80, 24),
        round_of_path(0, 1, 1, &path(&[1, 2]), 0),
        round_of_path(0, 2, 1, &path(&[3, 2]), 0),
        round_of_path(0, 3, 1, &path(&[4, 2]), 0),
        f(80, 24), k("next_hop"), k("toggle_hop_details"), f(80, 24), k("next_hop_address"), k("next_hop_address"), f(100, 30),
        m("clear_trace_data"), round_of_path(0, 4, 1, &path(&[1, 2]), 0), f(100, 30),
    ]));
    // settings walk: every tab, past both ends of every item list, column moves at both ends
    {
        let mut ops = vec![f(80, 24), round_of_path(0, 1, 1, &path(&[1, 2, 3]), 0), f(80, 24), k("toggle_settings"), f(120, 40)];
        for _ in 0..8 {
            ops.push(k("next_trace"));
            for _ in 0..3 {
                ops.push(k("previous_hop"));
            }
            ops.push(f(120, 40));
            for _ in 0..40 {
                ops.push(k("next_hop"));
            }
            ops.push(f(120, 40));
            ops.push(k("next_hop_address"));
            ops.push(k("toggle_chart"));
            ops.push(k("previous_hop_address"));
            ops.push(f(60, 20));
        }
        for _ in 0..8 {
            ops.push(k("previous_trace"));
            ops.push(k("previous_hop_address"));
            ops.push(k("toggle_chart"));
            ops.push(f(80, 24));
        }
        ops.push(k("toggle_settings_columns"));
        for _ in 0..30 {
            ops.push(k("next_hop_address"));
        }
        ops.push(f(80, 24));
        for _ in 0..30 {
            ops.push(k("previous_hop_address"));
        }
        ops.push(k("toggle_settings"));
        ops.push(f(80, 24));
        v.push(base(1, ops));
    }
    // every view at every boundary size, three traces, empty / cleared / error states
    {
        let mut ops = vec![];
        for (w, h) in SIZES {
            ops.push(f(*w, *h));
        }
        ops.push(round_of_path(0, 1, 1, &path(&[1, 2, 0, 4]), 2));
        ops.push(round_of_path(1, 1, 1, &path(&[0, 0, 0]), 0));
        for view in ["toggle_chart", "toggle_map", "toggle_map", "toggle_hop_details", "toggle_help", "toggle_help", "toggle_settings", "toggle_settings", "next_trace", "next_trace", "next_trace"] {
            ops.push(k(view));
            for (w, h) in SIZES {
                ops.push(f(*w, *h));
            }
        }
        ops.push(Op::Error { t: 2, on: true });
        ops.push(f(80, 24));
        ops.push(k("previous_trace"));
        ops.push(Op::Clear { t: 1 });
        ops.push(f(80, 24));
        v.push(Case { max_flows: vec![1, 1, 1], cols: None, privacy: None, max_addrs: None, ops });
    }
    // longest possible path, navigation to the end, privacy to the end
    {
        let ids: Vec<u32> = (1..=254).collect();
        let mut ops = vec![f(80, 24), round_of_path(0, 1, 1, &path(&ids), 0), f(80, 24), k("previous_hop"), f(80, 24)];
        for _ in 0..260 {
            ops.push(k("expand_privacy"));
        }
        ops.push(f(80, 24));
        for _ in 0..5 {
            ops.push(k("next_hop"));
        }
        ops.push(k("toggle_chart"));
        ops.push(f(200, 60));
        ops.push(k("toggle_map"));
        ops.push(f(200, 60));
        v.push(base(1, ops));
    }
    v
}

pub fn run(args: &Args, out: &mut Out) {
    let mut n_cases = 0usize;
    let mut n_frames = 0usize;
    let mut n_ops = 0usize;
    let mut n_panics = 0usize;
    let mut emit = |c: &Case, out: &mut Out| {
        let o = run_case("c17", c, c17_hooks());
        out.case(&o.input, &o.output, &o.oracle);
        n_cases += 1;
        n_frames += o.frames;
        n_ops += c.ops.len();
        n_panics += usize::from(o.panicked);
    };
    if let Some(p) = &args.replay {
        for line in crate::replay_inputs(p) {
            if let Some(c) = parse_case(&line) {
                emit(&c, out);
            }
        }
    } else {
        for c in structured_cases() {
            emit(&c, out);
        }
        let mut r = Rng::new(args.seed);
        let n = args.n.unwrap_or(if args.tier_thorough { 4500 } else { 350 });
        for i in 0..n {
            if std::env::var("HTUI_TRACE").is_ok() {
                eprintln!("gen {i}");
            }
            let c = random_case(&mut r, args.tier_thorough && i % 10 == 0);
            emit(&c, out);
        }
    }
    out.stat("cases", n_cases);
    out.stat("ops", n_ops);
    out.stat("frames_drawn", n_frames);
    out.stat("cases_with_panic", n_panics);
}
