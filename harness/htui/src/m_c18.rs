//! C18: hop privacy - hidden hops never reach the screen.
//!
//! Scenarios as for C17 (same op language, same runner), but every address carries unique sentinel
//! strings for everything a view can print about it: the IP address, a reverse-DNS name, AS number /
//! name / prefix / country / registry / allocation date, GeoIP city / region / country / continent /
//! coordinates / radius (seeded resolver cache and GeoIP lookup; the sandbox has neither DNS nor a
//! database).  Each address is used at exactly one ttl.
//!
//! After every frame the same app state is re-drawn in a slice of the view matrix
//!   view (as is, table, chart, map, help, settings tab 0..6) x selected row (as is, first, last
//!   hidden, first visible, last) x hop details x address mode (3) x AS info (off + 6 AS modes) x
//!   GeoIP mode (4) x max_addrs (none, 1, 3) x size (4)
//! (enumerated by one running counter, so a run walks through the whole product) and the cells of
//! each are searched for the sentinels of every hop with ttl <= n in any flow of the data on
//! display, and for the source address whenever privacy is on.  Oracle tags:
//!   FAIL:C18:leak…          a sentinel of a hidden hop (or the source) is on the screen
//!   FAIL:C18:dest_in_header… the hidden hop is the target and its address is in the header's
//!                            "Target: src -> dest" line only (recorded known finding)
//!   FAIL:C18:overhidden…    a responding hop above n is not on the reference screen
//! Output compared with the model: the privacy value after every op, and at every frame H / N / V
//! per row of the selected flow, read off a reference screen (table, IP mode, tall enough).
//!
//! TEXT of the frames (Tui/Views.v through Tui/Frames.v): after every frame the same state is also drawn on
//! reference screens 250 columns wide and tall enough for every row (`text_reference`): the hop table as
//! the application state has it (address mode, AS info, max_addrs, hop details, selection as the keys
//! left them), the hop table in a pseudo-random cell of address mode x AS off / 6 AS modes x GeoIP mode x
//! max_addrs x hop details x selected row, and the map.  Read off each: the text of the Host cell of
//! every row (all its lines) with the row height, resp. title and text of the map's info panel, the number of
//! pins on the map and whether a selection box is drawn (`#<pins><b|->`); and, first, the "Target: source ->
//! destination" line of the header.  The
//! frame op of the case line gets `=<hops>/<target>/<draws>` appended (what the model does not keep:
//! addresses and counts per hop, the target hop; and which screens were drawn) and the extracted model
//! must print the same text.  Canonical form: lines joined by `~`, rows by `|`, `^h` = row height,
//! ' ' written `_`.
use crate::m_c17::{parse_case, round_of_path, run_case, Case, Hooks, Path};
use crate::rng::Rng;
use crate::tuikit::*;
use crate::{Args, Out};
use std::collections::{BTreeMap, BTreeSet};
use std::net::{IpAddr, Ipv4Addr};
use std::sync::atomic::{AtomicUsize, Ordering};
use trippy_core::FlowId;
use trippy_dns::{AsInfo, DnsEntry, Resolved, Unresolved};
use trippy_tui::verif_frontend::{AddressMode, AsMode, GeoIpCity, GeoIpMode, TuiApp};

const SRC: IpAddr = IpAddr::V4(Ipv4Addr::new(192, 168, 77, 1));

fn lat(id: u32) -> f64 {
    -70.25 + 1.5 * f64::from(id)
}
fn long(id: u32) -> f64 {
    -170.25 + 3.5 * f64::from(id)
}

/// Everything printable about address `id`; the first token is the IP prefix `1xx.77.`
pub fn sentinels(id: u32) -> Vec<String> {
    vec![
        format!("{}.77.", 100 + id),
        format!("hq{id}z"),
        format!("AS64{:03}", 500 + id),
        format!("NQ{id}Z"),
        format!("PQ{id}Z"),
        format!("CQ{id}Z"),
        format!("RQ{id}Z"),
        format!("LQ{id}Z"),
    ]
    .into_iter()
    .chain(geo_sentinels(id))
    .collect()
}

/// GeoIP data is shared by the four addresses of a group (routers of one site): a hidden and a visible hop can then be at the
/// same location, which is one entry of the map
fn geo_group(id: u32) -> u32 {
    id / 4 * 4
}
fn geo_sentinels(id: u32) -> Vec<String> {
    let g = geo_group(id);
    vec![
        format!("GC{g}Z"),
        format!("GS{g}Z"),
        format!("GD{g}Z"),
        format!("GL{g}Z"),
        format!("GK{g}Z"),
        format!("GN{g}Z"),
        format!("{}", lat(g)),
        format!("{}", long(g)),
        format!("~{}km", 300 + g),
    ]
}

fn seed_sentinel(app: &TuiApp, id: u32) {
    if id == u32::MAX {
        app.resolver.verif_seed(
            SRC,
            DnsEntry::Resolved(Resolved::WithAsInfo(
                SRC,
                vec!["srcqz.example.net".to_string()],
                AsInfo { asn: "64999".into(), prefix: "PQsrcZ".into(), cc: "CQsrcZ".into(), registry: "RQsrcZ".into(), allocated: "LQsrcZ".into(), name: "NQsrcZ".into() },
            )),
        );
        return;
    }
    let a = addr(id);
    let asinfo = AsInfo {
        asn: format!("64{:03}", 500 + id),
        prefix: format!("PQ{id}Z"),
        cc: format!("CQ{id}Z"),
        registry: format!("RQ{id}Z"),
        allocated: format!("LQ{id}Z"),
        name: format!("NQ{id}Z"),
    };
    let hosts = vec![format!("hq{id}z.example.net")];
    // half of the addresses resolve with a host name and full AS info; the others cover every other answer of the resolver the views
    // distinguish (a Timeout entry is re-queued by the resolver itself and so cannot be kept in place): d_tui.ml `sent_dns` has the same table
    let entry = match id % 12 {
        5 => DnsEntry::NotFound(Unresolved::WithAsInfo(a, asinfo)),
        7 => DnsEntry::Resolved(Resolved::Normal(a, hosts)),
        8 => DnsEntry::Resolved(Resolved::WithAsInfo(a, hosts, AsInfo::default())),
        9 => DnsEntry::NotFound(Unresolved::Normal(a)),
        10 => DnsEntry::Failed(a),
        11 => DnsEntry::Pending(a),
        _ => DnsEntry::Resolved(Resolved::WithAsInfo(a, hosts, asinfo)),
    };
    app.resolver.verif_seed(a, entry);
    // every third address has no GeoIP entry at all and every third one an entry without coordinates: the
    // "no GeoIp data for hop" paths of the map view are then reached with GeoIP configured
    if id % 3 == 1 {
        return;
    }
    let located = id % 3 != 2;
    // (with the generated database loaded the same data comes out of the real reader)
    if GEO_DB.load(Ordering::SeqCst) { return; }
    let g = geo_group(id);
    app.geoip_lookup.verif_seed(
        a,
        GeoIpCity::verif_new(
            if located { Some(lat(g)) } else { None },
            if located { Some(long(g)) } else { None },
            Some(300 + g as u16),
            Some(format!("GC{g}Z")),
            Some(format!("GS{g}Z")),
            Some(format!("GD{g}Z")),
            Some(format!("GL{g}Z")),
            Some(format!("GK{g}Z")),
            Some(format!("GN{g}Z")),
        ),
    );
}

fn id_of(a: &IpAddr) -> Option<u32> {
    match a {
        IpAddr::V4(v) if v.octets()[1..] == [77, 77, 77] && v.octets()[0] >= 100 => Some(u32::from(v.octets()[0]) - 100),
        _ => None,
    }
}

static COMBO: AtomicUsize = AtomicUsize::new(0);
static GEO_DB: std::sync::atomic::AtomicBool = std::sync::atomic::AtomicBool::new(false);

/// the sentinel GeoIP data of `seed_sentinel` as a database (first octet 100 + id)
fn sentinel_db() -> Vec<u8> {
    crate::tuikit::first_octet_mmdb(&|v| {
        if !(100..200).contains(&v) { return None; }
        let id = u32::from(v) - 100;
        if id % 3 == 1 { return None; }
        let located = id % 3 != 2;
        let g = geo_group(id);
        Some(crate::tuikit::GeoRec {
            lat: if located { Some(lat(g)) } else { None }, long: if located { Some(long(g)) } else { None }, radius: Some(300 + g as u16),
            city: Some(format!("GC{g}Z")), sub: Some(format!("GS{g}Z")), sub_code: Some(format!("GD{g}Z")), country: Some(format!("GL{g}Z")),
            country_code: Some(format!("GK{g}Z")), continent: Some(format!("GN{g}Z")),
        })
    })
}

struct Saved {
    help: bool,
    settings: bool,
    tab: usize,
    details: bool,
    chart: bool,
    map: bool,
    sel: Option<usize>,
    offset: usize,
    sel_addr: usize,
    am: AddressMode,
    asinfo: bool,
    asmode: AsMode,
    geo: GeoIpMode,
    max_addrs: Option<u8>,
}

fn save(app: &TuiApp) -> Saved {
    Saved {
        help: app.show_help,
        settings: app.show_settings,
        tab: app.settings_tab_selected,
        details: app.show_hop_details,
        chart: app.show_chart,
        map: app.show_map,
        sel: app.table_state.selected(),
        offset: app.table_state.offset(),
        sel_addr: app.selected_hop_address,
        am: app.tui_config.address_mode,
        asinfo: app.tui_config.lookup_as_info,
        asmode: app.tui_config.as_mode,
        geo: app.tui_config.geoip_mode,
        max_addrs: app.tui_config.max_addrs,
    }
}

fn restore(app: &mut TuiApp, s: &Saved) {
    app.show_help = s.help;
    app.show_settings = s.settings;
    app.settings_tab_selected = s.tab;
    app.show_hop_details = s.details;
    app.show_chart = s.chart;
    app.show_map = s.map;
    app.table_state.select(s.sel);
    *app.table_state.offset_mut() = s.offset;
    app.selected_hop_address = s.sel_addr;
    app.tui_config.address_mode = s.am;
    app.tui_config.lookup_as_info = s.asinfo;
    app.tui_config.as_mode = s.asmode;
    app.tui_config.geoip_mode = s.geo;
    app.tui_config.max_addrs = s.max_addrs;
}

/// address id -> set of ttls it answered at, over every flow of the data on display
fn addr_ttls(app: &TuiApp) -> BTreeMap<u32, BTreeSet<u8>> {
    let st = app.tracer_data();
    let mut m: BTreeMap<u32, BTreeSet<u8>> = BTreeMap::new();
    let mut ids = vec![0u64];
    ids.extend(st.flows().iter().map(|(_, id)| id.0));
    for f in ids {
        if let Ok(hops) = std::panic::catch_unwind(std::panic::AssertUnwindSafe(|| st.hops_for_flow(FlowId(f)).to_vec())) {
            for h in &hops {
                for a in h.addrs() {
                    if let Some(id) = id_of(a) {
                        m.entry(id).or_default().insert(h.ttl());
                    }
                }
            }
        }
    }
    m
}

/// Search one screen for what must not be there.
fn search(app: &TuiApp, txt: &str, what: &str, fails: &mut Vec<String>, stats: &mut Stats) {
    let Some(n) = app.tui_config.privacy_max_ttl else { return };
    stats.screens_searched += 1;
    for tok in ["192.168.77.1", "srcqz"] {
        if txt.contains(tok) {
            fails.push(format!("C18:leak:source:{tok}:{what}"));
        }
    }
    let target = id_of(&app.tracer_config().data.target_addr());
    let body: String = txt.lines().skip(4).collect::<Vec<_>>().join("\n");
    let at = addr_ttls(app);
    // GeoIP strings that some visible address legitimately shows
    let visible_geo: BTreeSet<String> = at.iter().filter(|(_, ttls)| ttls.iter().any(|t| *t > n)).flat_map(|(id, _)| geo_sentinels(*id)).collect();
    // the info panel of the map describes ONE hop (the selected one, else the target) and is the only text of that view that names a
    // location: when that hop is hidden no location may be printed at all - also not one that a visible hop shares
    if app.show_map && !app.show_help && !app.show_settings {
        let panel_ttl = std::panic::catch_unwind(std::panic::AssertUnwindSafe(|| app.selected_hop_or_target().ttl())).unwrap_or(0);
        if panel_ttl != 0 && panel_ttl <= n {
            if let Some(tok) = at.keys().flat_map(|id| geo_sentinels(*id)).find(|tok| txt.contains(tok.as_str())) {
                fails.push(format!("C18:leak:map_info_panel_of_hidden_hop_{panel_ttl}_names_a_location:{tok}:{what}"));
            }
        }
    }
    for (id, ttls) in at {
        // an address is hidden when every hop it answered at is within the privacy range
        if ttls.iter().all(|t| *t <= n) {
            stats.hidden_addr_checks += 1;
            for tok in sentinels(id) {
                if visible_geo.contains(&tok) { continue; }
                if txt.contains(&tok) {
                    if Some(id) == target && !body.contains(&tok) {
                        fails.push(format!("C18:dest_in_header:ttl{}:{tok}:{what}", ttls.iter().next().unwrap()));
                    } else {
                        fails.push(format!("C18:leak:ttl{}:{tok}:{what}", ttls.iter().next().unwrap()));
                    }
                    break;
                }
            }
        }
    }
}

/// The map marks the location of ONE hop (the selected one, else the target) with a box.  When that hop is hidden and no visible hop
/// of the flow on display is at the same location, nothing in the colour of that box may be drawn: the box would show where the
/// hidden hop is.  (A visible hop at the same location has the box drawn around its own pin, which discloses nothing new.)
fn map_box_rule(app: &mut TuiApp, w: u16, h: u16, what: &str, fails: &mut Vec<String>) {
    let Some(n) = app.tui_config.privacy_max_ttl else { return };
    if !app.show_map || app.show_help || app.show_settings { return; }
    let Ok((panel_ttl, panel_ids)) = std::panic::catch_unwind(std::panic::AssertUnwindSafe(|| {
        let hop = app.selected_hop_or_target();
        (hop.ttl(), hop.addrs().filter_map(id_of).collect::<Vec<u32>>())
    })) else { return };
    if panel_ttl == 0 || panel_ttl > n { return; }
    let located = |id: &u32| id % 3 == 0;
    let visible_groups: BTreeSet<u32> = app.tracer_data().hops_for_flow(app.selected_flow).iter().filter(|hp| hp.ttl() > n)
        .flat_map(|hp| hp.addrs().filter_map(id_of).collect::<Vec<u32>>()).filter(located).map(geo_group).collect();
    if panel_ids.iter().filter(|id| located(id)).any(|id| visible_groups.contains(&geo_group(*id))) { return; }
    let marker = ratatui::style::Color::Indexed(201);
    let saved = app.tui_config.theme.map_selected;
    app.tui_config.theme.map_selected = marker;
    let r = std::panic::catch_unwind(std::panic::AssertUnwindSafe(|| crate::tuikit::draw_counting(app, w, h, marker)));
    app.tui_config.theme.map_selected = saved;
    if let Ok((_, cells)) = r {
        if cells > 0 { fails.push(format!("C18:leak:map_selection_box_drawn_for_hidden_hop_{panel_ttl}_({cells}_cells):{what}")); }
    }
}


// ---------------------------------------------------------------- the text of the reference screens

/// lines trimmed, trailing empty lines dropped, ' ' -> '_', '~' -> '$', joined by '~'
fn canon(lines: &[String]) -> String {
    let mut ls: Vec<String> = lines.iter().map(|l| l.trim().replace('~', "$").replace(' ', "_")).collect();
    while ls.last().is_some_and(String::is_empty) {
        ls.pop();
    }
    ls.join("~")
}

fn find_sub(hay: &[char], needle: &str) -> Option<usize> {
    let n: Vec<char> = needle.chars().collect();
    if n.is_empty() || hay.len() < n.len() { return None; }
    (0..=hay.len() - n.len()).find(|i| hay[*i..*i + n.len()] == n[..])
}

/// The Host cell of every row of the hop table, read off a frame drawn with the columns `#`, `Host`, `Loss%`: the columns are
/// located by the header row, a row starts where the `#` column is not empty.  -> (canonical text, height in screen lines) per row
fn host_cells(txt: &str) -> Option<Vec<(String, usize)>> {
    let lines: Vec<Vec<char>> = txt.lines().map(|l| l.chars().collect()).collect();
    let (hi, x_ttl, x_host, x_next) = lines.iter().enumerate().find_map(|(i, l)| {
        let x_ttl = find_sub(l, "#")?;
        let x_host = find_sub(l, "Host")?;
        let x_next = find_sub(l, "Loss%")?;
        if l.first() == Some(&'│') && l[1..x_ttl].iter().all(|c| *c == ' ') && x_ttl < x_host && x_host < x_next { Some((i, x_ttl, x_host, x_next)) } else { None }
    })?;
    let mut rows: Vec<Vec<String>> = vec![];
    for l in &lines[hi + 1..] {
        if l.first() != Some(&'│') || l.len() < x_next { break; }
        let ttl: String = l[x_ttl..x_host].iter().collect();
        let host: String = l[x_host..x_next].iter().collect();
        if !ttl.trim().is_empty() {
            rows.push(vec![]);
        }
        rows.last_mut()?.push(host);
    }
    Some(rows.iter().map(|r| (canon(r), r.len())).collect())
}

/// Title and text of the info panel of the map (the only box with rounded corners whose title starts with "Hop ")
fn map_panel(txt: &str) -> Option<String> {
    let lines: Vec<Vec<char>> = txt.lines().map(|l| l.chars().collect()).collect();
    let (r, x0) = lines.iter().enumerate().skip(4).find_map(|(i, l)| find_sub(l, "╭Hop ").map(|x| (i, x)))?;
    let x1 = x0 + lines[r][x0..].iter().position(|c| *c == '╮')?;
    let title: String = lines[r][x0 + 1..x1].iter().collect::<String>().trim_end_matches('─').to_string();
    let body: String = lines.get(r + 1)?.get(x0 + 1..x1)?.iter().collect();
    Some(canon(&[title, body]))
}

fn hop_token(h: &trippy_core::Hop) -> Option<String> {
    let mut t = format!("{}r{}", h.ttl(), h.total_recv());
    for (a, c) in h.addrs_with_counts() {
        t.push_str(&format!("a{}x{c}", id_of(a)?));
    }
    Some(t)
}

/// One reference screen: which fields of the application are overridden (None: as the application state has it).
#[derive(Clone, Copy)]
struct TextDraw {
    map: bool,
    am: Option<usize>,
    asm: Option<usize>, // 0 off, 1..6 AS_MODES
    geo: usize,
    ma: Option<Option<u8>>,
    details: Option<bool>,
    sel: Option<Option<usize>>,
}

impl TextDraw {
    fn token(&self) -> String {
        let o = |x: Option<String>| x.unwrap_or_else(|| "k".to_string());
        let on = |x: Option<String>| x.unwrap_or_else(|| "n".to_string());
        format!(
            "{},a{},i{},g{},m{},d{},s{}",
            if self.map { 'w' } else { 't' },
            o(self.am.map(|v| v.to_string())),
            o(self.asm.map(|v| v.to_string())),
            self.geo,
            o(self.ma.map(|v| on(v.map(|n| n.to_string())))),
            o(self.details.map(|v| u8::from(v).to_string())),
            o(self.sel.map(|v| on(v.map(|n| n.to_string()))))
        )
    }
    fn apply(&self, app: &mut TuiApp) {
        app.show_help = false;
        app.show_settings = false;
        app.show_chart = false;
        app.show_map = self.map;
        if let Some(am) = self.am {
            app.tui_config.address_mode = [AddressMode::Ip, AddressMode::Host, AddressMode::Both][am];
        }
        match self.asm {
            None => {}
            Some(0) => app.tui_config.lookup_as_info = false,
            Some(m) => {
                app.tui_config.lookup_as_info = true;
                app.tui_config.as_mode = AS_MODES[m - 1];
            }
        }
        app.tui_config.geoip_mode = GEO_MODES[self.geo];
        if let Some(ma) = self.ma {
            app.tui_config.max_addrs = ma;
        }
        if let Some(d) = self.details {
            app.show_hop_details = d;
        }
        if let Some(sel) = self.sel {
            app.table_state.select(sel);
            app.selected_hop_address = 0;
        }
    }
}

/// splitmix64 step: the reference screens of a frame are a function of the case (number of ops) and the position of the frame in it
fn mix(mut z: u64) -> u64 {
    z = z.wrapping_add(0x9E37_79B9_7F4A_7C15);
    z = (z ^ (z >> 30)).wrapping_mul(0xBF58_476D_1CE4_E5B9);
    z = (z ^ (z >> 27)).wrapping_mul(0x94D0_49BB_1331_11EB);
    z ^ (z >> 31)
}

/// Draw the reference screens of one frame and read the text off them.  -> (suffix of the frame op, text appended to the frame's output)
fn text_reference(app: &mut TuiApp, n_ops: usize, i: usize) -> Option<(String, String)> {
    let hops: Vec<trippy_core::Hop> = app.tracer_data().hops_for_flow(app.selected_flow).to_vec();
    let hop_tokens: Vec<String> = hops.iter().map(hop_token).collect::<Option<Vec<_>>>()?;
    let target = std::panic::catch_unwind(std::panic::AssertUnwindSafe(|| hop_token(app.tracer_data().target_hop(app.selected_flow)))).ok()??;
    let has_error = app.tracer_data().error().is_some();
    let no_data = app.tracer_data().hops().is_empty();
    let hop_count = hops.len();
    let n = app.tui_config.privacy_max_ttl.map_or(0, usize::from);
    let first_ttl = hops.first().map_or(1, |h| usize::from(h.ttl()).max(1));
    let mut k = mix((n_ops as u64) << 32 | i as u64);
    let mut digit = |m: u64| {
        let d = k % m;
        k = mix(k);
        d as usize
    };
    let row = |d: usize| -> Option<Option<usize>> {
        if hop_count == 0 { return None; }
        let r = match d {
            0 => return None,
            1 => return Some(None),
            2 => 0,
            3 => (n + 1).saturating_sub(first_ttl + 1),
            4 => (n + 1).saturating_sub(first_ttl),
            _ => hop_count - 1,
        };
        Some(Some(r.min(hop_count - 1)))
    };
    let as_is = TextDraw { map: false, am: None, asm: None, geo: 0, ma: None, details: None, sel: None };
    let details = digit(2) == 1;
    let cell = TextDraw {
        map: false,
        am: Some(digit(3)),
        asm: Some(digit(7)),
        geo: digit(4),
        ma: Some([None, Some(1), Some(3), Some(2)][digit(4)]),
        details: Some(details),
        sel: if details { row(2 + digit(4)) } else { row(digit(6)) },
    };
    let map = TextDraw { map: true, am: None, asm: None, geo: 0, ma: None, details: None, sel: row(digit(6)) };
    let saved = save(app);
    let saved_cols = app.tui_config.tui_columns.clone();
    let lines: usize = hops.iter().map(|h| h.addr_count().max(1)).sum();
    let mut outs = vec![];
    let mut toks = vec![];
    for d in [as_is, cell, map] {
        d.apply(app);
        app.tui_config.tui_columns = trippy_tui::verif_frontend::TuiColumns::try_from("hol").expect("columns").into();
        *app.table_state.offset_mut() = 0;
        let out = if has_error {
            "?".to_string()
        } else if no_data {
            "-".to_string()
        } else if d.map {
            // the marks of the map are graphics: the pins are counted by their label, the selection box by its colour
            let marker = ratatui::style::Color::Indexed(201);
            let saved_colour = app.tui_config.theme.map_selected;
            app.tui_config.theme.map_selected = marker;
            let (t, cells) = crate::tuikit::draw_counting(app, 250, 80, marker);
            app.tui_config.theme.map_selected = saved_colour;
            format!("{}#{}{}", map_panel(&t).unwrap_or_else(|| "nopanel".to_string()), t.matches('📍').count(), if cells > 0 { 'b' } else { '-' })
        } else {
            match host_cells(&draw(app, 250, (lines + 40).min(2000) as u16)) {
                None => "notable".to_string(),
                Some(rows) => {
                    let last = rows.len().saturating_sub(1);
                    rows.iter().enumerate().map(|(j, (t, h))| if j < last { format!("{t}^{h}") } else { t.clone() }).collect::<Vec<_>>().join("|")
                }
            }
        };
        app.tui_config.tui_columns = saved_cols.clone();
        restore(app, &saved);
        toks.push(d.token());
        outs.push(out);
    }
    // the "Target: source -> destination" line of the header (drawn in every state, also on the error and the splash screen)
    let header = draw(app, 250, 40);
    let target_line = header
        .lines()
        .find_map(|l| l.find("Target: ").map(|x| l[x..].split("  ").next().unwrap_or("").trim_end_matches('│').to_string()))
        .unwrap_or_else(|| "notarget".to_string());
    // whether the source is printed with its host name depends on the state of the resolver cache (the clear_dns_cache key empties it):
    // what is compared is whether the source is there at all, "<src>", or the placeholder
    let target_line = match target_line.split_once(" -> ") {
        Some((l, r)) if l.starts_with("Target: 192.168.77.1") => format!("Target: <src> -> {r}"),
        _ => target_line,
    };
    outs.insert(0, canon(&[target_line]));
    Some((
        format!("{}/{}/{}", if hop_tokens.is_empty() { "-".to_string() } else { hop_tokens.join(".") }, target, toks.join("+")),
        outs.iter().map(|o| format!("!{o}")).collect(),
    ))
}

#[derive(Default, Clone)]
pub struct Stats {
    pub screens_searched: usize,
    pub hidden_addr_checks: usize,
    pub variant_draws: usize,
    pub reference_draws: usize,
    pub text_draws: usize,
    pub text_rows: usize,
}

const VIEWS: usize = 12; // as is, table, chart, map, help, settings 0..6
const SELS: usize = 5;
const AS_MODES: [AsMode; 6] = [AsMode::Asn, AsMode::Prefix, AsMode::CountryCode, AsMode::Registry, AsMode::Allocated, AsMode::Name];
const GEO_MODES: [GeoIpMode; 4] = [GeoIpMode::Off, GeoIpMode::Short, GeoIpMode::Long, GeoIpMode::Location];
const VSIZES: [(u16, u16); 4] = [(80, 24), (120, 40), (200, 60), (40, 12)];

fn apply_combo(app: &mut TuiApp, k: usize) -> (String, (u16, u16)) {
    let mut k = k;
    let mut digit = |n: usize| {
        let d = k % n;
        k /= n;
        d
    };
    let view = digit(VIEWS);
    let sel = digit(SELS);
    let details = digit(2);
    let am = digit(3);
    let asm = digit(7);
    let geo = digit(4);
    let ma = digit(3);
    let size = VSIZES[digit(4)];
    match view {
        0 => {}
        1 => {
            app.show_help = false;
            app.show_settings = false;
            app.show_chart = false;
            app.show_map = false;
        }
        2 => {
            app.show_help = false;
            app.show_settings = false;
            app.show_chart = true;
            app.show_map = false;
        }
        3 => {
            app.show_help = false;
            app.show_settings = false;
            app.show_chart = false;
            app.show_map = true;
        }
        4 => {
            app.show_settings = false;
            app.show_help = true;
        }
        t => {
            app.show_help = false;
            app.show_settings = true;
            app.settings_tab_selected = t - 5;
        }
    }
    let hop_count = app.tracer_data().hops_for_flow(app.selected_flow).len();
    let n = app.tui_config.privacy_max_ttl.map_or(0, usize::from);
    let first_ttl = app.tracer_data().hops_for_flow(app.selected_flow).first().map_or(1, |h| usize::from(h.ttl()).max(1));
    if hop_count > 0 {
        let row = match sel {
            0 => None,
            1 => Some(0),
            2 => Some((n + 1).saturating_sub(first_ttl + 1)), // the last hidden row (ttl n)
            3 => Some((n + 1).saturating_sub(first_ttl)),     // the first visible row (ttl n + 1)
            _ => Some(hop_count - 1),
        };
        if let Some(r) = row {
            app.table_state.select(Some(r.min(hop_count - 1)));
            app.selected_hop_address = 0;
        }
    }
    if details == 1 {
        app.show_hop_details = true;
    }
    app.tui_config.address_mode = [AddressMode::Ip, AddressMode::Host, AddressMode::Both][am];
    if asm == 0 {
        app.tui_config.lookup_as_info = false;
    } else {
        app.tui_config.lookup_as_info = true;
        app.tui_config.as_mode = AS_MODES[asm - 1];
    }
    app.tui_config.geoip_mode = GEO_MODES[geo];
    app.tui_config.max_addrs = [None, Some(1), Some(3)][ma];
    (format!("v{view}s{sel}d{details}a{am}i{asm}g{geo}m{ma}@{}x{}", size.0, size.1), size)
}

/// `suffixes`: what `run` appends to the frame ops of the case line (op index, text)
fn hooks(variants_per_frame: usize, stats: std::sync::Arc<std::sync::Mutex<Stats>>, n_ops: usize, suffixes: std::sync::Arc<std::sync::Mutex<Vec<(usize, String)>>>) -> Hooks {
    Hooks {
        setup: Box::new(|c| {
            // every second case looks its GeoIP data up in a real (generated) MaxMind DB through the real reader and cache
            let db = c.ops.len() % 2 == 0;
            GEO_DB.store(db, Ordering::SeqCst);
            Setup {
                max_flows: c.max_flows.clone(),
                cols: c.cols.clone(),
                privacy: c.privacy,
                max_addrs: c.max_addrs,
                geoip_file: Some("sentinel.mmdb".to_string()),
                geoip_db: if db { Some(sentinel_db()) } else { None },
                target_sentinel: true,
                ..Setup::default()
            }
        }),
        seed: Box::new(seed_sentinel),
        per_frame: Box::new(move |sut, txt, i| {
            let mut fails = vec![];
            let mut st = Stats::default();
            let app = &mut sut.app;
            search(app, txt, &format!("op{i}:as_drawn"), &mut fails, &mut st);
            map_box_rule(app, 120, 40, &format!("op{i}:as_drawn"), &mut fails);
            let saved = save(app);
            // ---- the slice of the view matrix
            for _ in 0..variants_per_frame {
                let k = COMBO.fetch_add(1, Ordering::Relaxed);
                // a stride co-prime with every radix spreads consecutive draws over all dimensions
                let (what, (w, h)) = apply_combo(app, k.wrapping_mul(7919));
                let t = draw(app, w, h);
                st.variant_draws += 1;
                search(app, &t, &format!("op{i}:{what}"), &mut fails, &mut st);
                map_box_rule(app, w, h, &format!("op{i}:{what}"), &mut fails);
                restore(app, &saved);
            }
            // ---- the reference screen: table, IP mode, every row visible
            app.show_help = false;
            app.show_settings = false;
            app.show_chart = false;
            app.show_map = false;
            app.show_hop_details = false;
            app.tui_config.address_mode = AddressMode::Ip;
            app.tui_config.lookup_as_info = false;
            app.tui_config.geoip_mode = GeoIpMode::Off;
            app.tui_config.max_addrs = None;
            let hops: Vec<(u8, usize, Vec<u32>)> = app
                .tracer_data()
                .hops_for_flow(app.selected_flow)
                .iter()
                .map(|h| (h.ttl(), h.total_recv(), h.addrs().filter_map(id_of).collect()))
                .collect();
            let rows: usize = hops.iter().map(|(_, _, a)| a.len().max(1)).sum();
            let has_error = app.tracer_data().error().is_some();
            // the table keeps its scroll offset between frames: start from the top
            *app.table_state.offset_mut() = 0;
            let t = draw(app, 250, (rows + 24).min(2000) as u16);
            // the header (4 rows) names the destination, which may be the address of the last row
            let tbody: String = t.lines().skip(4).collect::<Vec<_>>().join("\n");
            st.reference_draws += 1;
            search(app, &t, &format!("op{i}:reference"), &mut fails, &mut st);
            restore(app, &saved);
            let cls: String = if has_error {
                // the error screen replaces the table: nothing can be read off it
                hops.iter().map(|_| '?').collect()
            } else {
                hops.iter()
                    .map(|(_, recv, ids)| {
                        if *recv == 0 {
                            'N'
                        } else if ids.iter().any(|id| tbody.contains(&format!("{}.77.77.77", 100 + id))) {
                            'V'
                        } else {
                            'H'
                        }
                    })
                    .collect()
            };
            if let Some(n) = app.tui_config.privacy_max_ttl {
                for ((ttl, recv, _), c) in hops.iter().zip(cls.chars()) {
                    if *recv > 0 && *ttl > n && c == 'H' {
                        fails.push(format!("C18:overhidden:ttl{ttl}>n{n}:op{i}"));
                    }
                }
            }
            // ---- the text of the reference screens (compared with Tui/Views.v)
            let mut text = String::new();
            if let Some((suffix, t)) = text_reference(app, n_ops, i) {
                st.text_draws += 3;
                st.text_rows += t.matches(['|', '!']).count();
                suffixes.lock().unwrap().push((i, suffix));
                text = t;
            }
            {
                let mut g = stats.lock().unwrap();
                g.text_draws += st.text_draws;
                g.text_rows += st.text_rows;
                g.screens_searched += st.screens_searched;
                g.hidden_addr_checks += st.hidden_addr_checks;
                g.variant_draws += st.variant_draws;
                g.reference_draws += st.reference_draws;
            }
            (fails, Some(format!("{}{text}", if cls.is_empty() { "-" } else { cls.as_str() })))
        }),
        privacy_only: true,
    }
}

// ---------------------------------------------------------------- generation

const KEYS: &[&str] = &[
    "expand_privacy", "expand_privacy", "expand_privacy", "contract_privacy", "contract_privacy", "next_hop", "next_hop",
    "previous_hop", "toggle_flows", "next_trace", "previous_trace", "toggle_hop_details", "toggle_chart", "toggle_map",
    "toggle_help", "toggle_settings", "toggle_freeze", "clear_trace_data", "clear_selection", "expand_hosts",
    "contract_hosts", "next_hop_address", "address_mode_host", "address_mode_both", "address_mode_ip", "toggle_as_info",
    "clear_dns_cache",
];

/// Every address id (< 90) is used at exactly one ttl; id 90 + t is the target of trace t.
pub fn random_case(seed_rng: &mut Rng) -> Case {
    let mut r = seed_rng.fork();
    let nt = if r.chance(4, 5) { 1 } else { 2 };
    let max_flows: Vec<usize> = (0..nt).map(|_| if nt == 1 { *r.pick(&[1usize, 2, 3, 4]) } else { 1 }).collect();
    let privacy = match r.below(4) {
        0 => None,
        1 => Some(0),
        _ => Some(r.range(1, 8) as u8),
    };
    let mut next_id = 0u32;
    let mut fresh = |r: &mut Rng| {
        next_id += 1;
        let _ = r;
        next_id.min(89)
    };
    let mut ops = vec![Op::Frame { w: 80, h: 24 }];
    let mut round = vec![0usize; nt];
    // the first ttl probed (--first-ttl): the rows of the table then do not start at ttl 1
    let first: Vec<u8> = (0..nt).map(|_| *r.pick(&[1u8, 1, 1, 2, 3, 4])).collect();
    let mut paths: Vec<Vec<Path>> = vec![vec![]; nt];
    for t in 0..nt {
        let len = r.range(1, 9) as usize;
        let reach = r.chance(2, 3);
        let mut p: Path = (0..len).map(|_| if r.chance(1, 7) { None } else { Some(fresh(&mut r)) }).collect();
        if reach {
            *p.last_mut().unwrap() = Some(90 + t as u32);
        }
        paths[t].push(p.clone());
        // ECMP variants: same length and target, other routers at some ttls (addresses stay at their ttl)
        for _ in 0..r.below(3) {
            let mut q = p.clone();
            for _ in 0..r.range(1, 2) {
                let i = r.below(len as u64) as usize;
                if i + 1 < len || !reach {
                    q[i] = Some(fresh(&mut r));
                }
            }
            // some alternative paths are shorter or longer than the first one (the flows then have different hop counts)
            if !reach && r.chance(1, 3) {
                if q.len() > 2 && r.chance(1, 2) { q.pop(); } else { q.push(Some(fresh(&mut r))); }
            }
            paths[t].push(q);
        }
    }
    let n_ops = r.range(12, 40) as usize;
    while ops.len() < n_ops {
        let k = r.below(100);
        if k < 25 {
            let (w, h) = *r.pick(&[(80u16, 24u16), (120, 40), (60, 20), (200, 60)]);
            ops.push(Op::Frame { w, h });
        } else if k < 50 {
            let t = r.below(nt as u64) as usize;
            round[t] += 1;
            let p = r.pick(&paths[t]).clone();
            let p: Path = p.iter().map(|h| if r.chance(1, 12) { None } else { *h }).collect();
            ops.push(round_of_path(t, round[t], first[t], &p, 0));
        } else {
            ops.push(Op::Key((*r.pick(KEYS)).to_string()));
            if r.chance(1, 2) {
                ops.push(Op::Frame { w: 100, h: 30 });
            }
        }
    }
    ops.push(Op::Frame { w: 120, h: 40 });
    Case { max_flows, cols: None, privacy, max_addrs: None, ops }
}

fn structured_cases() -> Vec<Case> {
    let k = |s: &str| Op::Key(s.to_string());
    let f = |w, h| Op::Frame { w, h };
    let path = |ids: &[u32]| -> Path { ids.iter().map(|i| if *i == 0 { None } else { Some(*i) }).collect() };
    let mut v = vec![];
    // walk n over off, 0 .. hop_count and back, frames in between; two addresses at ttl 2
    let mut ops = vec![f(80, 24), round_of_path(0, 1, 1, &path(&[1, 2, 3, 0, 5, 6]), 0), round_of_path(0, 2, 1, &path(&[1, 7, 3, 0, 5, 6]), 0), f(120, 40)];
    for _ in 0..9 {
        ops.push(k("expand_privacy"));
        ops.push(f(120, 40));
    }
    for _ in 0..9 {
        ops.push(k("contract_privacy"));
        ops.push(f(100, 30));
    }
    v.push(Case { max_flows: vec![1], cols: None, privacy: None, max_addrs: None, ops });
    // the target hop inside the hidden range (header destination), flows, selection on hidden rows
    v.push(Case {
        max_flows: vec![3],
        cols: None,
        privacy: Some(4),
        max_addrs: None,
        ops: vec![
            f(80, 24),
            round_of_path(0, 1, 1, &path(&[1, 2, 3, 90]), 0),
            round_of_path(0, 2, 1, &path(&[1, 8, 3, 90]), 0),
            f(120, 40), k("next_hop"), k("toggle_hop_details"), f(120, 40), k("toggle_flows"), f(120, 40), k("next_trace"), f(120, 40),
            k("toggle_map"), f(120, 40), k("toggle_chart"), f(120, 40), k("contract_privacy"), f(120, 40), k("contract_privacy"), f(120, 40),
        ],
    });
    // a hidden hop and a visible hop at the same GeoIP location (addresses 12 and 15 are one site): the map has ONE entry for both;
    // the info panel of the map, walked over every hop, with the privacy limit at 1, 2 and 3; once with seeded GeoIP data and once
    // (one more frame: the parity of the op count selects it) with the generated database behind the real reader
    for extra in [0usize, 1] {
        for n in [1u8, 2, 3] {
            let mut ops = vec![f(120, 40), round_of_path(0, 1, 1, &path(&[12, 13, 15, 14]), 0), round_of_path(0, 2, 1, &path(&[12, 13, 15, 14]), 0), f(120, 40), k("toggle_map"), f(120, 40), f(120, 40)];
            for _ in 0..4 {
                ops.push(k("next_hop"));
                ops.push(f(120, 40));
            }
            if (ops.len() + extra) % 2 == 1 { ops.push(f(100, 30)); }
            v.push(Case { max_flows: vec![1], cols: None, privacy: Some(n), max_addrs: None, ops });
        }
    }
    // two flows of different length (4 and 5 hops): with the flows view open and either flow selected, expanding privacy stops at the hop
    // count of the flow ON DISPLAY
    for first_flow_long in [false, true] {
        let (a, b): (&[u32], &[u32]) = if first_flow_long { (&[1, 5, 6, 7, 8], &[1, 2, 3, 4]) } else { (&[1, 2, 3, 4], &[1, 5, 6, 7, 8]) };
        let mut ops = vec![f(120, 40), round_of_path(0, 1, 1, &path(a), 0), round_of_path(0, 2, 1, &path(b), 0), round_of_path(0, 3, 1, &path(a), 0), f(120, 40), k("toggle_flows"), f(120, 40)];
        for _ in 0..7 { ops.push(k("expand_privacy")); ops.push(f(120, 40)); }
        ops.push(k("next_trace")); // next flow while the flows view is open
        ops.push(f(120, 40));
        for _ in 0..7 { ops.push(k("expand_privacy")); ops.push(f(120, 40)); }
        for _ in 0..8 { ops.push(k("contract_privacy")); ops.push(f(120, 40)); }
        v.push(Case { max_flows: vec![4], cols: None, privacy: None, max_addrs: None, ops });
    }
    // located hops at three different sites (ids 3, 6, 9), map view, every hop selected in turn, privacy 1..3
    for n in [1u8, 2, 3] {
        let mut ops = vec![f(120, 40), round_of_path(0, 1, 1, &path(&[3, 6, 9, 12]), 0), round_of_path(0, 2, 1, &path(&[3, 6, 9, 12]), 0), f(120, 40), k("toggle_map"), f(120, 40), f(120, 40)];
        for _ in 0..4 {
            ops.push(k("next_hop"));
            ops.push(f(120, 40));
        }
        if ops.len() % 2 == 0 { ops.push(f(100, 30)); }
        v.push(Case { max_flows: vec![1], cols: None, privacy: Some(n), max_addrs: None, ops });
    }
    v
}

pub fn run(args: &Args, out: &mut Out) {
    let stats = std::sync::Arc::new(std::sync::Mutex::new(Stats::default()));
    let variants = if args.tier_thorough { 40 } else { 10 };
    let mut n_cases = 0usize;
    let mut n_frames = 0usize;
    let mut emit = |c: &Case, out: &mut Out| {
        let suffixes = std::sync::Arc::new(std::sync::Mutex::new(vec![]));
        let o = run_case("c18", c, hooks(variants, stats.clone(), c.ops.len(), suffixes.clone()));
        // the frame ops of the line get what the text of their reference screens was computed from (ignored when the line is replayed)
        let mut input = o.input.clone();
        if let Some((head, ops)) = o.input.split_once(" ops=") {
            let mut toks: Vec<String> = ops.split(';').map(str::to_string).collect();
            for (i, sfx) in suffixes.lock().unwrap().iter() {
                if let Some(t) = toks.get_mut(*i) {
                    if t.starts_with("F:") && !t.contains('=') {
                        t.push('=');
                        t.push_str(sfx);
                    }
                }
            }
            input = format!("{head} ops={}", toks.join(";"));
        }
        out.case(&input, &o.output, &o.oracle);
        n_cases += 1;
        n_frames += o.frames;
    };
    if let Some(p) = &args.replay {
        for line in crate::replay_inputs(p) {
            if let Some(c) = parse_case(&line) {
                emit(&c, out);
            }
        }
    } else {
        for c in structured_cases() {
            emit(&c, out);
        }
        let mut r = Rng::new(args.seed ^ 0xC18);
        let n = args.n.unwrap_or(if args.tier_thorough { 1500 } else { 250 });
        for _ in 0..n {
            let c = random_case(&mut r);
            emit(&c, out);
        }
    }
    let g = stats.lock().unwrap();
    out.stat("cases", n_cases);
    out.stat("frames", n_frames);
    out.stat("variant_draws", g.variant_draws);
    out.stat("reference_draws", g.reference_draws);
    out.stat("text_reference_draws", g.text_draws);
    out.stat("text_rows_and_panels_compared", g.text_rows);
    out.stat("screens_searched_with_privacy_on", g.screens_searched);
    out.stat("hidden_address_checks", g.hidden_addr_checks);
    out.stat("view_matrix_size", VIEWS * SELS * 2 * 3 * 7 * 4 * 3 * 4);
}
