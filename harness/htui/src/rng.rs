//! One splitmix64 stream; every random choice of a run derives from it.
#[derive(Clone)]
pub struct Rng(pub u64);

impl Rng {
    pub fn new(seed: u64) -> Self {
        Self(seed.wrapping_mul(0x9E37_79B9_7F4A_7C15) ^ 0xD1B5_4A32_D192_ED03)
    }
    pub fn next(&mut self) -> u64 {
        self.0 = self.0.wrapping_add(0x9E37_79B9_7F4A_7C15);
        let mut z = self.0;
        z = (z ^ (z >> 30)).wrapping_mul(0xBF58_476D_1CE4_E5B9);
        z = (z ^ (z >> 27)).wrapping_mul(0x94D0_49BB_1331_11EB);
        z ^ (z >> 31)
    }
    /// uniform in 0..n (n > 0)
    pub fn below(&mut self, n: u64) -> u64 {
        self.next() % n
    }
    /// uniform in lo..=hi
    pub fn range(&mut self, lo: u64, hi: u64) -> u64 {
        lo + self.below(hi - lo + 1)
    }
    pub fn chance(&mut self, num: u64, den: u64) -> bool {
        self.below(den) < num
    }
    pub fn pick<'a, T>(&mut self, xs: &'a [T]) -> &'a T {
        &xs[self.below(xs.len() as u64) as usize]
    }
    pub fn bytes(&mut self, n: usize) -> Vec<u8> {
        (0..n).map(|_| self.next() as u8).collect()
    }
    pub fn fork(&mut self) -> Rng {
        Rng(self.next())
    }
}

pub fn hex(b: &[u8]) -> String {
    if b.is_empty() {
        return "-".to_string();
    }
    let mut s = String::with_capacity(b.len() * 2);
    for x in b {
        s.push_str(&format!("{x:02x}"));
    }
    s
}

pub fn unhex(s: &str) -> Vec<u8> {
    if s == "-" {
        return vec![];
    }
    (0..s.len() / 2)
        .map(|i| u8::from_str_radix(&s[2 * i..2 * i + 2], 16).unwrap())
        .collect()
}
