//! Shared machinery for the C17 / C18 modes: a world of (never running) tracers fed with
//! `Tracer::verif_apply_round`, the real `TuiApp` on a ratatui `TestBackend`, the op language,
//! the observable selection state and the data shape.
//!
//! Op language (one token, ops joined by `;`):
//!   R<t>:<round>:<largest_ttl>:<probe>_<probe>…   publish a round on tracer t; probe = <ttl><c|a|f><addr-id>
//!   X<t>                                          Tracer::clear() on tracer t
//!   E<t>:<0|1>                                    reset / set the error of tracer t
//!   M:<method>                                    call the TuiApp method
//!   K:<binding>                                   deliver the key bound to <binding> through the dispatch table
//!   F:<w>:<h>                                     one frame: prologue (unless frozen) + render on a w x h TestBackend
//! Data ops are followed by `=<shape>`: the shape of the tracer's state after the op, which is what
//! the model consumes (it does not model trippy-core's State, only its shape).
//!
//! Shape: <max_flows>/<error 0|1>/<registry ids .-joined | ->/<flow>+<flow>…  with
//!        flow = <id>~<round_count>~<hop>.<hop>… | <id>~<round_count>~-   and hop = <addr_count>@<ttl>
use crossterm::event::{KeyEvent, KeyEventKind};
use ratatui::backend::TestBackend;
use ratatui::Terminal;
use std::net::{IpAddr, Ipv4Addr};
use std::panic::{catch_unwind, AssertUnwindSafe};
use std::time::{Duration, SystemTime};
use trippy_core::{
    Builder, CompletionReason, Flags, FlowId, IcmpPacketType, Port, Probe, ProbeComplete, ProbeStatus, Round, RoundId, Sequence, State, TimeToLive, TraceId, Tracer,
};
use trippy_core::verif::{IcmpPacketCode, ProbeFailed};
use trippy_dns::{Config as DnsConfig, DnsEntry, DnsResolver, IpAddrFamily, ResolveMethod, Unresolved};
use trippy_tui::verif_frontend::{
    render, set_locale, AddressMode, AsMode, GeoIpLookup, GeoIpMode, IcmpExtensionMode, TraceInfo, TuiApp,
    TuiBindings, TuiColumns, TuiConfig, TuiKeyBinding, TuiTheme, CTRL_C,
};

/// The address with a given id (ids < 100 give the distinctive `1xx.77.77.77` form used as sentinel by C18).
pub fn addr(id: u32) -> IpAddr {
    if id < 100 {
        IpAddr::V4(Ipv4Addr::new(100 + id as u8, 77, 77, 77))
    } else {
        IpAddr::V4(Ipv4Addr::new(10, (id >> 16) as u8, (id >> 8) as u8, id as u8))
    }
}

#[derive(Clone, Debug)]
pub struct ProbeSpec {
    pub ttl: u8,
    pub kind: char, // c a f
    pub addr: u32,
}

#[derive(Clone, Debug)]
pub enum Op {
    Round { t: usize, round: usize, largest: u8, probes: Vec<ProbeSpec> },
    Clear { t: usize },
    Error { t: usize, on: bool },
    Method(String),
    Key(String),
    Frame { w: u16, h: u16 },
    /// the wall clock steps by so many seconds (negative: it is set back); not an operation of the application
    Clock(i64),
}

/// Offset added to CLOCK_REALTIME as the process sees it (the harness binary interposes `clock_gettime`; the monotonic clock used by
/// the watchdog is not touched).
pub static WALL_CLOCK_OFFSET_S: std::sync::atomic::AtomicI64 = std::sync::atomic::AtomicI64::new(0);

#[repr(C)]
pub struct Timespec {
    tv_sec: i64,
    tv_nsec: i64,
}

/// # Safety
/// called by libc users with a valid pointer
#[no_mangle]
pub unsafe extern "C" fn clock_gettime(clk: i32, ts: *mut Timespec) -> i32 {
    let r = libc::syscall(libc::SYS_clock_gettime, libc::c_long::from(clk), ts) as i32;
    if r == 0 && clk == 0 {
        (*ts).tv_sec += WALL_CLOCK_OFFSET_S.load(std::sync::atomic::Ordering::SeqCst);
    }
    r
}

impl Op {
    pub fn is_data(&self) -> bool {
        matches!(self, Op::Round { .. } | Op::Clear { .. } | Op::Error { .. })
    }
    pub fn fmt(&self) -> String {
        match self {
            Op::Round { t, round, largest, probes } => {
                let ps: Vec<String> = probes
                    .iter()
                    .map(|p| if p.kind == 'c' { format!("{}c{}", p.ttl, p.addr) } else { format!("{}{}", p.ttl, p.kind) })
                    .collect();
                format!("R{t}:{round}:{largest}:{}", if ps.is_empty() { "-".to_string() } else { ps.join("_") })
            }
            Op::Clear { t } => format!("X{t}"),
            Op::Error { t, on } => format!("E{t}:{}", u8::from(*on)),
            Op::Method(m) => format!("M:{m}"),
            Op::Key(k) => format!("K:{k}"),
            Op::Frame { w, h } => format!("F:{w}:{h}"),
            Op::Clock(d) => format!("T:{d}"),
        }
    }
    pub fn parse(s: &str) -> Option<Op> {
        let s = s.split('=').next().unwrap();
        let f: Vec<&str> = s.split(':').collect();
        match s.chars().next()? {
            'R' => {
                let t = f[0][1..].parse().ok()?;
                let round = f[1].parse().ok()?;
                let largest = f[2].parse().ok()?;
                let mut probes = vec![];
                if f[3] != "-" {
                    for p in f[3].split('_') {
                        let pos = p.find(|c: char| c.is_ascii_alphabetic())?;
                        let ttl = p[..pos].parse().ok()?;
                        let kind = p[pos..].chars().next()?;
                        let addr = if kind == 'c' { p[pos + 1..].parse().ok()? } else { 0 };
                        probes.push(ProbeSpec { ttl, kind, addr });
                    }
                }
                Some(Op::Round { t, round, largest, probes })
            }
            'X' => Some(Op::Clear { t: f[0][1..].parse().ok()? }),
            'E' => Some(Op::Error { t: f[0][1..].parse().ok()?, on: f[1] == "1" }),
            'M' => Some(Op::Method(f[1].to_string())),
            'K' => Some(Op::Key(f[1].to_string())),
            'F' => Some(Op::Frame { w: f[1].parse().ok()?, h: f[2].parse().ok()? }),
            'T' => Some(Op::Clock(f[1].parse().ok()?)),
            _ => None,
        }
    }
}

pub fn parse_ops(s: &str) -> Vec<Op> {
    if s == "-" {
        return vec![];
    }
    s.split(';').filter_map(Op::parse).collect()
}

/// A tracer that is never run: `Builder::build()` performs no system call.
pub fn mk_tracer(target: IpAddr, max_flows: usize, max_samples: usize, trace_id: u16) -> Tracer {
    let t = Builder::new(target)
        .trace_identifier(trace_id)
        .max_flows(max_flows)
        .max_samples(max_samples)
        .build()
        .expect("builder");
    t.verif_set_source_addr(IpAddr::V4(Ipv4Addr::new(192, 168, 77, 1)));
    t
}

pub fn apply_round(tr: &Tracer, round: usize, largest: u8, probes: &[ProbeSpec]) {
    let base = SystemTime::UNIX_EPOCH + Duration::from_secs(1_700_000_000 + round as u64);
    let ps: Vec<ProbeStatus> = probes
        .iter()
        .enumerate()
        .map(|(i, p)| {
            let seq = Sequence(33000 + (i as u16));
            match p.kind {
                'c' => ProbeStatus::Complete(ProbeComplete {
                    sequence: seq,
                    identifier: TraceId(0),
                    src_port: Port(0),
                    dest_port: Port(0),
                    ttl: TimeToLive(p.ttl),
                    round: RoundId(round),
                    sent: base,
                    host: addr(p.addr),
                    received: base + Duration::from_micros(1000 + 731 * u64::from(p.ttl) + 37 * u64::from(p.addr % 11) + 13 * (round as u64 % 17)),
                    icmp_packet_type: IcmpPacketType::TimeExceeded(IcmpPacketCode(0)),
                    tos: None,
                    expected_udp_checksum: None,
                    actual_udp_checksum: None,
                    extensions: None,
                }),
                'f' => ProbeStatus::Failed(ProbeFailed {
                    sequence: seq,
                    identifier: TraceId(0),
                    src_port: Port(0),
                    dest_port: Port(0),
                    ttl: TimeToLive(p.ttl),
                    round: RoundId(round),
                    sent: base,
                }),
                _ => ProbeStatus::Awaited(Probe {
                    sequence: seq,
                    identifier: TraceId(0),
                    src_port: Port(0),
                    dest_port: Port(0),
                    ttl: TimeToLive(p.ttl),
                    round: RoundId(round),
                    sent: base,
                    flags: Flags::empty(),
                }),
            }
        })
        .collect();
    let r = Round::new(&ps, TimeToLive(largest), CompletionReason::TargetFound);
    tr.verif_apply_round(&r);
}

/// The shape of a `State` as seen through its public accessors (model-free; each accessor under catch_unwind).
pub fn shape_of_state(st: &State) -> String {
    let reg: Vec<u64> = st.flows().iter().map(|(_, id)| id.0).collect();
    let mut ids = vec![0u64];
    for r in &reg {
        if !ids.contains(r) {
            ids.push(*r);
        }
    }
    let mut flows = vec![];
    for id in ids {
        let r = catch_unwind(AssertUnwindSafe(|| {
            let hops = st.hops_for_flow(FlowId(id));
            let hs: Vec<String> = hops.iter().map(|h| format!("{}@{}", h.addr_count(), h.ttl())).collect();
            (st.round_count(FlowId(id)), hs)
        }));
        if let Ok((rc, hs)) = r {
            flows.push(format!("{id}~{rc}~{}", if hs.is_empty() { "-".to_string() } else { hs.join(".") }));
        }
    }
    format!(
        "{}/{}/{}/{}",
        st.max_flows(),
        u8::from(st.error().is_some()),
        if reg.is_empty() { "-".to_string() } else { reg.iter().map(u64::to_string).collect::<Vec<_>>().join(".") },
        if flows.is_empty() { "-".to_string() } else { flows.join("+") }
    )
}

pub fn shape_of(tr: &Tracer) -> String {
    shape_of_state(&tr.snapshot())
}

pub struct Setup {
    pub max_flows: Vec<usize>,
    pub cols: Option<String>,
    pub privacy: Option<u8>,
    pub max_addrs: Option<u8>,
    pub address_mode: AddressMode,
    pub lookup_as_info: bool,
    pub as_mode: AsMode,
    pub geoip_mode: GeoIpMode,
    pub geoip_file: Option<String>,
    /// the bytes of a MaxMind DB to load with `GeoIpLookup::from_file` (None: the empty lookup, seeded through the hook)
    pub geoip_db: Option<Vec<u8>>,
    /// time-to-live of the entries of the DNS cache in seconds (the default never lets a seeded entry go stale)
    pub dns_ttl_s: u64,
    /// the targets are IPv6 addresses (settings rows and address formatting differ by family)
    pub target_v6: bool,
    /// the target of trace t is the sentinel address 90 + t (C18) instead of 203.0.113.x
    pub target_sentinel: bool,
}

impl Default for Setup {
    fn default() -> Self {
        Self {
            max_flows: vec![1],
            cols: None,
            privacy: None,
            max_addrs: None,
            address_mode: AddressMode::Ip,
            lookup_as_info: false,
            as_mode: AsMode::Asn,
            geoip_mode: GeoIpMode::Off,
            geoip_file: None,
            geoip_db: None,
            dns_ttl_s: 1 << 30,
            target_v6: false,
            target_sentinel: false,
        }
    }
}

/// One record of the generated GeoIP database.
#[derive(Clone, Default)]
pub struct GeoRec {
    pub lat: Option<f64>,
    pub long: Option<f64>,
    pub radius: Option<u16>,
    pub city: Option<String>,
    pub sub: Option<String>,
    pub sub_code: Option<String>,
    pub country: Option<String>,
    pub country_code: Option<String>,
    pub continent: Option<String>,
}

/// A well-formed MaxMind DB (format 2.0, GeoLite2-City layout, IPv4, 24-bit records) keyed on the FIRST octet of the address:
/// a complete 8-level search tree (255 nodes) whose leaves point at the record `rec(first_octet)` or at "not found".
/// With it the lookups of the views go through the real `maxminddb` reader and the real cache of `GeoIpLookup`.
pub fn first_octet_mmdb(rec: &dyn Fn(u8) -> Option<GeoRec>) -> Vec<u8> {
    fn st(out: &mut Vec<u8>, s: &str) {
        assert!(s.len() < 29);
        out.push(0x40 | s.len() as u8);
        out.extend_from_slice(s.as_bytes());
    }
    fn map(out: &mut Vec<u8>, n: usize) { out.push(0xe0 | n as u8); }
    fn u16v(out: &mut Vec<u8>, v: u16) { out.push(0xa0 | 2); out.extend_from_slice(&v.to_be_bytes()); }
    fn u32v(out: &mut Vec<u8>, v: u32) { out.push(0xc0 | 4); out.extend_from_slice(&v.to_be_bytes()); }
    fn u64v(out: &mut Vec<u8>, v: u64) { out.push(8); out.push(9 - 7); out.extend_from_slice(&v.to_be_bytes()); }
    fn f64v(out: &mut Vec<u8>, v: f64) { out.push(0x60 | 8); out.extend_from_slice(&v.to_be_bytes()); }
    fn names(out: &mut Vec<u8>, n: &str) { st(out, "names"); map(out, 1); st(out, "en"); st(out, n); }
    const NODES: u32 = 255;
    // the data section first (offsets are needed by the tree)
    let mut data = vec![];
    let mut off: Vec<Option<u32>> = vec![None; 256];
    for v in 0..=255u8 {
        let Some(r) = rec(v) else { continue };
        off[usize::from(v)] = Some(data.len() as u32);
        let nsec = usize::from(r.city.is_some()) + usize::from(r.sub.is_some() || r.sub_code.is_some()) + usize::from(r.country.is_some() || r.country_code.is_some())
            + usize::from(r.continent.is_some()) + usize::from(r.lat.is_some() || r.long.is_some() || r.radius.is_some());
        map(&mut data, nsec);
        if let Some(c) = &r.city { st(&mut data, "city"); map(&mut data, 1); names(&mut data, c); }
        if r.sub.is_some() || r.sub_code.is_some() {
            st(&mut data, "subdivisions");
            data.push(1); data.push(11 - 7); // array of one
            map(&mut data, usize::from(r.sub.is_some()) + usize::from(r.sub_code.is_some()));
            if let Some(c) = &r.sub_code { st(&mut data, "iso_code"); st(&mut data, c); }
            if let Some(c) = &r.sub { names(&mut data, c); }
        }
        if r.country.is_some() || r.country_code.is_some() {
            st(&mut data, "country");
            map(&mut data, usize::from(r.country.is_some()) + usize::from(r.country_code.is_some()));
            if let Some(c) = &r.country_code { st(&mut data, "iso_code"); st(&mut data, c); }
            if let Some(c) = &r.country { names(&mut data, c); }
        }
        if let Some(c) = &r.continent { st(&mut data, "continent"); map(&mut data, 1); names(&mut data, c); }
        if r.lat.is_some() || r.long.is_some() || r.radius.is_some() {
            st(&mut data, "location");
            map(&mut data, usize::from(r.lat.is_some()) + usize::from(r.long.is_some()) + usize::from(r.radius.is_some()));
            if let Some(x) = r.radius { st(&mut data, "accuracy_radius"); u16v(&mut data, x); }
            if let Some(x) = r.lat { st(&mut data, "latitude"); f64v(&mut data, x); }
            if let Some(x) = r.long { st(&mut data, "longitude"); f64v(&mut data, x); }
        }
    }
    let mut db = vec![];
    for level in 0..8u32 {
        for p in 0..(1u32 << level) {
            for bit in 0..2u32 {
                let child = p * 2 + bit;
                let val = if level < 7 { (1u32 << (level + 1)) - 1 + child } else { off[child as usize].map_or(NODES, |o| NODES + 16 + o) };
                db.extend_from_slice(&val.to_be_bytes()[1..]);
            }
        }
    }
    db.extend_from_slice(&[0; 16]);
    db.extend_from_slice(&data);
    db.extend_from_slice(b"\xab\xcd\xefMaxMind.com");
    map(&mut db, 9);
    st(&mut db, "binary_format_major_version"); u16v(&mut db, 2);
    st(&mut db, "binary_format_minor_version"); u16v(&mut db, 0);
    st(&mut db, "build_epoch"); u64v(&mut db, 1_700_000_000);
    st(&mut db, "database_type"); st(&mut db, "GeoLite2-City");
    st(&mut db, "description"); map(&mut db, 1); st(&mut db, "en"); st(&mut db, "generated");
    st(&mut db, "ip_version"); u16v(&mut db, 4);
    st(&mut db, "languages"); db.push(1); db.push(11 - 7); st(&mut db, "en");
    st(&mut db, "node_count"); u32v(&mut db, NODES);
    st(&mut db, "record_size"); u16v(&mut db, 24);
    db
}

pub struct Sut {
    pub app: TuiApp,
    pub tracers: Vec<Tracer>,
}

pub fn target_addr(t: usize) -> IpAddr {
    IpAddr::V4(Ipv4Addr::new(203, 0, 113, 10 + t as u8))
}

pub fn mk_sut(setup: &Setup) -> Sut {
    set_locale(Some("en"));
    let tracers: Vec<Tracer> = setup
        .max_flows
        .iter()
        .enumerate()
        .map(|(i, mf)| mk_tracer(if setup.target_sentinel { addr(90 + i as u32) } else if setup.target_v6 { IpAddr::V6(std::net::Ipv6Addr::new(0x2001, 0xdb8, 0, 0, 0, 0, 0x10, 10 + i as u16)) } else { target_addr(i) }, *mf, 64, 100 + i as u16))
        .collect();
    let cols = match &setup.cols {
        Some(c) => TuiColumns::try_from(c.as_str()).expect("columns"),
        None => TuiColumns::default(),
    };
    let cfg = TuiConfig::new(
        Duration::from_millis(100),
        setup.privacy,
        false,
        setup.address_mode,
        setup.lookup_as_info,
        setup.as_mode,
        IcmpExtensionMode::Off,
        setup.geoip_mode,
        setup.max_addrs,
        TuiTheme::default(),
        &TuiBindings::default(),
        &cols,
        setup.geoip_file.clone(),
        false,
        "en".to_string(),
        None,
    );
    // System resolver: no network object is created; a very long cache ttl keeps seeded entries
    let dns = DnsResolver::start(DnsConfig::new(
        ResolveMethod::System,
        IpAddrFamily::Ipv4thenIpv6,
        Duration::from_millis(10),
        Duration::from_secs(setup.dns_ttl_s),
    ))
    .expect("resolver");
    let infos: Vec<TraceInfo> = tracers
        .iter()
        .enumerate()
        .map(|(i, t)| TraceInfo::new(t.clone(), format!("target{i}.example")))
        .collect();
    let geo = match &setup.geoip_db {
        None => GeoIpLookup::empty(),
        Some(bytes) => {
            static N: std::sync::atomic::AtomicUsize = std::sync::atomic::AtomicUsize::new(0);
            let f = std::env::temp_dir().join(format!("htui-{}-{}.mmdb", std::process::id(), N.fetch_add(1, std::sync::atomic::Ordering::SeqCst)));
            std::fs::write(&f, bytes).expect("write mmdb");
            let g = GeoIpLookup::from_file(&f, "en".to_string()).expect("generated MaxMind DB must load");
            let _ = std::fs::remove_file(&f);
            g
        }
    };
    let app = TuiApp::new(cfg, dns, geo, infos);
    Sut { app, tracers }
}

/// Make sure no address is ever looked up for real (the sandbox has no DNS): every address the
/// views may ask for gets a cache entry first.
pub fn seed_not_found(app: &TuiApp, a: IpAddr) {
    app.resolver.verif_seed(a, DnsEntry::NotFound(Unresolved::Normal(a)));
}

pub fn screen_text(term: &Terminal<TestBackend>) -> String {
    let buf = term.backend().buffer();
    let w = buf.area.width as usize;
    let mut s = String::new();
    for (i, c) in buf.content().iter().enumerate() {
        if i > 0 && w > 0 && i % w == 0 {
            s.push('\n');
        }
        s.push_str(c.symbol());
    }
    s
}

/// The per-frame prologue of `run_app` (frontend.rs) followed by the draw.
pub fn frame(app: &mut TuiApp, w: u16, h: u16) -> String {
    if app.frozen_start.is_none() {
        app.snapshot_trace_data();
        app.clamp_selected_hop();
        app.update_order_flow_counts();
    }
    draw(app, w, h)
}

pub fn draw(app: &mut TuiApp, w: u16, h: u16) -> String {
    let mut term = Terminal::new(TestBackend::new(w, h)).expect("terminal");
    term.draw(|f| render(f, app)).expect("draw");
    screen_text(&term)
}

/// draw and count the cells whose foreground is `color` (graphics have no text to search for)
pub fn draw_counting(app: &mut TuiApp, w: u16, h: u16, color: ratatui::style::Color) -> (String, usize) {
    let mut term = Terminal::new(TestBackend::new(w, h)).expect("terminal");
    term.draw(|f| render(f, app)).expect("draw");
    let n = term.backend().buffer().content().iter().filter(|c| c.fg == color && c.symbol() != " ").count();
    (screen_text(&term), n)
}

pub const METHODS: &[&str] = &[
    "next_hop", "previous_hop", "next_trace", "previous_trace", "next_hop_address", "previous_hop_address",
    "next_flow", "previous_flow", "next_settings_tab", "previous_settings_tab", "next_settings_item",
    "previous_settings_item", "toggle_column_visibility", "move_column_down", "move_column_up", "clear",
    "toggle_help", "toggle_settings", "show_settings_columns_0", "show_settings_columns_1",
    "show_settings_columns_2", "show_settings_columns_3", "show_settings_columns_4", "show_settings_columns_5",
    "show_settings_columns_6", "toggle_hop_details", "toggle_freeze", "toggle_chart", "toggle_map",
    "toggle_flows", "expand_privacy", "contract_privacy", "toggle_asinfo", "expand_hosts", "contract_hosts",
    "zoom_in", "zoom_out", "expand_hosts_max", "contract_hosts_min", "clear_trace_data",
];

pub fn call_method(app: &mut TuiApp, m: &str) -> bool {
    match m {
        "next_hop" => app.next_hop(),
        "previous_hop" => app.previous_hop(),
        "next_trace" => app.next_trace(),
        "previous_trace" => app.previous_trace(),
        "next_hop_address" => app.next_hop_address(),
        "previous_hop_address" => app.previous_hop_address(),
        "next_flow" => app.next_flow(),
        "previous_flow" => app.previous_flow(),
        "next_settings_tab" => app.next_settings_tab(),
        "previous_settings_tab" => app.previous_settings_tab(),
        "next_settings_item" => app.next_settings_item(),
        "previous_settings_item" => app.previous_settings_item(),
        "toggle_column_visibility" => app.toggle_column_visibility(),
        "move_column_down" => app.move_column_down(),
        "move_column_up" => app.move_column_up(),
        "clear" => app.clear(),
        "toggle_help" => app.toggle_help(),
        "toggle_settings" => app.toggle_settings(),
        "toggle_hop_details" => app.toggle_hop_details(),
        "toggle_freeze" => app.toggle_freeze(),
        "toggle_chart" => app.toggle_chart(),
        "toggle_map" => app.toggle_map(),
        "toggle_flows" => app.toggle_flows(),
        "expand_privacy" => app.expand_privacy(),
        "contract_privacy" => app.contract_privacy(),
        "toggle_asinfo" => app.toggle_asinfo(),
        "expand_hosts" => app.expand_hosts(),
        "contract_hosts" => app.contract_hosts(),
        "zoom_in" => app.zoom_in(),
        "zoom_out" => app.zoom_out(),
        "expand_hosts_max" => app.expand_hosts_max(),
        "contract_hosts_min" => app.contract_hosts_min(),
        "clear_trace_data" => app.clear_trace_data(),
        _ => {
            if let Some(i) = m.strip_prefix("show_settings_columns_") {
                app.show_settings_columns(i.parse().unwrap());
            } else {
                return false;
            }
        }
    }
    true
}

pub const BINDINGS: &[&str] = &[
    "toggle_help", "toggle_help_alt", "toggle_settings", "toggle_settings_tui", "toggle_settings_trace",
    "toggle_settings_dns", "toggle_settings_geoip", "toggle_settings_bindings", "toggle_settings_theme",
    "toggle_settings_columns", "previous_hop", "next_hop", "previous_trace", "next_trace",
    "previous_hop_address", "next_hop_address", "address_mode_ip", "address_mode_host", "address_mode_both",
    "toggle_freeze", "toggle_chart", "toggle_map", "toggle_flows", "expand_privacy", "contract_privacy",
    "expand_hosts", "contract_hosts", "expand_hosts_max", "contract_hosts_min", "chart_zoom_in",
    "chart_zoom_out", "clear_trace_data", "clear_dns_cache", "clear_selection", "toggle_as_info",
    "toggle_hop_details", "quit", "quit_preserve_screen",
];

/// The key event of a binding of the default table (`TuiBindings::default()`), as crossterm would deliver it.
pub fn key_of(name: &str) -> Option<KeyEvent> {
    let b = TuiBindings::default();
    let k: TuiKeyBinding = match name {
        "toggle_help" => b.toggle_help,
        "toggle_help_alt" => b.toggle_help_alt,
        "toggle_settings" => b.toggle_settings,
        "toggle_settings_tui" => b.toggle_settings_tui,
        "toggle_settings_trace" => b.toggle_settings_trace,
        "toggle_settings_dns" => b.toggle_settings_dns,
        "toggle_settings_geoip" => b.toggle_settings_geoip,
        "toggle_settings_bindings" => b.toggle_settings_bindings,
        "toggle_settings_theme" => b.toggle_settings_theme,
        "toggle_settings_columns" => b.toggle_settings_columns,
        "previous_hop" => b.previous_hop,
        "next_hop" => b.next_hop,
        "previous_trace" => b.previous_trace,
        "next_trace" => b.next_trace,
        "previous_hop_address" => b.previous_hop_address,
        "next_hop_address" => b.next_hop_address,
        "address_mode_ip" => b.address_mode_ip,
        "address_mode_host" => b.address_mode_host,
        "address_mode_both" => b.address_mode_both,
        "toggle_freeze" => b.toggle_freeze,
        "toggle_chart" => b.toggle_chart,
        "toggle_map" => b.toggle_map,
        "toggle_flows" => b.toggle_flows,
        "expand_privacy" => b.expand_privacy,
        "contract_privacy" => b.contract_privacy,
        "expand_hosts" => b.expand_hosts,
        "contract_hosts" => b.contract_hosts,
        "expand_hosts_max" => b.expand_hosts_max,
        "contract_hosts_min" => b.contract_hosts_min,
        "chart_zoom_in" => b.chart_zoom_in,
        "chart_zoom_out" => b.chart_zoom_out,
        "clear_trace_data" => b.clear_trace_data,
        "clear_dns_cache" => b.clear_dns_cache,
        "clear_selection" => b.clear_selection,
        "toggle_as_info" => b.toggle_as_info,
        "toggle_hop_details" => b.toggle_hop_details,
        "quit" => b.quit,
        "quit_preserve_screen" => b.quit_preserve_screen,
        _ => return None,
    };
    Some(KeyEvent::new(k.code, k.modifier))
}

/// The key dispatch of `run_app` (frontend.rs lines 81-236).  `run_app` interleaves it with the
/// crossterm event loop, so it cannot be called from here; this is a transcription of the same
/// if-chain, in the same order, using the real `KeyBinding::check` of the app's binding table and
/// calling the same `TuiApp` methods.  Returns true when `run_app` would return (quit).
pub fn dispatch(app: &mut TuiApp, key: KeyEvent) -> bool {
    if key.kind != KeyEventKind::Press {
        return false;
    }
    let bindings = app.tui_config.bindings;
    if app.show_help {
        if bindings.toggle_help.check(key)
            || bindings.toggle_help_alt.check(key)
            || bindings.clear_selection.check(key)
            || bindings.quit.check(key)
        {
            app.toggle_help();
        } else if bindings.toggle_settings.check(key) {
            app.toggle_help();
            app.toggle_settings();
        } else if bindings.toggle_settings_tui.check(key) {
            app.toggle_help();
            app.show_settings_columns(0);
        } else if bindings.toggle_settings_trace.check(key) {
            app.toggle_help();
            app.show_settings_columns(1);
        } else if bindings.toggle_settings_dns.check(key) {
            app.toggle_help();
            app.show_settings_columns(2);
        } else if bindings.toggle_settings_geoip.check(key) {
            app.toggle_help();
            app.show_settings_columns(3);
        } else if bindings.toggle_settings_bindings.check(key) {
            app.toggle_help();
            app.show_settings_columns(4);
        } else if bindings.toggle_settings_theme.check(key) {
            app.toggle_help();
            app.show_settings_columns(5);
        } else if bindings.toggle_settings_columns.check(key) {
            app.toggle_help();
            app.show_settings_columns(6);
        }
    } else if app.show_settings {
        if bindings.toggle_settings.check(key) || bindings.clear_selection.check(key) || bindings.quit.check(key) {
            app.toggle_settings();
        } else if bindings.toggle_settings_tui.check(key) {
            app.show_settings_columns(0);
        } else if bindings.toggle_settings_trace.check(key) {
            app.show_settings_columns(1);
        } else if bindings.toggle_settings_dns.check(key) {
            app.show_settings_columns(2);
        } else if bindings.toggle_settings_geoip.check(key) {
            app.show_settings_columns(3);
        } else if bindings.toggle_settings_bindings.check(key) {
            app.show_settings_columns(4);
        } else if bindings.toggle_settings_theme.check(key) {
            app.show_settings_columns(5);
        } else if bindings.toggle_settings_columns.check(key) {
            app.show_settings_columns(6);
        } else if bindings.previous_trace.check(key) {
            app.previous_settings_tab();
        } else if bindings.next_trace.check(key) {
            app.next_settings_tab();
        } else if bindings.next_hop.check(key) {
            app.next_settings_item();
        } else if bindings.previous_hop.check(key) {
            app.previous_settings_item();
        } else if bindings.toggle_chart.check(key) {
            app.toggle_column_visibility();
        } else if bindings.next_hop_address.check(key) {
            app.move_column_down();
        } else if bindings.previous_hop_address.check(key) {
            app.move_column_up();
        }
    } else if bindings.toggle_help.check(key) || bindings.toggle_help_alt.check(key) {
        app.toggle_help();
    } else if bindings.toggle_settings.check(key) {
        app.toggle_settings();
    } else if bindings.toggle_settings_tui.check(key) {
        app.show_settings_columns(0);
    } else if bindings.toggle_settings_trace.check(key) {
        app.show_settings_columns(1);
    } else if bindings.toggle_settings_dns.check(key) {
        app.show_settings_columns(2);
    } else if bindings.toggle_settings_geoip.check(key) {
        app.show_settings_columns(3);
    } else if bindings.toggle_settings_bindings.check(key) {
        app.show_settings_columns(4);
    } else if bindings.toggle_settings_theme.check(key) {
        app.show_settings_columns(5);
    } else if bindings.toggle_settings_columns.check(key) {
        app.show_settings_columns(6);
    } else if bindings.next_hop.check(key) {
        app.next_hop();
    } else if bindings.previous_hop.check(key) {
        app.previous_hop();
    } else if bindings.previous_trace.check(key) {
        if app.show_flows {
            app.previous_flow();
        } else {
            app.previous_trace();
        }
    } else if bindings.next_trace.check(key) {
        if app.show_flows {
            app.next_flow();
        } else {
            app.next_trace();
        }
    } else if bindings.next_hop_address.check(key) {
        app.next_hop_address();
    } else if bindings.previous_hop_address.check(key) {
        app.previous_hop_address();
    } else if bindings.address_mode_ip.check(key) {
        app.tui_config.address_mode = AddressMode::Ip;
    } else if bindings.address_mode_host.check(key) {
        app.tui_config.address_mode = AddressMode::Host;
    } else if bindings.address_mode_both.check(key) {
        app.tui_config.address_mode = AddressMode::Both;
    } else if bindings.toggle_freeze.check(key) {
        app.toggle_freeze();
    } else if bindings.toggle_chart.check(key) {
        app.toggle_chart();
    } else if bindings.toggle_map.check(key) {
        app.toggle_map();
    } else if bindings.toggle_flows.check(key) {
        app.toggle_flows();
    } else if bindings.expand_privacy.check(key) {
        app.expand_privacy();
    } else if bindings.contract_privacy.check(key) {
        app.contract_privacy();
    } else if bindings.contract_hosts_min.check(key) {
        app.contract_hosts_min();
    } else if bindings.expand_hosts_max.check(key) {
        app.expand_hosts_max();
    } else if bindings.contract_hosts.check(key) {
        app.contract_hosts();
    } else if bindings.expand_hosts.check(key) {
        app.expand_hosts();
    } else if bindings.chart_zoom_in.check(key) {
        app.zoom_in();
    } else if bindings.chart_zoom_out.check(key) {
        app.zoom_out();
    } else if bindings.clear_trace_data.check(key) {
        app.clear();
        app.clear_trace_data();
    } else if bindings.clear_dns_cache.check(key) {
        app.resolver.flush();
    } else if bindings.clear_selection.check(key) {
        app.clear();
    } else if bindings.toggle_as_info.check(key) {
        app.toggle_asinfo();
    } else if bindings.toggle_hop_details.check(key) {
        app.toggle_hop_details();
    } else if bindings.quit.check(key) || CTRL_C.check(key) {
        return true;
    } else if bindings.quit_preserve_screen.check(key) {
        return true;
    }
    false
}

fn opt(x: Option<usize>) -> String {
    x.map_or("-".to_string(), |v| v.to_string())
}

/// The columns as `<char><1|0>` pairs in list order.
pub fn cols_string(app: &TuiApp) -> String {
    app.tui_config
        .tui_columns
        .all_columns()
        .map(|c| format!("{}{}", char::from(c.typ), if format!("{:?}", c.status) == "Shown" { 1 } else { 0 }))
        .collect()
}

/// The observable selection state (compared with the model after every op).
pub fn state_string(app: &TuiApp) -> String {
    let fc = if app.flow_counts.is_empty() {
        "-".to_string()
    } else {
        app.flow_counts.iter().map(|(id, c)| format!("{}~{c}", id.0)).collect::<Vec<_>>().join(".")
    };
    let am = match app.tui_config.address_mode {
        AddressMode::Ip => 0,
        AddressMode::Host => 1,
        AddressMode::Both => 2,
    };
    format!(
        "{},{},{},{},{},{},{},{},{},{},{},{}{}{}{}{},{},{},{},{}",
        app.trace_selected,
        app.selected_flow.0,
        opt(app.table_state.selected()),
        app.selected_hop_address,
        u8::from(app.show_flows),
        fc,
        app.settings_tab_selected,
        opt(app.setting_table_state.selected()),
        u8::from(app.frozen_start.is_some()),
        opt(app.tui_config.privacy_max_ttl.map(usize::from)),
        opt(app.tui_config.max_addrs.map(usize::from)),
        u8::from(app.show_help),
        u8::from(app.show_settings),
        u8::from(app.show_hop_details),
        u8::from(app.show_chart),
        u8::from(app.show_map),
        app.zoom_factor,
        am,
        u8::from(app.tui_config.lookup_as_info),
        cols_string(app)
    )
}

/// Model-free evaluation of "every selection refers to an entry that exists in the data being
/// displayed" on the real app (C17 oracle).  `Err(kind:detail)` names the first stale selection.
pub fn selection_valid(app: &TuiApp) -> Result<(), String> {
    if app.trace_selected >= app.trace_info.len() {
        return Err(format!("trace:{}>={}", app.trace_selected, app.trace_info.len()));
    }
    let st = app.tracer_data();
    let fid = app.selected_flow;
    let exists = catch_unwind(AssertUnwindSafe(|| st.hops_for_flow(fid).len()));
    let Ok(hop_count) = exists else {
        return Err(format!("flow:{}_not_in_data", fid.0));
    };
    if let Some(s) = app.table_state.selected() {
        if s >= hop_count {
            return Err(format!("hop:{s}>={hop_count}"));
        }
        let n = st.hops_for_flow(fid)[s].addr_count();
        if app.selected_hop_address >= n.max(1) {
            return Err(format!("hop_address:{}>={n}", app.selected_hop_address));
        }
    } else if app.selected_hop_address != 0 {
        return Err(format!("hop_address:{}_without_hop", app.selected_hop_address));
    }
    if app.show_flows && !app.flow_counts.iter().any(|(id, _)| *id == fid) {
        return Err(format!("flow:{}_not_in_flow_counts", fid.0));
    }
    let counts = trippy_tui::verif_frontend::verif_settings_item_counts(app);
    if app.settings_tab_selected >= counts.len() {
        return Err(format!("settings_tab:{}>={}", app.settings_tab_selected, counts.len()));
    }
    if let Some(i) = app.setting_table_state.selected() {
        if i >= counts[app.settings_tab_selected] {
            return Err(format!("settings_item:{i}>={}@tab{}", counts[app.settings_tab_selected], app.settings_tab_selected));
        }
    }
    Ok(())
}

/// Well-formedness of a shape (the environment assumption of the C17 theorems), checked on every observed shape.
pub fn shape_wf(st: &State) -> Result<(), String> {
    let reg: Vec<u64> = st.flows().iter().map(|(_, id)| id.0).collect();
    if catch_unwind(AssertUnwindSafe(|| st.hops_for_flow(FlowId(0)).len())).is_err() {
        return Err("no_flow_0".into());
    }
    for r in &reg {
        if *r == 0 {
            return Err("registry_has_0".into());
        }
        match catch_unwind(AssertUnwindSafe(|| st.hops_for_flow(FlowId(*r)).len())) {
            Err(_) => return Err(format!("registered_flow_{r}_not_in_map")),
            Ok(n) if n > 254 => return Err(format!("flow_{r}_has_{n}_hops")),
            _ => {}
        }
    }
    if reg.len() > st.max_flows() {
        return Err(format!("registry_{}>max_flows_{}", reg.len(), st.max_flows()));
    }
    if !reg.is_empty() && !reg.contains(&1) {
        return Err("registry_without_flow_1".into());
    }
    Ok(())
}
