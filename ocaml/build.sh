#!/bin/bash
# usage: build.sh <build-dir> : extraction + driver build
set -e
SRC=$(cd "$(dirname "$0")" && pwd)
ROOT=$(dirname "$SRC")
OD=$1
mkdir -p "$OD"
cd "$OD"
rm -f model.* d_*.* driver*
coqc -Q "$ROOT/coq/theories" TV "$ROOT/coq/theories/Extract/Extract.v"
cp "$SRC"/*.ml .
AREAS=$(ls d_*.ml | grep -v -e d_base.ml -e d_c13.ml -e d_strat.ml | sort)
AREAS="d_c13.ml d_strat.ml $AREAS"
ocamlfind ocamlopt -package str -linkpkg -O3 -w -a model.mli model.ml d_base.ml $AREAS driver.ml -o driver
