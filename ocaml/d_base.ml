(* Shared helpers for the correspondence driver: conversions between OCaml values and the extracted inductive Z / nat / lists. *)
open Model

let rec pos_of_int n =
  if n = 1 then XH else if n land 1 = 0 then XO (pos_of_int (n lsr 1)) else XI (pos_of_int (n lsr 1))
let z_of_int n = if n = 0 then Z0 else if n > 0 then Zpos (pos_of_int n) else Zneg (pos_of_int (-n))
let rec int_of_pos = function XH -> 1 | XO p -> 2 * int_of_pos p | XI p -> 2 * int_of_pos p + 1
let int_of_z = function Z0 -> 0 | Zpos p -> int_of_pos p | Zneg p -> - (int_of_pos p)
let rec nat_of_int n = if n <= 0 then O else S (nat_of_int (n - 1))
let rec int_of_nat = function O -> 0 | S n -> 1 + int_of_nat n

let zi s = z_of_int (int_of_string s)
let unhex s =
  if s = "-" then [] else
  List.init (String.length s / 2) (fun i -> z_of_int (int_of_string ("0x" ^ String.sub s (2 * i) 2)))
let hex l =
  if l = [] then "-" else String.concat "" (List.map (fun z -> Printf.sprintf "%02x" (int_of_z z)) l)
let split_on c s = if s = "" || s = "-" then [] else String.split_on_char c s
let zs z = string_of_int (int_of_z z)

let fault_name = function
  | OutOfBounds -> "OutOfBounds" | Overflow -> "Overflow" | Underflow -> "Underflow"
  | Unimplemented -> "Unimplemented" | Unreachable -> "Unreachable"
  | CapacityExceeded -> "CapacityExceeded" | MissingKey -> "MissingKey" | OutOfFuel -> "OutOfFuel"

