(* C11: send side of the network layer (Net/ChannelSend.v run_send / run_fill) *)
open Model
open D_base

let kind_name = function
  | SkIcmp4 -> "icmp4" | SkIcmp6 -> "icmp6" | SkUdp4 -> "udp4" | SkUdp6 -> "udp6"
  | SkRecv4 -> "recv4" | SkRecv6 -> "recv6" | SkTcp4 -> "tcp4" | SkTcp6 -> "tcp6"

(* the format of harness/hcore/src/sim.rs Op::render *)
let render_op = function
  | NewSocket (k, raw) -> Printf.sprintf "new:%s:%d" (kind_name k) (if raw then 1 else 0)
  | Bind (a, p) -> Printf.sprintf "bind:%s:%s" (hex a) (zs p)
  | SetTtl n -> "ttl:" ^ zs n
  | SetTos n -> "tos:" ^ zs n
  | SetUnicastHopsV6 n -> "hops:" ^ zs n
  | Connect (a, p) -> Printf.sprintf "connect:%s:%s" (hex a) (zs p)
  | SendTo (b, a, p) -> Printf.sprintf "sendto:%s:%s:%s" (hex b) (hex a) (zs p)

let render_error = function
  | EInvalidPacketSize -> "err:InvalidPacketSize"
  | EPacket -> "err:Packet"
  | EIo k -> "err:Io:" ^ zs k
  | EProbeFailed -> "err:ProbeFailed"
  | EInsufficientCapacity -> "err:InsufficientCapacity"
  | EAddressInUse -> "err:AddressInUse"
  | EMissingAddr -> "err:MissingAddr"
  | EBadConfig -> "err:BadConfig"
  | EOther -> "err:Other"

let render_result = function
  | Ok _ -> "ok"
  | Err e -> render_error e
  | Fault f -> "fault:" ^ fault_name f

let call_of = function
  | "new" -> CNew | "bind" -> CBind | "connect" -> CConnect | "sendto" -> CSendTo
  | "ttl" -> CSetTtl | "tos" -> CSetTos | _ -> CHops

let proto_of = function "icmp" -> Icmp | "udp" -> Udp | _ -> Tcp

let cfg_of privileged proto src dst size pattern iseq tos = {
  cc_privilege = (if privileged then Privileged else Unprivileged);
  cc_protocol = proto_of proto; cc_source = unhex src; cc_target = unhex dst;
  cc_packet_size = zi size; cc_payload_pattern = zi pattern; cc_initial_sequence = zi iseq; cc_tos = zi tos }

let run_case (toks : string list) : string option =
  match toks with
  | ["c11"; priv; proto; src; dst; size; pattern; iseq; tos; seq; id; sp; dp; ttl; flags; inj] ->
    let cfg = cfg_of (priv = "1") proto src dst size pattern iseq tos in
    let inj = List.map (fun e -> match String.split_on_char ':' e with
        | [c; k] -> (call_of c, zi k) | _ -> failwith "inject") (split_on ',' inj) in
    let p = { p_sequence = zi seq; p_identifier = zi id; p_src_port = zi sp; p_dest_port = zi dp;
              p_ttl = zi ttl; p_round = Z0; p_sent = Z0; p_flags = zi flags } in
    let (ops, r) = run_send BoNetwork cfg inj p in
    let o = if ops = [] then "-" else String.concat "," (List.map render_op ops) in
    Some (o ^ "|" ^ render_result r)
  | ["c11seq"; priv; proto; src; dst; size; pattern; iseq; tos; probes] ->
    let cfg = cfg_of (priv = "1") proto src dst size pattern iseq tos in
    let ps = List.map (fun x -> match String.split_on_char '.' x with
        | [seq; id; sp; dp; ttl; flags] ->
          { p_sequence = zi seq; p_identifier = zi id; p_src_port = zi sp; p_dest_port = zi dp;
            p_ttl = zi ttl; p_round = Z0; p_sent = Z0; p_flags = zi flags }
        | _ -> failwith "probe") (split_on ',' probes) in
    let (w, r) = connect BoNetwork cfg { w_ops = []; w_inject = [] } in
    let (ops, sent, res) = (match r with
        | Ok ch -> let (w', (sent, res)) = send_many ch ps w Z0 in (w'.w_ops, sent, res)
        | Err e -> (w.w_ops, Z0, Err e)
        | Fault f -> (w.w_ops, Z0, Fault f)) in
    let o = if ops = [] then "-" else String.concat "," (List.map render_op ops) in
    Some (Printf.sprintf "%s|sent=%s|%s" o (zs sent) (render_result res))
  | ["c11fill"; src; dst; n] ->
    let n = int_of_string n in
    let cfg = cfg_of true "tcp" src dst "84" "0" "33434" "0" in
    let probe i =
      let s = z_of_int ((33434 + i) land 0xFFFF) in
      { p_sequence = s; p_identifier = Z0; p_src_port = s; p_dest_port = z_of_int 80;
        p_ttl = z_of_int (1 + i mod 254); p_round = Z0; p_sent = Z0; p_flags = Z0 } in
    let (sent, r) = run_fill BoNetwork cfg (List.init n probe) in
    Some (Printf.sprintf "sent=%s|%s" (zs sent) (render_result r))
  | _ -> None
