(* C12: packet field accessors (Packet/Fields.v) *)
open Model
open D_base

type acc =
  | U of (z list -> z result) * (z -> z list -> z list result)                       (* u8 / u16 / u32 *)
  | A of (z list -> z list result) * (z list -> z list -> z list result)             (* Ipv4Addr / Ipv6Addr octets *)
  | P of (z list -> ip_protocol result) * (ip_protocol -> z list -> z list result)   (* IpProtocol *)
  | T4 of (z list -> icmp4_type result) * (icmp4_type -> z list -> z list result)    (* icmpv4::IcmpType *)
  | T6 of (z list -> icmp6_type result) * (icmp6_type -> z list -> z list result)    (* icmpv6::IcmpType *)
  | C of (z list -> class_num result) * (class_num -> z list -> z list result)       (* ClassNum *)

let accessors : ((string * string) * acc) list = [
  ("ipv4", "version"), U (ipv4_get_version, ipv4_set_version);
  ("ipv4", "header_length"), U (ipv4_get_header_length, ipv4_set_header_length);
  ("ipv4", "dscp"), U (ipv4_get_dscp, ipv4_set_dscp);
  ("ipv4", "ecn"), U (ipv4_get_ecn, ipv4_set_ecn);
  ("ipv4", "tos"), U (ipv4_get_tos, ipv4_set_tos);
  ("ipv4", "total_length"), U (ipv4_get_total_length, ipv4_set_total_length);
  ("ipv4", "identification"), U (ipv4_get_identification, ipv4_set_identification);
  ("ipv4", "flags_and_fragment_offset"), U (ipv4_get_flags_and_fragment_offset, ipv4_set_flags_and_fragment_offset);
  ("ipv4", "ttl"), U (ipv4_get_ttl, ipv4_set_ttl);
  ("ipv4", "protocol"), P (ipv4_get_protocol, ipv4_set_protocol);
  ("ipv4", "checksum"), U (ipv4_get_checksum, ipv4_set_checksum);
  ("ipv4", "source"), A (ipv4_get_source, ipv4_set_source);
  ("ipv4", "destination"), A (ipv4_get_destination, ipv4_set_destination);
  ("ipv6", "version"), U (ipv6_get_version, ipv6_set_version);
  ("ipv6", "traffic_class"), U (ipv6_get_traffic_class, ipv6_set_traffic_class);
  ("ipv6", "flow_label"), U (ipv6_get_flow_label, ipv6_set_flow_label);
  ("ipv6", "payload_length"), U (ipv6_get_payload_length, ipv6_set_payload_length);
  ("ipv6", "next_header"), P (ipv6_get_next_header, ipv6_set_next_header);
  ("ipv6", "hop_limit"), U (ipv6_get_hop_limit, ipv6_set_hop_limit);
  ("ipv6", "source_address"), A (ipv6_get_source_address, ipv6_set_source_address);
  ("ipv6", "destination_address"), A (ipv6_get_destination_address, ipv6_set_destination_address);
  ("udp", "source"), U (udp_get_source, udp_set_source);
  ("udp", "destination"), U (udp_get_destination, udp_set_destination);
  ("udp", "length"), U (udp_get_length, udp_set_length);
  ("udp", "checksum"), U (udp_get_checksum, udp_set_checksum);
  ("tcp", "source"), U (tcp_get_source, tcp_set_source);
  ("tcp", "destination"), U (tcp_get_destination, tcp_set_destination);
  ("tcp", "sequence"), U (tcp_get_sequence, tcp_set_sequence);
  ("tcp", "acknowledgement"), U (tcp_get_acknowledgement, tcp_set_acknowledgement);
  ("tcp", "data_offset"), U (tcp_get_data_offset, tcp_set_data_offset);
  ("tcp", "reserved"), U (tcp_get_reserved, tcp_set_reserved);
  ("tcp", "flags"), U (tcp_get_flags, tcp_set_flags);
  ("tcp", "window_size"), U (tcp_get_window_size, tcp_set_window_size);
  ("tcp", "checksum"), U (tcp_get_checksum, tcp_set_checksum);
  ("tcp", "urgent_pointer"), U (tcp_get_urgent_pointer, tcp_set_urgent_pointer);
  ("icmp4", "icmp_type"), T4 (icmp4_get_icmp_type, icmp4_set_icmp_type);
  ("icmp4", "icmp_code"), U (icmp4_get_icmp_code, icmp4_set_icmp_code);
  ("icmp4", "checksum"), U (icmp4_get_checksum, icmp4_set_checksum);
  ("icmp4_echo_request", "icmp_type"), T4 (icmp4_echo_request_get_icmp_type, icmp4_echo_request_set_icmp_type);
  ("icmp4_echo_request", "icmp_code"), U (icmp4_echo_request_get_icmp_code, icmp4_echo_request_set_icmp_code);
  ("icmp4_echo_request", "checksum"), U (icmp4_echo_request_get_checksum, icmp4_echo_request_set_checksum);
  ("icmp4_echo_request", "identifier"), U (icmp4_echo_request_get_identifier, icmp4_echo_request_set_identifier);
  ("icmp4_echo_request", "sequence"), U (icmp4_echo_request_get_sequence, icmp4_echo_request_set_sequence);
  ("icmp4_echo_reply", "icmp_type"), T4 (icmp4_echo_reply_get_icmp_type, icmp4_echo_reply_set_icmp_type);
  ("icmp4_echo_reply", "icmp_code"), U (icmp4_echo_reply_get_icmp_code, icmp4_echo_reply_set_icmp_code);
  ("icmp4_echo_reply", "checksum"), U (icmp4_echo_reply_get_checksum, icmp4_echo_reply_set_checksum);
  ("icmp4_echo_reply", "identifier"), U (icmp4_echo_reply_get_identifier, icmp4_echo_reply_set_identifier);
  ("icmp4_echo_reply", "sequence"), U (icmp4_echo_reply_get_sequence, icmp4_echo_reply_set_sequence);
  ("icmp4_time_exceeded", "icmp_type"), T4 (icmp4_time_exceeded_get_icmp_type, icmp4_time_exceeded_set_icmp_type);
  ("icmp4_time_exceeded", "icmp_code"), U (icmp4_time_exceeded_get_icmp_code, icmp4_time_exceeded_set_icmp_code);
  ("icmp4_time_exceeded", "checksum"), U (icmp4_time_exceeded_get_checksum, icmp4_time_exceeded_set_checksum);
  ("icmp4_time_exceeded", "length"), U (icmp4_time_exceeded_get_length, icmp4_time_exceeded_set_length);
  ("icmp4_dest_unreachable", "icmp_type"), T4 (icmp4_dest_unreachable_get_icmp_type, icmp4_dest_unreachable_set_icmp_type);
  ("icmp4_dest_unreachable", "icmp_code"), U (icmp4_dest_unreachable_get_icmp_code, icmp4_dest_unreachable_set_icmp_code);
  ("icmp4_dest_unreachable", "checksum"), U (icmp4_dest_unreachable_get_checksum, icmp4_dest_unreachable_set_checksum);
  ("icmp4_dest_unreachable", "length"), U (icmp4_dest_unreachable_get_length, icmp4_dest_unreachable_set_length);
  ("icmp4_dest_unreachable", "next_hop_mtu"), U (icmp4_dest_unreachable_get_next_hop_mtu, icmp4_dest_unreachable_set_next_hop_mtu);
  ("icmp6", "icmp_type"), T6 (icmp6_get_icmp_type, icmp6_set_icmp_type);
  ("icmp6", "icmp_code"), U (icmp6_get_icmp_code, icmp6_set_icmp_code);
  ("icmp6", "checksum"), U (icmp6_get_checksum, icmp6_set_checksum);
  ("icmp6_echo_request", "icmp_type"), T6 (icmp6_echo_request_get_icmp_type, icmp6_echo_request_set_icmp_type);
  ("icmp6_echo_request", "icmp_code"), U (icmp6_echo_request_get_icmp_code, icmp6_echo_request_set_icmp_code);
  ("icmp6_echo_request", "checksum"), U (icmp6_echo_request_get_checksum, icmp6_echo_request_set_checksum);
  ("icmp6_echo_request", "identifier"), U (icmp6_echo_request_get_identifier, icmp6_echo_request_set_identifier);
  ("icmp6_echo_request", "sequence"), U (icmp6_echo_request_get_sequence, icmp6_echo_request_set_sequence);
  ("icmp6_echo_reply", "icmp_type"), T6 (icmp6_echo_reply_get_icmp_type, icmp6_echo_reply_set_icmp_type);
  ("icmp6_echo_reply", "icmp_code"), U (icmp6_echo_reply_get_icmp_code, icmp6_echo_reply_set_icmp_code);
  ("icmp6_echo_reply", "checksum"), U (icmp6_echo_reply_get_checksum, icmp6_echo_reply_set_checksum);
  ("icmp6_echo_reply", "identifier"), U (icmp6_echo_reply_get_identifier, icmp6_echo_reply_set_identifier);
  ("icmp6_echo_reply", "sequence"), U (icmp6_echo_reply_get_sequence, icmp6_echo_reply_set_sequence);
  ("icmp6_time_exceeded", "icmp_type"), T6 (icmp6_time_exceeded_get_icmp_type, icmp6_time_exceeded_set_icmp_type);
  ("icmp6_time_exceeded", "icmp_code"), U (icmp6_time_exceeded_get_icmp_code, icmp6_time_exceeded_set_icmp_code);
  ("icmp6_time_exceeded", "checksum"), U (icmp6_time_exceeded_get_checksum, icmp6_time_exceeded_set_checksum);
  ("icmp6_time_exceeded", "length"), U (icmp6_time_exceeded_get_length, icmp6_time_exceeded_set_length);
  ("icmp6_dest_unreachable", "icmp_type"), T6 (icmp6_dest_unreachable_get_icmp_type, icmp6_dest_unreachable_set_icmp_type);
  ("icmp6_dest_unreachable", "icmp_code"), U (icmp6_dest_unreachable_get_icmp_code, icmp6_dest_unreachable_set_icmp_code);
  ("icmp6_dest_unreachable", "checksum"), U (icmp6_dest_unreachable_get_checksum, icmp6_dest_unreachable_set_checksum);
  ("icmp6_dest_unreachable", "length"), U (icmp6_dest_unreachable_get_length, icmp6_dest_unreachable_set_length);
  ("icmp6_dest_unreachable", "next_hop_mtu"), U (icmp6_dest_unreachable_get_next_hop_mtu, icmp6_dest_unreachable_set_next_hop_mtu);
  ("ext_header", "version"), U (ext_header_get_version, ext_header_set_version);
  ("ext_header", "checksum"), U (ext_header_get_checksum, ext_header_set_checksum);
  ("ext_object", "length"), U (ext_object_get_length, ext_object_set_length);
  ("ext_object", "class_num"), C (ext_object_get_class_num, ext_object_set_class_num);
  ("ext_object", "class_subtype"), U (ext_object_get_class_subtype, ext_object_set_class_subtype);
  ("mpls_member", "label"), U (mpls_member_get_label, mpls_member_set_label);
  ("mpls_member", "exp"), U (mpls_member_get_exp, mpls_member_set_exp);
  ("mpls_member", "bos"), U (mpls_member_get_bos, mpls_member_set_bos);
  ("mpls_member", "ttl"), U (mpls_member_get_ttl, mpls_member_set_ttl);
]

let constructors : (string * ((z list -> z list result) * (z list -> z list result))) list = [
  "ipv4", (ipv4_new, ipv4_new_view);
  "ipv6", (ipv6_new, ipv6_new_view);
  "udp", (udp_new, udp_new_view);
  "tcp", (tcp_new, tcp_new_view);
  "icmp4", (icmp4_new, icmp4_new_view);
  "icmp4_echo_request", (icmp4_echo_request_new, icmp4_echo_request_new_view);
  "icmp4_echo_reply", (icmp4_echo_reply_new, icmp4_echo_reply_new_view);
  "icmp4_time_exceeded", (icmp4_time_exceeded_new, icmp4_time_exceeded_new_view);
  "icmp4_dest_unreachable", (icmp4_dest_unreachable_new, icmp4_dest_unreachable_new_view);
  "icmp6", (icmp6_new, icmp6_new_view);
  "icmp6_echo_request", (icmp6_echo_request_new, icmp6_echo_request_new_view);
  "icmp6_echo_reply", (icmp6_echo_reply_new, icmp6_echo_reply_new_view);
  "icmp6_time_exceeded", (icmp6_time_exceeded_new, icmp6_time_exceeded_new_view);
  "icmp6_dest_unreachable", (icmp6_dest_unreachable_new, icmp6_dest_unreachable_new_view);
  "ext_header", (ext_header_new, ext_header_new_view);
  "ext_object", (ext_object_new, ext_object_new_view);
  "mpls_member", (mpls_member_new, mpls_member_new_view);
  "extensions", (extensions_new, extensions_new_view);
  "mpls_stack", (mpls_stack_new, mpls_stack_new_view);
]

(* set_payload of the thirteen packet types that have one (Packet/Payload.v): buffer -> payload -> buffer.
   The model is entered through Payload.set_payload_of (Net/Wire.v has an ipv4_set_payload / udp_set_payload of its
   own and the extraction renames the clashing names). *)
let payload_types : (string * payload_type) list = [
  "ipv4", PtIpv4;
  "ipv6", PtIpv6;
  "udp", PtUdp;
  "tcp", PtTcp;
  "icmp4_echo_request", PtIcmp4EchoRequest;
  "icmp4_echo_reply", PtIcmp4EchoReply;
  "icmp4_time_exceeded", PtIcmp4TimeExceeded;
  "icmp4_dest_unreachable", PtIcmp4DestUnreachable;
  "icmp6_echo_request", PtIcmp6EchoRequest;
  "icmp6_echo_reply", PtIcmp6EchoReply;
  "icmp6_time_exceeded", PtIcmp6TimeExceeded;
  "icmp6_dest_unreachable", PtIcmp6DestUnreachable;
  "ext_object", PtExtObject;
]

let show (f : 'a -> string) (r : 'a result) : string =
  match r with Ok v -> f v | Err _ -> "err" | Fault x -> "fault:" ^ fault_name x

let named n id = n ^ "/" ^ zs id
let show_proto p = named (match p with IpIcmp -> "Icmp" | IpIcmpV6 -> "IcmpV6" | IpUdp -> "Udp" | IpTcp -> "Tcp" | IpOther _ -> "Other") (ip_protocol_id p)
let show_t4 t = named (match t with I4EchoRequest -> "EchoRequest" | I4EchoReply -> "EchoReply"
  | I4DestinationUnreachable -> "DestinationUnreachable" | I4TimeExceeded -> "TimeExceeded" | I4Other _ -> "Other") (icmp4_type_id t)
let show_t6 t = named (match t with I6EchoRequest -> "EchoRequest" | I6EchoReply -> "EchoReply"
  | I6DestinationUnreachable -> "DestinationUnreachable" | I6TimeExceeded -> "TimeExceeded" | I6Other _ -> "Other") (icmp6_type_id t)
let show_cn c = named (match c with CnMpls -> "MultiProtocolLabelSwitchingLabelStack" | CnInterfaceInformation -> "InterfaceInformationObject"
  | CnInterfaceIdentification -> "InterfaceIdentificationObject" | CnExtendedInformation -> "ExtendedInformation" | CnOther _ -> "Other") (class_num_id c)

let run_case (toks : string list) : string option =
  match toks with
  | ["acc"; ty; fld; "get"; buf] ->
    let buf = unhex buf in
    Some (match List.assoc (ty, fld) accessors with
        | U (g, _) -> show zs (g buf)
        | A (g, _) -> show hex (g buf)
        | P (g, _) -> show show_proto (g buf)
        | T4 (g, _) -> show show_t4 (g buf)
        | T6 (g, _) -> show show_t6 (g buf)
        | C (g, _) -> show show_cn (g buf))
  | ["acc"; ty; fld; ("set" | "seto" as op); v; buf] ->
    let buf = unhex buf in
    let other = (op = "seto") in
    Some (show hex (match List.assoc (ty, fld) accessors with
        | U (_, s) -> s (zi v) buf
        | A (_, s) -> s (unhex v) buf
        | P (_, s) -> s (if other then IpOther (zi v) else ip_protocol_from (zi v)) buf
        | T4 (_, s) -> s (if other then I4Other (zi v) else icmp4_type_from (zi v)) buf
        | T6 (_, s) -> s (if other then I6Other (zi v) else icmp6_type_from (zi v)) buf
        | C (_, s) -> s (if other then CnOther (zi v) else class_num_from (zi v)) buf))
  | ["c12pay"; ty; buf; payload] ->
    (* the implementation can only refuse by panicking and the harness prints every panic as `fault:panic`:
       a model fault (always OutOfBounds here, theorem c12_set_payload_total) is printed the same way, so the
       comparison is exact; an error value would be printed `err` and never matches *)
    Some (match set_payload_of (List.assoc ty payload_types) (unhex buf) (unhex payload) with
        | Ok b -> hex b
        | Err _ -> "err"
        | Fault _ -> "fault:panic")
  | ["c12optmut"; buf] ->
    (* every octet of the window get_options_raw_mut hands out is complemented *)
    Some (match ipv4_options_mut_map (fun x -> z_of_int (255 - int_of_z x)) (unhex buf) with
        | Ok b -> hex b
        | Err _ -> "err"
        | Fault _ -> "fault:panic")
  | [("new" | "new_view" as op); ty; len] ->
    let (n, nv) = List.assoc ty constructors in
    let buf = List.init (int_of_string len) (fun _ -> z_of_int 0) in
    Some (match (if op = "new" then n else nv) buf with Ok _ -> "ok" | Err _ -> "err" | Fault x -> "fault:" ^ fault_name x)
  | _ -> None
