(* C13: checksum codec and Paris swap *)
open Model
open D_base

let run_case (toks : string list) : string option =
  match toks with
  | ["cksum"; kind; d; src; dst] ->
    let d = unhex d and src = unhex src and dst = unhex dst in
    Some (zs (match kind with
        | "ipv4hdr" -> ipv4_header_checksum d
        | "icmp4" -> icmp_ipv4_checksum d
        | "icmp6" -> icmp_ipv6_checksum d src dst
        | "udp4" -> udp_ipv4_checksum d src dst
        | "tcp4" -> tcp_ipv4_checksum d src dst
        | "udp6" -> udp_ipv6_checksum d src dst
        | _ -> failwith "kind"))
  | ["paris"; _fam; sp; dp; seq; src; dst] ->
    Some (hex (paris_udp (zi sp) (zi dp) (zi seq) (unhex src) (unhex dst)))
  | _ -> None
