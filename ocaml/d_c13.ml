(* C13: checksum codec and Paris swap *)
open Model
open D_base

(* Paris over IPv6 after the fix 'send a computed UDP/IPv6 checksum of zero as 0xFFFF': the swapped payload is
   0xFFFF in that case; take the datagram from the C11 model of the repaired code (Net/ChannelSend.v run_send) *)
let paris6 sp dp seq src dst =
  let cfg = { cc_privilege = Privileged; cc_protocol = Udp; cc_source = unhex src; cc_target = unhex dst;
              cc_packet_size = z_of_int 60; cc_payload_pattern = Z0; cc_initial_sequence = z_of_int 33434; cc_tos = Z0 } in
  let p = { p_sequence = zi seq; p_identifier = Z0; p_src_port = zi sp; p_dest_port = zi dp;
            p_ttl = z_of_int 3; p_round = Z0; p_sent = Z0; p_flags = z_of_int 1 } in
  let (ops, _) = run_send BoNetwork cfg [] p in
  match List.rev ops with
  | SendTo (b, _, _) :: _ -> hex b
  | _ -> "no-send"

let run_case (toks : string list) : string option =
  match toks with
  | ["cksum"; kind; d; src; dst] ->
    let d = unhex d and src = unhex src and dst = unhex dst in
    Some (zs (match kind with
        | "ipv4hdr" -> ipv4_header_checksum d
        | "icmp4" -> icmp_ipv4_checksum d
        | "icmp6" -> icmp_ipv6_checksum d src dst
        | "udp4" -> udp_ipv4_checksum d src dst
        | "tcp4" -> tcp_ipv4_checksum d src dst
        | "udp6" -> udp_ipv6_checksum d src dst
        | _ -> failwith "kind"))
  | ["paris"; "6"; sp; dp; seq; src; dst] -> Some (paris6 sp dp seq src dst)
  | ["paris"; _fam; sp; dp; seq; src; dst] ->
    Some (hex (paris_udp (zi sp) (zi dp) (zi seq) (unhex src) (unhex dst)))
  | _ -> None
