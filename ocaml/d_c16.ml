(* C16: option layering (Tui/Layer.v build_config) and the builder acceptance grid (Core/Builder.v).
   Case lines:
     c16 <has><needs> <pid> <valid-timezones> <file-entries|D|-> <cli-entries|->
     c16grid <cfg as in d_strat>  *)
open Model
open D_base

let mode_of i = List.nth [MTui; MStream; MPretty; MMarkdown; MCsv; MJson; MDot; MFlows; MSilent] i
let mode_ix = function MTui -> 0 | MStream -> 1 | MPretty -> 2 | MMarkdown -> 3 | MCsv -> 4 | MJson -> 5 | MDot -> 6 | MFlows -> 7 | MSilent -> 8
let proto_of i = List.nth [PcIcmp; PcUdp; PcTcp] i
let fam_of i = List.nth [AfIpv4; AfIpv6; AfIpv6ThenIpv4; AfIpv4ThenIpv6; AfSystem] i
let strat_of i = List.nth [MsClassic; MsParis; MsDublin] i
let geo_of i = List.nth [GeoOff; GeoShort; GeoLong; GeoLocation] i
let geo_ix = function GeoOff -> 0 | GeoShort -> 1 | GeoLong -> 2 | GeoLocation -> 3
let dns_of i = List.nth [DrSystem; DrResolv; DrGoogle; DrCloudflare] i

let empty_args = {
  a_targets = []; a_mode = None; a_unprivileged = false; a_protocol = None; a_udp = false; a_tcp = false; a_icmp = false;
  a_addr_family = None; a_ipv4 = false; a_ipv6 = false; a_target_port = None; a_source_port = None;
  a_source_address = None; a_interface = None; a_min_round_duration = None; a_max_round_duration = None;
  a_grace_duration = None; a_initial_sequence = None; a_multipath_strategy = None; a_max_inflight = None;
  a_first_ttl = None; a_max_ttl = None; a_packet_size = None; a_payload_pattern = None; a_tos = None;
  a_icmp_extensions = false; a_read_timeout = None; a_dns_resolve_method = None; a_dns_resolve_all = false;
  a_dns_timeout = None; a_dns_ttl = None; a_dns_lookup_as_info = false; a_max_samples = None; a_max_flows = None;
  a_tui_address_mode = None; a_tui_as_mode = None; a_tui_custom_columns = None; a_tui_icmp_extension_mode = None;
  a_tui_geoip_mode = None; a_tui_max_addrs = None; a_tui_preserve_screen = false; a_tui_refresh_rate = None;
  a_tui_privacy_max_ttl = None; a_tui_locale = None; a_tui_timezone = None; a_tui_theme_colors = [];
  a_tui_key_bindings = []; a_report_cycles = None; a_geoip_mmdb_file = None; a_log_format = None; a_log_filter = None;
  a_log_span_events = None; a_verbose = false }

let empty_trippy = { ct_mode = None; ct_unprivileged = None; ct_log_format = None; ct_log_filter = None; ct_log_span_events = None }
let empty_strategy = {
  cs_protocol = None; cs_addr_family = None; cs_target_port = None; cs_source_port = None; cs_source_address = None;
  cs_interface = None; cs_min_round_duration = None; cs_max_round_duration = None; cs_initial_sequence = None;
  cs_multipath_strategy = None; cs_grace_duration = None; cs_max_inflight = None; cs_first_ttl = None; cs_max_ttl = None;
  cs_packet_size = None; cs_payload_pattern = None; cs_tos = None; cs_icmp_extensions = None; cs_read_timeout = None;
  cs_max_samples = None; cs_max_flows = None }
let empty_dns = { cd_dns_resolve_method = None; cd_dns_resolve_all = None; cd_dns_lookup_as_info = None; cd_dns_timeout = None; cd_dns_ttl = None }
let empty_report : configReport = None   (* a one-field record is extracted as its field *)
let empty_tui = {
  cu_tui_preserve_screen = None; cu_tui_refresh_rate = None; cu_tui_privacy_max_ttl = None; cu_tui_address_mode = None;
  cu_tui_as_mode = None; cu_tui_icmp_extension_mode = None; cu_tui_geoip_mode = None; cu_tui_max_addrs = None;
  cu_geoip_mmdb_file = None; cu_tui_custom_columns = None; cu_tui_locale = None; cu_tui_timezone = None;
  cu_deprecated_tui_max_samples = None; cu_deprecated_tui_max_flows = None }
let empty_bindings = { cb_items = []; cb_deprecated_toggle_privacy = None }

let entries s =
  if s = "-" then [] else
  List.map (fun kv -> match String.index_opt kv '=' with
    | Some i -> (String.sub kv 0 i, String.sub kv (i + 1) (String.length kv - i - 1))
    | None -> (kv, "1")) (String.split_on_char ';' s)

let prefixed p k = String.length k > String.length p && String.sub k 0 (String.length p) = p
let suffix_int p k = int_of_string (String.sub k (String.length p) (String.length k - String.length p))
let b v = v <> "0"
let i = int_of_string

let parse_cli s : args =
  List.fold_left (fun a (k, v) ->
    if prefixed "theme." k then { a with a_tui_theme_colors = a.a_tui_theme_colors @ [(z_of_int (suffix_int "theme." k), zi v)] }
    else if prefixed "bind." k then { a with a_tui_key_bindings = a.a_tui_key_bindings @ [(z_of_int (suffix_int "bind." k), zi v)] }
    else match k with
    | "targets" -> a   (* handled below *)
    | "mode" -> { a with a_mode = Some (mode_of (i v)) }
    | "unprivileged" -> { a with a_unprivileged = b v }
    | "protocol" -> { a with a_protocol = Some (proto_of (i v)) }
    | "udp" -> { a with a_udp = b v } | "tcp" -> { a with a_tcp = b v } | "icmp" -> { a with a_icmp = b v }
    | "addr_family" -> { a with a_addr_family = Some (fam_of (i v)) }
    | "ipv4" -> { a with a_ipv4 = b v } | "ipv6" -> { a with a_ipv6 = b v }
    | "target_port" -> { a with a_target_port = Some (zi v) }
    | "source_port" -> { a with a_source_port = Some (zi v) }
    | "source_address" -> { a with a_source_address = Some (unhex v) }
    | "interface" -> { a with a_interface = Some (unhex v) }
    | "min_round_duration" -> { a with a_min_round_duration = Some (zi v) }
    | "max_round_duration" -> { a with a_max_round_duration = Some (zi v) }
    | "grace_duration" -> { a with a_grace_duration = Some (zi v) }
    | "initial_sequence" -> { a with a_initial_sequence = Some (zi v) }
    | "multipath_strategy" -> { a with a_multipath_strategy = Some (strat_of (i v)) }
    | "max_inflight" -> { a with a_max_inflight = Some (zi v) }
    | "first_ttl" -> { a with a_first_ttl = Some (zi v) }
    | "max_ttl" -> { a with a_max_ttl = Some (zi v) }
    | "packet_size" -> { a with a_packet_size = Some (zi v) }
    | "payload_pattern" -> { a with a_payload_pattern = Some (zi v) }
    | "tos" -> { a with a_tos = Some (zi v) }
    | "icmp_extensions" -> { a with a_icmp_extensions = b v }
    | "read_timeout" -> { a with a_read_timeout = Some (zi v) }
    | "dns_resolve_method" -> { a with a_dns_resolve_method = Some (dns_of (i v)) }
    | "dns_resolve_all" -> { a with a_dns_resolve_all = b v }
    | "dns_timeout" -> { a with a_dns_timeout = Some (zi v) }
    | "dns_ttl" -> { a with a_dns_ttl = Some (zi v) }
    | "dns_lookup_as_info" -> { a with a_dns_lookup_as_info = b v }
    | "max_samples" -> { a with a_max_samples = Some (zi v) }
    | "max_flows" -> { a with a_max_flows = Some (zi v) }
    | "tui_address_mode" -> { a with a_tui_address_mode = Some (zi v) }
    | "tui_as_mode" -> { a with a_tui_as_mode = Some (zi v) }
    | "tui_custom_columns" -> { a with a_tui_custom_columns = Some (unhex v) }
    | "tui_icmp_extension_mode" -> { a with a_tui_icmp_extension_mode = Some (zi v) }
    | "tui_geoip_mode" -> { a with a_tui_geoip_mode = Some (geo_of (i v)) }
    | "tui_max_addrs" -> { a with a_tui_max_addrs = Some (zi v) }
    | "tui_preserve_screen" -> { a with a_tui_preserve_screen = b v }
    | "tui_refresh_rate" -> { a with a_tui_refresh_rate = Some (zi v) }
    | "tui_privacy_max_ttl" -> { a with a_tui_privacy_max_ttl = Some (zi v) }
    | "tui_locale" -> { a with a_tui_locale = Some (unhex v) }
    | "tui_timezone" -> { a with a_tui_timezone = Some (unhex v) }
    | "report_cycles" -> { a with a_report_cycles = Some (zi v) }
    | "geoip_mmdb_file" -> { a with a_geoip_mmdb_file = Some (unhex v) }
    | "log_format" -> { a with a_log_format = Some (zi v) }
    | "log_filter" -> { a with a_log_filter = Some (unhex v) }
    | "log_span_events" -> { a with a_log_span_events = Some (zi v) }
    | "verbose" -> { a with a_verbose = b v }
    | _ -> failwith ("cli key " ^ k)) empty_args (entries s)

let parse_file s : configFile =
  if s = "D" then configFile_default else begin
    let tr = ref None and st = ref None and th = ref None and bi = ref None and tu = ref None and dn = ref None and rp = ref None in
    let upd r e f = r := Some (f (match !r with Some x -> x | None -> e)) in
    List.iter (fun (k, v) ->
      if prefixed "sec." k then begin
        match String.sub k 4 (String.length k - 4) with
        | "trippy" -> upd tr empty_trippy (fun x -> x) | "strategy" -> upd st empty_strategy (fun x -> x)
        | "theme_colors" -> upd th [] (fun x -> x) | "bindings" -> upd bi empty_bindings (fun x -> x)
        | "tui" -> upd tu empty_tui (fun x -> x) | "dns" -> upd dn empty_dns (fun x -> x)
        | "report" -> upd rp empty_report (fun x -> x) | x -> failwith ("section " ^ x)
      end
      else if prefixed "theme." k then upd th [] (fun l -> l @ [(z_of_int (suffix_int "theme." k), zi v)])
      else if prefixed "bind." k then upd bi empty_bindings (fun x -> { x with cb_items = x.cb_items @ [(z_of_int (suffix_int "bind." k), zi v)] })
      else match k with
      | "toggle_privacy" -> upd bi empty_bindings (fun x -> { x with cb_deprecated_toggle_privacy = Some (zi v) })
      | "tui_max_samples" -> upd tu empty_tui (fun x -> { x with cu_deprecated_tui_max_samples = Some (zi v) })
      | "tui_max_flows" -> upd tu empty_tui (fun x -> { x with cu_deprecated_tui_max_flows = Some (zi v) })
      | "mode" -> upd tr empty_trippy (fun x -> { x with ct_mode = Some (mode_of (i v)) })
      | "unprivileged" -> upd tr empty_trippy (fun x -> { x with ct_unprivileged = Some (b v) })
      | "log_format" -> upd tr empty_trippy (fun x -> { x with ct_log_format = Some (zi v) })
      | "log_filter" -> upd tr empty_trippy (fun x -> { x with ct_log_filter = Some (unhex v) })
      | "log_span_events" -> upd tr empty_trippy (fun x -> { x with ct_log_span_events = Some (zi v) })
      | "protocol" -> upd st empty_strategy (fun x -> { x with cs_protocol = Some (proto_of (i v)) })
      | "addr_family" -> upd st empty_strategy (fun x -> { x with cs_addr_family = Some (fam_of (i v)) })
      | "target_port" -> upd st empty_strategy (fun x -> { x with cs_target_port = Some (zi v) })
      | "source_port" -> upd st empty_strategy (fun x -> { x with cs_source_port = Some (zi v) })
      | "source_address" -> upd st empty_strategy (fun x -> { x with cs_source_address = Some (unhex v) })
      | "interface" -> upd st empty_strategy (fun x -> { x with cs_interface = Some (unhex v) })
      | "min_round_duration" -> upd st empty_strategy (fun x -> { x with cs_min_round_duration = Some (zi v) })
      | "max_round_duration" -> upd st empty_strategy (fun x -> { x with cs_max_round_duration = Some (zi v) })
      | "initial_sequence" -> upd st empty_strategy (fun x -> { x with cs_initial_sequence = Some (zi v) })
      | "multipath_strategy" -> upd st empty_strategy (fun x -> { x with cs_multipath_strategy = Some (strat_of (i v)) })
      | "grace_duration" -> upd st empty_strategy (fun x -> { x with cs_grace_duration = Some (zi v) })
      | "max_inflight" -> upd st empty_strategy (fun x -> { x with cs_max_inflight = Some (zi v) })
      | "first_ttl" -> upd st empty_strategy (fun x -> { x with cs_first_ttl = Some (zi v) })
      | "max_ttl" -> upd st empty_strategy (fun x -> { x with cs_max_ttl = Some (zi v) })
      | "packet_size" -> upd st empty_strategy (fun x -> { x with cs_packet_size = Some (zi v) })
      | "payload_pattern" -> upd st empty_strategy (fun x -> { x with cs_payload_pattern = Some (zi v) })
      | "tos" -> upd st empty_strategy (fun x -> { x with cs_tos = Some (zi v) })
      | "icmp_extensions" -> upd st empty_strategy (fun x -> { x with cs_icmp_extensions = Some (b v) })
      | "read_timeout" -> upd st empty_strategy (fun x -> { x with cs_read_timeout = Some (zi v) })
      | "max_samples" -> upd st empty_strategy (fun x -> { x with cs_max_samples = Some (zi v) })
      | "max_flows" -> upd st empty_strategy (fun x -> { x with cs_max_flows = Some (zi v) })
      | "dns_resolve_method" -> upd dn empty_dns (fun x -> { x with cd_dns_resolve_method = Some (dns_of (i v)) })
      | "dns_resolve_all" -> upd dn empty_dns (fun x -> { x with cd_dns_resolve_all = Some (b v) })
      | "dns_lookup_as_info" -> upd dn empty_dns (fun x -> { x with cd_dns_lookup_as_info = Some (b v) })
      | "dns_timeout" -> upd dn empty_dns (fun x -> { x with cd_dns_timeout = Some (zi v) })
      | "dns_ttl" -> upd dn empty_dns (fun x -> { x with cd_dns_ttl = Some (zi v) })
      | "report_cycles" -> upd rp empty_report (fun _ -> Some (zi v))
      | "tui_preserve_screen" -> upd tu empty_tui (fun x -> { x with cu_tui_preserve_screen = Some (b v) })
      | "tui_refresh_rate" -> upd tu empty_tui (fun x -> { x with cu_tui_refresh_rate = Some (zi v) })
      | "tui_privacy_max_ttl" -> upd tu empty_tui (fun x -> { x with cu_tui_privacy_max_ttl = Some (zi v) })
      | "tui_address_mode" -> upd tu empty_tui (fun x -> { x with cu_tui_address_mode = Some (zi v) })
      | "tui_as_mode" -> upd tu empty_tui (fun x -> { x with cu_tui_as_mode = Some (zi v) })
      | "tui_icmp_extension_mode" -> upd tu empty_tui (fun x -> { x with cu_tui_icmp_extension_mode = Some (zi v) })
      | "tui_geoip_mode" -> upd tu empty_tui (fun x -> { x with cu_tui_geoip_mode = Some (geo_of (i v)) })
      | "tui_max_addrs" -> upd tu empty_tui (fun x -> { x with cu_tui_max_addrs = Some (zi v) })
      | "geoip_mmdb_file" -> upd tu empty_tui (fun x -> { x with cu_geoip_mmdb_file = Some (unhex v) })
      | "tui_custom_columns" -> upd tu empty_tui (fun x -> { x with cu_tui_custom_columns = Some (unhex v) })
      | "tui_locale" -> upd tu empty_tui (fun x -> { x with cu_tui_locale = Some (unhex v) })
      | "tui_timezone" -> upd tu empty_tui (fun x -> { x with cu_tui_timezone = Some (unhex v) })
      | _ -> failwith ("file key " ^ k)) (entries s);
    { cf_trippy = !tr; cf_strategy = !st; cf_theme_colors = !th; cf_bindings = !bi; cf_tui = !tu; cf_dns = !dn; cf_report = !rp }
  end

let err_kind = function
  | EDeprecated -> "deprecated" | EColumnCode -> "column_code" | ETimezone -> "timezone" | ESourcePort -> "source_port"
  | EPorts -> "ports" | EPrivilege -> "privilege" | ELogging -> "logging" | EStrategy -> "strategy"
  | EProtocolStrategy -> "protocol_strategy" | EMulti -> "multi" | EFlows -> "flows" | ETtl -> "ttl"
  | EMaxInflight -> "max_inflight" | EReadTimeout -> "read_timeout" | ERoundDuration -> "round_duration"
  | EGraceDuration -> "grace_duration" | EPacketSize -> "packet_size" | ERefreshRate -> "refresh_rate"
  | EReportCycles -> "report_cycles" | EDns -> "dns" | EGeoip -> "geoip" | ECustomColumns -> "custom_columns"
  | EBindings -> "bindings"

let optz = function None -> "none" | Some z -> zs z
let opts = function None -> "none" | Some s -> hex s
let bz x = if x then "1" else "0"
let portdir_tok = function
  | PdNone -> "N" | FixedSrc p -> "S" ^ zs p | FixedDest p -> "D" ^ zs p | FixedBoth (s, d) -> "B" ^ zs s ^ ":" ^ zs d
let zlist l = String.concat "," (List.map zs l)

let render_cfg (c : trippyConfig) pid =
  let f = [
    "targets", string_of_int (List.length c.tc_targets);
    "protocol", (match c.tc_protocol with Icmp -> "0" | Udp -> "1" | Tcp -> "2");
    "addr_family", (match c.tc_addr_family with Ipv4Only -> "0" | Ipv6Only -> "1" | Ipv6thenIpv4 -> "2" | Ipv4thenIpv6 -> "3" | FamSystem -> "4");
    "first_ttl", zs c.tc_first_ttl;
    "max_ttl", zs c.tc_max_ttl;
    "min_round_duration", zs c.tc_min_round_duration;
    "max_round_duration", zs c.tc_max_round_duration;
    "grace_duration", zs c.tc_grace_duration;
    "max_inflight", zs c.tc_max_inflight;
    "initial_sequence", zs c.tc_initial_sequence;
    "tos", zs c.tc_tos;
    "icmp_extensions", (match c.tc_icmp_extension_parse_mode with ExtDisabled -> "0" | ExtEnabled -> "1");
    "read_timeout", zs c.tc_read_timeout;
    "packet_size", zs c.tc_packet_size;
    "payload_pattern", zs c.tc_payload_pattern;
    "source_address", opts c.tc_source_addr;
    "interface", opts c.tc_interface;
    "multipath_strategy", (match c.tc_multipath_strategy with Classic -> "0" | Paris -> "1" | Dublin -> "2");
    "port_direction", portdir_tok c.tc_port_direction;
    "dns_timeout", zs c.tc_dns_timeout;
    "dns_ttl", zs c.tc_dns_ttl;
    "dns_resolve_method", (match c.tc_dns_resolve_method with RmSystem -> "0" | RmResolv -> "1" | RmGoogle -> "2" | RmCloudflare -> "3");
    "dns_lookup_as_info", bz c.tc_dns_lookup_as_info;
    "max_samples", zs c.tc_max_samples;
    "max_flows", zs c.tc_max_flows;
    "tui_preserve_screen", bz c.tc_tui_preserve_screen;
    "tui_refresh_rate", zs c.tc_tui_refresh_rate;
    "tui_privacy_max_ttl", optz c.tc_tui_privacy_max_ttl;
    "tui_address_mode", zs c.tc_tui_address_mode;
    "tui_as_mode", zs c.tc_tui_as_mode;
    "tui_custom_columns", hex c.tc_tui_custom_columns;
    "tui_icmp_extension_mode", zs c.tc_tui_icmp_extension_mode;
    "tui_geoip_mode", string_of_int (geo_ix c.tc_tui_geoip_mode);
    "tui_max_addrs", optz c.tc_tui_max_addrs;
    "tui_locale", opts c.tc_tui_locale;
    "tui_timezone", opts c.tc_tui_timezone;
    "theme", zlist c.tc_tui_theme;
    "bindings", zlist c.tc_tui_bindings;
    "mode", string_of_int (mode_ix c.tc_mode);
    "unprivileged", (match c.tc_privilege_mode with PmPrivileged -> "0" | PmUnprivileged -> "1");
    "dns_resolve_all", bz c.tc_dns_resolve_all;
    "report_cycles", zs c.tc_report_cycles;
    "geoip_mmdb_file", opts c.tc_geoip_mmdb_file;
    "max_rounds", optz c.tc_max_rounds;
    "verbose", bz c.tc_verbose;
    "log_format", zs c.tc_log_format;
    "log_filter", hex c.tc_log_filter;
    "log_span_events", zs c.tc_log_span_events;
    "max_flows_eff", zs (trippyConfig_max_flows c);
    "builder", (if builder_accepts_src (start_tracer_cfg c [z_of_int 10; Z0; Z0; z_of_int 1] pid) c.tc_source_addr then "ok" else "bad");
  ] in
  "ok " ^ String.concat " " (List.map (fun (k, v) -> k ^ "=" ^ v) f)

(* the configuration token of the strategy cases (same format as d_strat.ml; repeated here because the area
   modules are compiled in alphabetical order) *)
let parse_portdir s =
  let rest = String.sub s 1 (String.length s - 1) in
  match s.[0] with
  | 'N' -> PdNone
  | 'S' -> FixedSrc (zi rest)
  | 'D' -> FixedDest (zi rest)
  | _ -> (match String.split_on_char ':' rest with [a; b] -> FixedBoth (zi a, zi b) | _ -> failwith "portdir")
let parse_scfg s =
  match String.split_on_char ',' s with
  | [p; m; d; tgt; tid; mr; ft; mt; gr; mi; is; mn; mx] ->
    { target_addr = unhex tgt;
      proto = (match p with "I" -> Icmp | "U" -> Udp | _ -> Tcp);
      trace_identifier = zi tid;
      max_rounds = (if mr = "0" then None else Some (zi mr));
      first_ttl = zi ft; max_ttl = zi mt; grace_duration = zi gr; max_inflight = zi mi;
      initial_sequence = zi is;
      multipath = (match m with "C" -> Classic | "P" -> Paris | _ -> Dublin);
      port_direction = parse_portdir d;
      min_round_duration = zi mn; max_round_duration = zi mx }
  | _ -> failwith "cfg"

let run_case (toks : string list) : string option =
  match toks with
  | ["c16loc"; named; bits] ->
    let locs = List.init (String.length bits) (fun i -> bits.[i] = '1') in
    Some (Printf.sprintf "src=%d" (int_of_nat (chosen_source (named = "1") locs)))
  | ["c16"; priv; pid; tz; file; cli] ->
    let a = parse_cli cli in
    let ntargets = List.fold_left (fun n (k, v) -> if k = "targets" then max 1 (int_of_string v) else n) 1 (entries cli) in
    let a = { a with a_targets = List.init ntargets (fun _ -> []) } in
    let f = parse_file file in
    let valid = List.map unhex (split_on ',' tz) in
    let p = { has_privileges = priv.[0] = '1'; needs_privileges = priv.[1] = '1' } in
    if args_conflict a then Some "err:parse" else
    Some (match build_config (fun s -> List.mem s valid) a f p (zi pid) with
          | COk c -> render_cfg c (zi pid)
          | CErr e -> "err:" ^ err_kind e)
  | "e2efam" :: cfg :: src :: _ ->
    (* the builder with an explicit source address (hex octets) *)
    let c = parse_scfg cfg in
    Some (if builder_accepts_src c (Some (unhex src)) then "accept" else "reject")
  | "e2e" :: cfg :: _
  | "c16grid" :: cfg :: _ ->
    let c = parse_scfg cfg in
    Some (if builder_accepts c then "accept" else "reject")
  | _ -> None
