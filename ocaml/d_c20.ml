(* C20: the interleaving model replays the schedule the controlled harness enforced *)
open Model
open D_base

let rec rep n x = if n <= 0 then [] else x :: rep (n - 1) x

let run_case (toks : string list) : string option =
  match toks with
  | ["c20"; _ms; _mf; counts; pre; order; _rounds] ->
    let counts = List.map int_of_string (split_on ',' counts) in
    let pre = List.mapi (fun i s -> match String.split_on_char '.' s with
        | [r; y; c] -> (i, int_of_string r, int_of_string y, c = "1") | _ -> failwith "pre") (split_on ',' pre) in
    (* completions: "R0@1" = reader 0 finished when the writer had completed 1 round *)
    let order = List.map (fun s -> match String.split_on_char '@' s with
        | [w; at] -> (w.[0], int_of_string (String.sub w 1 (String.length w - 1)), int_of_string at) | _ -> failwith "order") (split_on ',' order) in
    let nrounds = List.length counts in
    let m = fun r -> nat_of_int (List.nth counts (int_of_nat r) + 1) in
    let nthreads = List.length pre in
    let sys = ref (tinit (nat_of_int nthreads) (nat_of_int nthreads)) in
    let stepm t = sys := tstep (nat_of_int nrounds) m !sys t in
    let blocked = Array.make nthreads "--" in
    List.iteri (fun ri c ->
        stepm TH;                                         (* acquire *)
        for seg = 0 to c do
          stepm TH;                                       (* sub-update *)
          if seg < c then
            List.iter (fun (i, r, y, with_c) ->
                if r = ri && y = seg then begin
                  let before = !sys in
                  stepm (TR (nat_of_int i));
                  let rb = (!sys == before) || (List.nth (rds !sys) i = RIdle) in
                  let cb = if with_c then begin
                      stepm (TC (nat_of_int i)); List.nth (cls !sys) i = CIdle end else true in
                  blocked.(i) <- (if rb then "1" else "0") ^ (if cb then "1" else "0")
                end) pre
        done;
        stepm TH;                                         (* release *)
        (* threads that completed after this round, in the observed order *)
        List.iter (fun (k, i, at) ->
            if at = ri + 1 then
              (match k with
               | 'R' -> List.iter stepm (rep 3 (TR (nat_of_int i)))
               | _ -> List.iter stepm (rep 3 (TC (nat_of_int i))))) order
      ) counts;
    let ob = List.map (fun ((_, b), r) -> Printf.sprintf "%d-%d" (int_of_nat b) (int_of_nat r)) (obs !sys) in
    let fin = Printf.sprintf "%d-%d" (int_of_nat (base !sys)) nrounds in
    let ord = List.map (fun (k, i, at) -> Printf.sprintf "%c%d@%d" k i at) order in
    Some (Printf.sprintf "blocked=%s order=%s obs=%s final=%s"
            (if nthreads = 0 then "-" else String.concat "," (Array.to_list blocked))
            (if ord = [] then "-" else String.concat "," ord)
            (if ob = [] then "-" else String.concat ";" ob) fin)
  | "c20stress" :: _ -> Some "bad=0"
  | _ -> None
