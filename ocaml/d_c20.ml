(* C20: the interleaving model replays the schedule the controlled harness enforced.  Which of the threads released in
   one round gets the lock first afterwards is not controlled: the model is run for every completion order and all
   resulting observation tuples are printed as alternatives. *)
open Model
open D_base

let rec rep n x = if n <= 0 then [] else x :: rep (n - 1) x

let rec perms = function
  | [] -> [[]]
  | l -> List.concat_map (fun x -> List.map (fun p -> x :: p) (perms (List.filter (fun y -> y <> x) l))) l

(* cartesian product of per-round alternatives *)
let rec product = function
  | [] -> [[]]
  | alts :: rest -> let r = product rest in List.concat_map (fun a -> List.map (fun t -> a :: t) r) alts

let run_case (toks : string list) : string option =
  match toks with
  | ["c20"; _ms; _mf; counts; pre; _rounds] ->
    let counts = List.map int_of_string (split_on ',' counts) in
    let pre = List.mapi (fun i s -> match String.split_on_char '.' s with
        | [r; y; c] -> (i, int_of_string r, int_of_string y, c = "1") | _ -> failwith "pre") (split_on ',' pre) in
    let nrounds = List.length counts in
    let m = fun r -> nat_of_int (List.nth counts (int_of_nat r) + 1) in
    let nthreads = List.length pre in
    (* threads released in round ri (their yield point exists in that round) *)
    let released ri = List.concat_map (fun (i, r, y, with_c) ->
        if r = ri && y < List.nth counts ri then ((`R, i) :: (if with_c then [(`C, i)] else [])) else []) pre in
    let per_round = List.mapi (fun ri _ -> perms (released ri)) counts in
    let run_one (orders : ([`R | `C] * int) list list) =
      let sys = ref (tinit (nat_of_int nthreads) (nat_of_int nthreads)) in
      let stepm t = sys := tstep (nat_of_int nrounds) m !sys t in
      let blocked = Array.make nthreads "--" in
      List.iteri (fun ri c ->
          stepm TH;
          for seg = 0 to c do
            stepm TH;
            if seg < c then
              List.iter (fun (i, r, y, with_c) ->
                  if r = ri && y = seg then begin
                    stepm (TR (nat_of_int i));
                    let rb = List.nth (rds !sys) i = RIdle in
                    let cb = if with_c then begin stepm (TC (nat_of_int i)); List.nth (cls !sys) i = CIdle end else true in
                    blocked.(i) <- (if rb then "1" else "0") ^ (if cb then "1" else "0")
                  end) pre
          done;
          stepm TH;
          List.iter (fun (k, i) ->
              match k with
              | `R -> List.iter stepm (rep 3 (TR (nat_of_int i)))
              | `C -> List.iter stepm (rep 3 (TC (nat_of_int i)))) (List.nth orders ri)) counts;
      (* threads whose yield point was never reached are released at the very end, readers first *)
      List.iter (fun (i, r, y, with_c) ->
          if not (r < nrounds && y < List.nth counts r) then begin
            List.iter stepm (rep 3 (TR (nat_of_int i)));
            if with_c then List.iter stepm (rep 3 (TC (nat_of_int i)))
          end) pre;
      (* observations are appended in completion order: recover the reader index from the order of completion *)
      let completion = List.concat (List.mapi (fun ri _ -> List.filter_map (fun (k, i) -> if k = `R then Some i else None) (List.nth orders ri)) counts)
                       @ List.filter_map (fun (i, r, y, _) -> if not (r < nrounds && y < List.nth counts r) then Some i else None) pre in
      let ob = Array.make nthreads "-" in
      List.iteri (fun k ((_, b), r) ->
          match List.nth_opt completion k with
          | Some i -> ob.(i) <- Printf.sprintf "%d-%d" (int_of_nat b) (int_of_nat r)
          | None -> ()) (obs !sys);
      let fin = Printf.sprintf "%d-%d" (int_of_nat (base !sys)) nrounds in
      (String.concat "," (Array.to_list blocked), String.concat ";" (Array.to_list ob) ^ "~" ^ fin) in
    let results = List.map run_one (product per_round) in
    let blocked = match results with (b, _) :: _ -> b | [] -> "-" in
    let alts = List.sort_uniq compare (List.map snd results) in
    Some (Printf.sprintf "blocked=%s alts=%s" (if nthreads = 0 then "-" else blocked) (String.concat "!" alts))
  | ["c20park"; _ms; _mf; k; n; _rounds] ->
    (* k whole rounds, a reader acquires the lock and parks before its clone, the handler tries to start the next
       round (blocked in the model: the state does not change), the reader clones and releases, the remaining rounds *)
    let k = int_of_string k and n = int_of_string n in
    let m = fun _ -> nat_of_int 1 in
    let sys = ref (tinit (nat_of_int 1) (nat_of_int 0)) in
    let stepm t = sys := tstep (nat_of_int n) m !sys t in
    let whole_round () = stepm TH; stepm TH; stepm TH in
    for _ = 1 to k do whole_round () done;
    stepm (TR (nat_of_int 0));
    let before = hd !sys in
    stepm TH; stepm TH;
    let blocked = (hd !sys = before) in
    stepm (TR (nat_of_int 0)); stepm (TR (nat_of_int 0));
    for _ = k + 1 to n do whole_round () done;
    let reader = (match obs !sys with ((_, b), r) :: _ -> Printf.sprintf "%d-%d" (int_of_nat b) (int_of_nat r) | [] -> "-") in
    let fin = (match hd !sys with HIdle r -> Printf.sprintf "%d-%d" (int_of_nat (base !sys)) (int_of_nat r) | _ -> "mid") in
    Some (Printf.sprintf "blocked=%s reader=%s final=%s" (if blocked then "1" else "0") reader fin)
  | "c20stress" :: _ -> Some "bad=0"
  | _ -> None
