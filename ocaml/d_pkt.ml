(* C14 (ICMP extension codec) and the packet half of C04 (accessors of every packet view) *)
open Model
open D_base

let fam_of = function "4" -> FamV4 | "6" -> FamV6 | _ -> failwith "fam"
let kind_of = function "te" -> KTimeExceeded | "du" -> KDestinationUnreachable | _ -> failwith "kind"

let show (f : 'a -> string) (r : 'a result) : string =
  match r with Ok v -> f v | Err _ -> "err" | Fault x -> "fault:" ^ fault_name x

let hex0 l = hex l
let opt_hex = function None -> "~" | Some l -> hex l
let exts_tok es = let h = hex (enc_exts es) in "+" ^ (if h = "-" then "" else h)
let opt_exts = function None -> "-" | Some es -> exts_tok es

(* offsets of iterator items: every item is a suffix of the buffer *)
let offsets (n : int) (items : z list list) : string =
  if items = [] then "-" else String.concat "," (List.map (fun it -> string_of_int (n - List.length it)) items)

let member_tok (m : mplsLabelStackMember) =
  Printf.sprintf "%s/%s/%s/%s" (zs m.mpls_label) (zs m.mpls_exp) (zs m.mpls_bos) (zs m.mpls_ttl)

(* ---- spec builder input (tie between the Coq builder and the Rust oracle's builder) ---- *)
let parse_lse s =
  match String.split_on_char '/' s with
  | [l; e; b; t] -> { lse_label = zi l; lse_exp = zi e; lse_s = zi b; lse_ttl = zi t }
  | _ -> failwith "lse"
let parse_obj s =
  match String.split_on_char ':' s with
  | ["M"; ct; st] -> ObjMpls (zi ct, List.map parse_lse (split_on ';' st))
  | ["O"; c; ct; p] -> ObjOther (zi c, zi ct, unhex p)
  | _ -> failwith "obj"

(* ---- accessor table of Packet/Views.v: names in the order of view_accessors ---- *)
let icmp_names = ["type"; "code"; "checksum"]
let view_of = function
  | "ipv4" -> VIpv4, ["version"; "ihl"; "dscp"; "ecn"; "tos"; "total_length"; "identification"; "flags_frag"; "ttl";
                      "protocol"; "checksum"; "source"; "destination"; "options_raw"; "payload"]
  | "ipv6" -> VIpv6, ["version"; "traffic_class"; "flow_label"; "payload_length"; "next_header"; "hop_limit"; "source";
                      "destination"; "payload"]
  | "udp" -> VUdp, ["source"; "destination"; "length"; "checksum"; "payload"]
  | "tcp" -> VTcp, ["source"; "destination"; "sequence"; "acknowledgement"; "data_offset"; "reserved"; "flags";
                    "window_size"; "checksum"; "urgent_pointer"; "options_raw"; "payload"]
  | "icmp4" | "icmp6" -> VIcmp, icmp_names
  | "echoreq4" | "echoreq6" -> VEchoRequest, icmp_names @ ["identifier"; "sequence"; "payload"]
  | "echorep4" | "echorep6" -> VEchoReply, icmp_names @ ["identifier"; "sequence"; "payload"]
  | "te4" -> VTimeExceeded FamV4, icmp_names @ ["length"; "payload"; "payload_raw"; "extension"]
  | "te6" -> VTimeExceeded FamV6, icmp_names @ ["length"; "payload"; "payload_raw"; "extension"]
  | "du4" -> VDestinationUnreachable FamV4, icmp_names @ ["length"; "next_hop_mtu"; "payload"; "payload_raw"; "extension"]
  | "du6" -> VDestinationUnreachable FamV6, icmp_names @ ["length"; "next_hop_mtu"; "payload"; "payload_raw"; "extension"]
  | "exts" -> VExtensions, ["header"; "objects"]
  | "exthdr" -> VExtensionHeader, ["version"; "checksum"]
  | "extobj" -> VExtensionObject, ["length"; "class_num"; "class_subtype"; "payload"]
  | "mplsstack" -> VMplsLabelStack, ["members"]
  | "mplsmember" -> VMplsLabelStackMember, ["label"; "exp"; "bos"; "ttl"]
  | _ -> failwith "view"

(* views whose Rust type implements Debug: fmt calls the getters and payload() *)
let has_debug = function "exts" | "mplsstack" -> false | _ -> true

let aval_tok n = function
  | AInt z -> zs z
  | ABytes l -> hex l
  | AOptBytes o -> opt_hex o
  | AItems l -> offsets n l

(* FNV-1a 32 of a byte list, for the compact sweep lines *)
let fnv (l : z list) : int =
  List.fold_left (fun h b -> ((h lxor (int_of_z b)) * 16777619) land 0xFFFFFFFF) 0x811c9dc5 l
let digest l = Printf.sprintf "%d.%08x" (List.length l) (fnv l)
let dig_bytes (r : z list result) = match r with Ok l -> digest l | Err _ -> "E" | Fault _ -> "F"
let dig_opt (r : z list option result) =
  match r with Ok None -> "~" | Ok (Some l) -> digest l | Err _ -> "E" | Fault _ -> "F"

let filler seed len = List.init len (fun i -> z_of_int ((seed * 131 + i * 31 + (i lsr 8) * 7) land 0xff))
let set_byte k v l = List.mapi (fun i x -> if i = k then z_of_int v else x) l

let nth_acc (v : view) (buf : z list) (k : int) : aval result =
  match view_all v buf with
  | Ok accs -> List.nth accs k
  | Err e -> Err e
  | Fault f -> Fault f
let dig_aval = function
  | Ok (ABytes l) -> digest l
  | Ok (AOptBytes None) -> "~"
  | Ok (AOptBytes (Some l)) -> digest l
  | Ok (AItems l) -> string_of_int (List.length l)
  | Ok (AInt z) -> zs z
  | Err _ -> "E"
  | Fault _ -> "F"

(* (view, positions of the swept field, value domain, indexes of the accessors reported) *)
let objlen_domain len =
  List.sort_uniq compare
    (List.filter (fun v -> v >= 0 && v <= 65535)
       [0; 1; 2; 3; 4; 5; 6; 7; 8; 9; 11; 12; 13; 255; 256; 257; 0x7fff; 0x8000; 0xfffe; 0xffff;
        len - 5; len - 4; len - 3; len - 2; len - 1; len; len + 1; len + 2; len + 3; len + 4; len + 5; len + 256])

let run_case (toks : string list) : string option =
  match toks with
  | ["c14"; fam; kind; pm; msg; _expp; _expe] ->
    let fam = fam_of fam and kind = kind_of kind and buf = unhex msg in
    let pm = if pm = "E" then ExtEnabled else ExtDisabled in
    let p = show hex0 (match new_view (nat_of_int 8) buf with Ok b -> icmp_error_payload fam b | Err e -> Err e | Fault f -> Fault f) in
    let x = show opt_hex (match new_view (nat_of_int 8) buf with Ok b -> icmp_error_extension fam b | Err e -> Err e | Fault f -> Fault f) in
    let ne = show (fun (n, e) -> hex n ^ "/" ^ opt_exts e) (nested_and_extensions pm kind fam buf) in
    Some (Printf.sprintf "p=%s x=%s ne=%s" p x ne)
  | ["exts"; e] ->
    Some (show exts_tok (extensions_try_from (unhex e)))
  | ["iter"; "objs"; b] ->
    let buf = unhex b in
    Some (match new_view (nat_of_int 4) buf with
        | Ok p -> show (offsets (List.length buf)) (extensions_objects p)
        | _ -> "err")
  | ["iter"; "mpls"; b] ->
    let buf = unhex b in
    Some (match new_view (nat_of_int 4) buf with
        | Ok p ->
          show (offsets (List.length buf)) (mpls_label_stack_members p) ^ " " ^
          show (fun ms -> if ms = [] then "-" else String.concat "," (List.map member_tok ms)) (mpls_label_stack_from p)
        | _ -> "err")
  | ["build"; fam; fixed; orig; objs; mode] ->
    let objs = List.map parse_obj (split_on ',' objs) in
    let mode = if mode = "C" then BmCompliant else BmLegacy in
    Some (hex (build_message (fam_of fam) (unhex fixed) (unhex orig) objs mode))
  | ["view"; name; b] ->
    let buf = unhex b in
    let (v, names) = view_of name in
    (match view_all v buf with
     | Ok accs ->
       let n = List.length buf in
       let toks = List.map2 (fun nm r -> nm ^ "=" ^ show (aval_tok n) r) names accs in
       let dbg =
         if not (has_debug name) then []
         else if List.exists (function Fault _ -> true | _ -> false) accs then ["dbg=fault:debug"] else ["dbg=ok"] in
       Some (String.concat " " (toks @ dbg))
     | Err _ -> Some "err"
     | Fault f -> Some ("fault:" ^ fault_name f))
  | ["sweep"; name; field; len; seed] ->
    let len = int_of_string len and seed = int_of_string seed in
    let base = filler seed len in
    let (v, _) = view_of name in
    let (prep, setv, dom, accs) =
      match name, field with
      | "ipv4", "ihl" -> ((fun b -> b), (fun x b -> set_byte 0 (0x40 lor x) b), List.init 16 (fun i -> i), [13; 14])
      | "tcp", "doff" -> ((fun b -> b), (fun x b -> set_byte 12 ((x lsl 4) lor (seed land 15)) b), List.init 16 (fun i -> i), [10; 11])
      | ("te4" | "te6"), "len" ->
        let off = if name = "te4" then 5 else 4 in
        ((fun b -> b), (fun x b -> set_byte off x b), List.init 256 (fun i -> i), [4; 6])
      | ("du4" | "du6"), "len" ->
        let off = if name = "du4" then 5 else 4 in
        ((fun b -> b), (fun x b -> set_byte off x b), List.init 256 (fun i -> i), [5; 7])
      | "ipv6", "plen" ->
        ((fun b -> b), (fun x b -> set_byte 4 (x lsr 8) (set_byte 5 (x land 255) b)), objlen_domain (len - 40), [8])
      | "extobj", "objlen" ->
        ((fun b -> b), (fun x b -> set_byte 0 (x lsr 8) (set_byte 1 (x land 255) b)), objlen_domain len, [3])
      | "exts", "objlen" ->
        ((fun b -> set_byte 0 0x20 (if seed land 1 = 1 && len > 6 then set_byte 6 1 b else b)),
         (fun x b -> if len >= 6 then set_byte 4 (x lsr 8) (set_byte 5 (x land 255) b) else b), objlen_domain (len - 4), [1])
      | _ -> failwith "sweep" in
    let base = prep base in
    let one x =
      let buf = setv x base in
      let ds = List.map (fun k -> dig_aval (nth_acc v buf k)) accs in
      let ds = if name = "exts" then ds @ [match extensions_try_from buf with
          | Ok es -> digest (enc_exts es) | Err _ -> "E" | Fault _ -> "F"] else ds in
      string_of_int x ^ ":" ^ String.concat "|" ds in
    Some (String.concat "," (List.map one dom))
  | _ -> None
