(* Receive path (C04 receive half, C02 decode half): recv / tcpsock / probe case lines *)
open Model
open D_base

(* self-contained copies of the two helpers of d_strat.ml needed here (build order is alphabetical) *)
let err_tok = function
  | EIo _ -> "io" | EPacket -> "pkt" | EMissingAddr -> "missing" | EAddressInUse -> "inuse"
  | EInsufficientCapacity -> "cap" | EInvalidPacketSize -> "size" | EProbeFailed -> "failed"
  | EBadConfig -> "badconfig" | EOther -> "other"
let parse_portdir s =
  match s.[0] with
  | 'N' -> PdNone
  | 'S' -> FixedSrc (zi (String.sub s 1 (String.length s - 1)))
  | 'D' -> FixedDest (zi (String.sub s 1 (String.length s - 1)))
  | _ ->
    (match String.split_on_char ':' (String.sub s 1 (String.length s - 1)) with
     | [a; b] -> FixedBoth (zi a, zi b) | _ -> failwith "portdir")
let parse_scfg s =
  match String.split_on_char ',' s with
  | [p; m; d; tgt; tid; mr; ft; mt; gr; mi; is; mn; mx] ->
    { target_addr = unhex tgt;
      proto = (match p with "I" -> Icmp | "U" -> Udp | _ -> Tcp);
      trace_identifier = zi tid;
      max_rounds = (if mr = "0" then None else Some (zi mr));
      first_ttl = zi ft; max_ttl = zi mt; grace_duration = zi gr; max_inflight = zi mi;
      initial_sequence = zi is;
      multipath = (match m with "C" -> Classic | "P" -> Paris | _ -> Dublin);
      port_direction = parse_portdir d;
      min_round_duration = zi mn; max_round_duration = zi mx }
  | _ -> failwith "scfg"

let parse_rcfg s =
  match String.split_on_char ',' s with
  | [p; pr; e; src; dst; pat] ->
    { rc_src = unhex src; rc_dest = unhex dst;
      rc_proto = (match p with "I" -> Icmp | "U" -> Udp | _ -> Tcp);
      rc_privileged = (pr = "p"); rc_ext = (e = "e"); rc_pattern = zi pat }
  | _ -> failwith "rcfg"

let optz_str = function None -> "-" | Some z -> zs z
let exts_str = function None -> "-" | Some l -> "+" ^ (if l = [] then "" else hex l)
let proto_str = function
  | PIcmp (id, q, tos) -> Printf.sprintf "i/%s/%s/%s" (zs id) (zs q) (optz_str tos)
  | PUdp (id, da, sp, dp, tos, ex, ac, pl, mg) ->
    Printf.sprintf "u/%s/%s/%s/%s/%s/%s/%s/%s/%s" (zs id) (hex da) (zs sp) (zs dp) (optz_str tos) (zs ex) (zs ac) (zs pl)
      (if mg then "1" else "0")
  | PTcp (da, sp, dp, tos) -> Printf.sprintf "t/%s/%s/%s/%s" (hex da) (zs sp) (zs dp) (optz_str tos)
let response_str r =
  let (kind, d, code, e) = match r with
    | RTimeExceeded (d, c, e) -> ("te", d, zs c, exts_str e)
    | RDestUnreach (d, c, e) -> ("du", d, zs c, exts_str e)
    | REchoReply (d, c) -> ("er", d, zs c, "-")
    | RTcpReply d -> ("tr", d, "0", "-")
    | RTcpRefused d -> ("tf", d, "0", "-") in
  Printf.sprintf "%s/%s/%s/%s/%s/%s" kind (zs d.r_recv) (hex d.r_addr) code e (proto_str d.r_proto)

let observe (res : response option result) (expect : string) : string =
  match res with
  | Fault f -> "fault:" ^ fault_name f
  | Err e -> "err:" ^ err_tok e
  | Ok None -> "none"
  | Ok (Some r) ->
    let base = response_str r in
    if expect = "-" then base else
      (match String.split_on_char '=' expect with
       | _ :: cfg :: _ ->
         (match accept_info (parse_scfg cfg) r with
          | Ok ((acc, q), tid) -> Printf.sprintf "%s acc=%s seq=%s tid=%s" base (if acc then "1" else "0") (zs q) (zs tid)
          | Err e -> base ^ " err:" ^ err_tok e
          | Fault f -> "fault:" ^ fault_name f)
       | _ -> base)

let parse_outcome s =
  let pre p = String.length s >= String.length p && String.sub s 0 (String.length p) = p in
  let rest p = String.sub s (String.length p) (String.length s - String.length p) in
  if pre "conn:" then TcpConnected (Some (unhex (rest "conn:")))
  else if pre "unreach:" then TcpHostUnreach (Some (unhex (rest "unreach:")))
  else if s = "refused" then TcpConnRefused
  else if s = "other" then TcpOtherError
  else TcpOtherError

let run_case (toks : string list) : string option =
  match toks with
  | "recv" :: cfg :: from :: bytes :: rest ->
    let c = parse_rcfg cfg in
    let expect = (match rest with e :: _ -> e | [] -> "-") in
    let b = unhex bytes in
    let res =
      if List.length c.rc_dest = 16
      then recv6 c Z0 (if from = "-" then None else Some (unhex from)) b
      else recv4 c Z0 b in
    Some (observe res expect)
  | "recvseq" :: cfg :: from :: list :: _ ->
    let c = parse_rcfg cfg in
    let one h =
      let b = unhex h in
      observe (if List.length c.rc_dest = 16
               then recv6 c Z0 (if from = "-" then None else Some (unhex from)) b
               else recv4 c Z0 b) "-" in
    Some (String.concat "|" (List.map one (split_on ',' list)))
  | ["tcpseq"; cfg; timeout_ms; ops] ->
    let c = parse_rcfg cfg in
    let timeout = Z.mul (zi timeout_ms) (z_of_int 1000000) in
    let now = ref Z0 and l = ref [] and outs = ref [] and queue = ref [] in
    List.iter (fun op0 ->
        (* S / R ops carry the clock reading at which the implementation ran them *)
        let (op, at) = (match String.split_on_char '@' op0 with [a; t] -> (a, Some (zi t)) | _ -> (op0, None)) in
        (match at with Some t -> now := t | None -> ());
        match op.[0] with
        | 'S' ->
          (match String.split_on_char '.' (String.sub op 1 (String.length op - 1)) with
           | [sp; dp; oc] ->
             let st = if oc = "pending" then SockPending else SockReady (parse_outcome oc) in
             (match tcp_push !l { te_state = st; te_sp = zi sp; te_dp = zi dp; te_start = !now } with
              | Ok l' -> l := l'; outs := "sent" :: !outs
              | Err e -> outs := ("err:" ^ err_tok e) :: !outs
              | Fault f -> outs := ("fault:" ^ fault_name f) :: !outs)
           | _ -> outs := "?" :: !outs)
        | 'T' -> outs := "t" :: !outs
        | 'B' -> outs := "b" :: !outs
        | 'Q' ->
          (match String.index_opt op ':' with
           | Some i ->
             let f = String.sub op 1 (i - 1) and b = String.sub op (i + 1) (String.length op - i - 1) in
             queue := !queue @ [((if f = "-" then None else Some (unhex f)), unhex b)];
             outs := "q" :: !outs
           | None -> outs := "?" :: !outs)
        | _ ->
          let (l', res) = recv_tcp_sockets_list c !now timeout !l in
          l := l';
          (* nothing from the TCP sockets: the ICMP socket is read - ONE queued datagram, else the read timeout;
             a datagram stays queued while a TCP socket answers *)
          let res = (match res with
              | Ok None ->
                (match !queue with
                 | (f, b) :: rest -> queue := rest; recv_probe c !now None (Readable (SrData (b, f)))
                 | [] -> recv_probe c !now None NotReadable)
              | r -> r) in
          (* the harness prints receive times as 0 (they are wall-clock readings) *)
          let zero_time o = (match String.split_on_char '/' o with
              | k :: _ :: rest when rest <> [] -> String.concat "/" (k :: "0" :: rest)
              | _ -> o) in
          outs := zero_time (observe res "-") :: !outs)
      (split_on ',' ops);
    Some (String.concat "|" (List.rev !outs))
  | ["recv2"; cfg; from; first; _second] ->
    (* one call consumes the first datagram only; the second stays queued *)
    let c = parse_rcfg cfg in
    let b = unhex first in
    let res = (if List.length c.rc_dest = 16
               then recv6 c Z0 (if from = "-" then None else Some (unhex from)) b
               else recv4 c Z0 b) in
    let res = (match c.rc_proto with Tcp -> (match recv_probe c Z0 None NotReadable with Ok None -> res | r -> r) | _ -> res) in
    Some (observe res "-" ^ " left=1")
  | ["sockerr"; cfg; what] ->
    let c = parse_rcfg cfg in
    let k = z_of_int 13 in
    let rd = (match what with
        | "select" -> SelectError k
        | "read" -> Readable (SrError k)
        | "wouldblock" -> Readable SrWouldBlock
        | _ -> NotReadable) in
    Some (observe (recv_probe c Z0 None rd) "-")
  | "tcpsock" :: cfg :: outcome :: sp :: dp :: rest ->
    let c = parse_rcfg cfg in
    let expect = (match rest with e :: _ -> e | [] -> "-") in
    let found = if outcome = "pending" then None else Some ((parse_outcome outcome, zi sp), zi dp) in
    Some (observe (recv_probe c Z0 found NotReadable) expect)
  | ["probe"; cfg; size; tos; initseq; seq; tid; sp; dp; ttl; flags] ->
    let c = parse_rcfg cfg in
    Some (match probe_sendto c (zi size) (zi tos) (zi initseq) (zi seq) (zi tid) (zi sp) (zi dp) (zi ttl) (zi flags) with
        | Ok b -> hex b
        | Err e -> "err:" ^ err_tok e
        | Fault f -> "fault:" ^ fault_name f)
  | _ -> None
