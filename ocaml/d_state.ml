(* State aggregation model (C05, C10, C15, C19): parse rounds, print every getter *)
open Model
open D_base

(* arbitrary-precision printing: positive -> hex string *)
let hex_of_pos (p : positive) : string =
  let rec bits p acc = match p with XH -> true :: acc | XO q -> bits q (false :: acc) | XI q -> bits q (true :: acc) in
  (* bits returns MSB first *)
  let bl = bits p [] in
  let n = List.length bl in
  let pad = (4 - n mod 4) mod 4 in
  let bl = List.init pad (fun _ -> false) @ bl in
  let buf = Buffer.create 16 in
  let rec go = function
    | a :: b :: c :: d :: rest ->
      let v = (if a then 8 else 0) + (if b then 4 else 0) + (if c then 2 else 0) + (if d then 1 else 0) in
      Buffer.add_char buf "0123456789abcdef".[v]; go rest
    | _ -> () in
  go bl; Buffer.contents buf
let hex_of_z = function Z0 -> "0" | Zpos p -> hex_of_pos p | Zneg p -> "-" ^ hex_of_pos p
let q_str (q : q) : string = "~" ^ hex_of_z q.qnum ^ "/" ^ hex_of_pos q.qden

let parse_probe s =
  match String.split_on_char '.' s with
  | [q; id; sp; dp; t; r; sent] ->
    { p_sequence = zi q; p_identifier = zi id; p_src_port = zi sp; p_dest_port = zi dp; p_ttl = zi t;
      p_round = zi r; p_sent = zi sent; p_flags = Z0 }
  | _ -> failwith "probe"
let parse_icmp s =
  let n () = zi (String.sub s 2 (String.length s - 2)) in
  match String.sub s 0 2 with
  | "te" -> ITimeExceeded (n ()) | "er" -> IEchoReply (n ()) | "du" -> IUnreachable (n ()) | _ -> INotApplicable
let parse_status s =
  if s = "N" then NotSent else if s = "K" then Skipped else
  match String.split_on_char ':' s with
  | ["F"; p] -> Failed (parse_probe p)
  | ["A"; p] ->
    (match List.rev (String.split_on_char '.' p) with
     | fl :: rest -> let pr = parse_probe (String.concat "." (List.rev rest)) in Awaited { pr with p_flags = zi fl }
     | [] -> failwith "awaited")
  | ["C"; p; host; recv; icmp; tos; ex; ac; exts] ->
    Complete { c_probe = parse_probe p; c_host = unhex host; c_received = zi recv; c_icmp = parse_icmp icmp;
               c_tos = D_strat.opt_z tos; c_expected = D_strat.opt_z ex; c_actual = D_strat.opt_z ac;
               c_exts = D_strat.parse_exts exts }
  | _ -> failwith ("status " ^ s)
let parse_round s =
  match String.split_on_char '/' s with
  | l :: reason :: rest ->
    let ps = String.concat "/" rest in
    { rr_probes = List.map parse_status (split_on ',' ps); rr_largest_ttl = zi l;
      rr_reason = (if reason = "tf" then TargetFound else RoundTimeLimitExceeded) }
  | _ -> failwith "round"
let parse_rounds s = List.map parse_round (split_on ';' s)

let oz = function None -> "-" | Some z -> zs z
let hop_str (h : hop) : string =
  let addrs = String.concat "+" (List.map (fun (a, n) -> hex a ^ "*" ^ zs n) h.h_addrs) in
  let samples = String.concat "+" (List.map zs h.h_samples) in
  let nat = match h.h_last_nat with NatNotApplicable -> "na" | NatNotDetected -> "nd" | NatDetected -> "det" in
  let sent = h.h_sent and recv = h.h_recv in
  (* derived figures: the Coq definitions of Core/State.v (theorem c05_derived), not OCaml glue *)
  let avg = hop_avg_ms h and var = hop_variance h in
  String.concat "," [
    zs h.h_ttl; zs sent; zs recv; zs h.h_failed; zs h.h_fwd_lost; zs h.h_bwd_lost;
    oz h.h_last; oz h.h_best; oz h.h_worst; "^" ^ oz h.h_jitter; "^" ^ oz h.h_jmax;
    (if samples = "" then "-" else samples); (if addrs = "" then "-" else addrs);
    zs h.h_last_src_port; zs h.h_last_dest_port; zs h.h_last_sequence;
    (match h.h_last_icmp with None -> "-" | Some t -> D_strat.icmp_str t); nat;
    oz h.h_tos; D_strat.exts_str h.h_exts;
    q_str h.h_javg; q_str h.h_jinta; q_str avg; q_str var;
    q_str (hop_loss_pct h); q_str (hop_fwd_loss_pct h); q_str (hop_bwd_loss_pct h) ]

let flow_str (f : flow) = String.concat "+" (List.map (function FUnknown -> "*" | FKnown a -> hex a) f)

let state_str (s : state) : string =
  let flows = String.concat "," (List.map (fun (f, id) -> zs id ^ ":" ^ flow_str f) s.st_registry.reg_flows) in
  let ids = Z0 :: List.map snd s.st_registry.reg_flows in
  let per id =
    match state_flow s id with
    | Ok f ->
      (match fs_hops_view f, fs_target_hop f with
       | Ok hops, Ok th ->
         Printf.sprintf "F%s=%s/%s/%s/%s|%s" (zs id) (zs f.fs_round_count) (oz f.fs_round) (zs th.h_ttl)
           (String.concat "" (List.map (fun h -> (if fs_is_target f h then "1" else "0") ^ (if fs_is_in_round f h then "1" else "0")) hops))
           (if hops = [] then "-" else String.concat ";" (List.map hop_str hops))
       | _ -> "F" ^ zs id ^ "=fault")
    | _ -> "F" ^ zs id ^ "=fault" in
  String.concat " " (("rfid=" ^ zs s.st_round_flow_id) :: ("flows=" ^ (if flows = "" then "-" else flows)) :: List.map per ids)

let run_case (toks : string list) : string option =
  match toks with
  | ["state"; ms; mf; rounds] ->
    let rec go s = function
      | [] -> Ok s
      | r :: rest -> (match update_from_round s r with Ok s' -> go s' rest | Err e -> Err e | Fault f -> Fault f) in
    (match go (state_new (zi ms) (zi mf)) (parse_rounds rounds) with
     | Ok s -> let str = state_str s in Some (if String.length str >= 5 && (try ignore (Str.search_forward (Str.regexp_string "=fault") str 0); true with Not_found -> false) then "fault:view" else str)
     | Fault f -> Some ("fault:" ^ fault_name f)
     | Err _ -> Some "err")
  | _ -> None

let () =
  D_strat.snap_hook := (fun pubs ->
      let rec go s = function
        | [] -> Ok s
        | r :: rest -> (match update_from_round s r with Ok s' -> go s' rest | Err e -> Err e | Fault f -> Fault f) in
      match go (state_new (z_of_int 256) (z_of_int 64)) pubs with
      | Ok s -> let str = state_str s in
        if (try ignore (Str.search_forward (Str.regexp_string "=fault") str 0); true with Not_found -> false) then "fault:view"
        else String.concat "!" (String.split_on_char ' ' str)
      | Fault f -> "fault:" ^ fault_name f
      | Err _ -> "err")
