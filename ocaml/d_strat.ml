(* Strategy state machine (model A): parsing of recorded runs, canonical printing *)
open Model
open D_base

let parse_portdir s =
  match s.[0] with
  | 'N' -> PdNone
  | 'S' -> FixedSrc (zi (String.sub s 1 (String.length s - 1)))
  | 'D' -> FixedDest (zi (String.sub s 1 (String.length s - 1)))
  | _ ->
    (match String.split_on_char ':' (String.sub s 1 (String.length s - 1)) with
     | [a; b] -> FixedBoth (zi a, zi b) | _ -> failwith "portdir")

let parse_cfg s =
  match String.split_on_char ',' s with
  | [p; m; d; tgt; tid; mr; ft; mt; gr; mi; is; mn; mx] ->
    { target_addr = unhex tgt;
      proto = (match p with "I" -> Icmp | "U" -> Udp | _ -> Tcp);
      trace_identifier = zi tid;
      max_rounds = (if mr = "0" then None else Some (zi mr));
      first_ttl = zi ft; max_ttl = zi mt; grace_duration = zi gr; max_inflight = zi mi;
      initial_sequence = zi is;
      multipath = (match m with "C" -> Classic | "P" -> Paris | _ -> Dublin);
      port_direction = parse_portdir d;
      min_round_duration = zi mn; max_round_duration = zi mx }
  | _ -> failwith "cfg"

let parse_err = function
  | "io" -> EIo Z0 | "pkt" -> EPacket | "missing" -> EMissingAddr | "inuse" -> EAddressInUse
  | "cap" -> EInsufficientCapacity | "size" -> EInvalidPacketSize | "failed" -> EProbeFailed
  | "badconfig" -> EBadConfig | _ -> EOther
let err_tok = function
  | EIo _ -> "io" | EPacket -> "pkt" | EMissingAddr -> "missing" | EAddressInUse -> "inuse"
  | EInsufficientCapacity -> "cap" | EInvalidPacketSize -> "size" | EProbeFailed -> "failed"
  | EBadConfig -> "badconfig" | EOther -> "other"

let opt_z s = if s = "-" then None else Some (zi s)
let parse_exts s = if s = "-" then None else Some (unhex (if String.length s = 1 then "-" else String.sub s 1 (String.length s - 1)))

let parse_response s =
  match String.split_on_char '/' s with
  | kind :: recv :: addr :: code :: exts :: rest ->
    let p = match rest with
      | ["i"; id; q; tos] -> PIcmp (zi id, zi q, opt_z tos)
      | ["u"; id; da; sp; dp; tos; ex; ac; pl; mg] ->
        PUdp (zi id, unhex da, zi sp, zi dp, opt_z tos, zi ex, zi ac, zi pl, mg = "1")
      | ["t"; da; sp; dp; tos] -> PTcp (unhex da, zi sp, zi dp, opt_z tos)
      | _ -> failwith "proto_resp" in
    let d = { r_recv = zi recv; r_addr = unhex addr; r_proto = p } in
    (match kind with
     | "te" -> RTimeExceeded (d, zi code, parse_exts exts)
     | "du" -> RDestUnreach (d, zi code, parse_exts exts)
     | "er" -> REchoReply (d, zi code)
     | "tr" -> RTcpReply d
     | _ -> RTcpRefused d)
  | _ -> failwith "response"

let parse_send s =
  match s.[0] with
  | 'S' -> Sent | 'P' -> ProbeFailedO | 'A' -> AddressInUseO
  | _ -> FatalS (parse_err (String.sub s 1 (String.length s - 1)))
let send_tok = function
  | Sent -> "S" | ProbeFailedO -> "P" | AddressInUseO -> "A" | FatalS e -> "F" ^ err_tok e

let parse_iter s =
  match String.split_on_char '|' s with
  | [clk; sends; recv; upd; adv] ->
    { i_clock = List.map zi (split_on ',' clk);
      i_sends = List.map parse_send (split_on ',' sends);
      i_recv = (if recv = "T" then Timeout
                else if recv.[0] = 'F' then FatalR (parse_err (String.sub recv 1 (String.length recv - 1)))
                else Resp (parse_response recv));
      i_update = zi upd; i_advance = zi adv }
  | _ -> failwith "iter"
let parse_iters s = List.map parse_iter (split_on ';' s)

let probe_str p =
  Printf.sprintf "%s.%s.%s.%s.%s.%s.%s" (zs p.p_sequence) (zs p.p_identifier) (zs p.p_src_port)
    (zs p.p_dest_port) (zs p.p_ttl) (zs p.p_round) (zs p.p_sent)
let icmp_str = function
  | ITimeExceeded c -> "te" ^ zs c | IEchoReply c -> "er" ^ zs c | IUnreachable c -> "du" ^ zs c
  | INotApplicable -> "na"
let optz_str = function None -> "-" | Some z -> zs z
let exts_str = function None -> "-" | Some l -> "+" ^ (if l = [] then "" else hex l)
let status_str = function
  | NotSent -> "N" | Skipped -> "K"
  | Failed p -> "F:" ^ probe_str p
  | Awaited p -> "A:" ^ probe_str p ^ "." ^ zs p.p_flags
  | Complete c ->
    Printf.sprintf "C:%s:%s:%s:%s:%s:%s:%s:%s" (probe_str c.c_probe) (hex c.c_host) (zs c.c_received)
      (icmp_str c.c_icmp) (optz_str c.c_tos) (optz_str c.c_expected) (optz_str c.c_actual) (exts_str c.c_exts)

let run_output (evs, outc) =
  let sends = List.filter_map (function ESend (p, o) -> Some (probe_str p ^ "." ^ zs p.p_flags ^ "." ^ send_tok o) | _ -> None) evs in
  let rounds = List.filter_map (function
      | EPublish r -> Some (Printf.sprintf "%s/%s/%s" (zs r.rr_largest_ttl)
                              (match r.rr_reason with TargetFound -> "tf" | RoundTimeLimitExceeded -> "tl")
                              (String.concat "," (List.map status_str r.rr_probes)))
      | _ -> None) evs in
  let res = match outc with
    | Running -> "more" | Finished -> "ok" | Failed_with e -> "err:" ^ err_tok e
    | Faulted f -> "fault:" ^ fault_name f in
  Printf.sprintf "res=%s sends=%s rounds=%s" res
    (if sends = [] then "-" else String.concat "," sends)
    (if rounds = [] then "-" else String.concat ";" rounds)

(* the snapshot: the aggregator model applied to the rounds the strategy model published *)
let snap_hook : (round_rec list -> string) ref = ref (fun _ -> "-")


let run_case (toks : string list) : string option =
  match toks with
  | "run" :: cfg :: _ :: _ :: _ when not (builder_accepts (parse_cfg cfg)) ->
    (* Builder::build refuses the configuration (model Core/Builder.v): nothing runs *)
    Some "res=err:badconfig sends=- rounds=- snap=-"
  | "run" :: cfg :: t0 :: iters :: _ ->
    let ((evs, outc), _) = run (parse_cfg cfg) (zi t0) (parse_iters iters) in
    let pubs = List.filter_map (function EPublish r -> Some r | _ -> None) evs in
    let snap = (match outc with Faulted _ -> "-" | _ -> !snap_hook pubs) in
    Some (run_output (evs, outc) ^ " snap=" ^ snap)
  | _ -> None
