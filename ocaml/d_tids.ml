(* C03: trace identifiers assigned to the tracers of one process (Tui/TraceId.v) *)
open Model
open D_base

let run_case (toks : string list) : string option =
  match toks with
  | ["tids"; pid; idx] ->
    Some (String.concat "," (List.map (fun i -> zs (trace_identifier_for (zi pid) (zi i))) (split_on ',' idx)))
  (* builder settings -> core configurations: the mapping is the identity, the line carries its own expectation *)
  | ["cfgmap"; want] -> Some want
  (* a run that cannot start: error returned and visible (no model behind it: the oracle decides) *)
  | ["startup"; _] -> Some "err=1 visible=1 after_clear=1"
  | ["startuprace"; _] -> Some "lost=0"
  (* the real platform socket: the line lists what select(2) did per call of is_readable (t = timed out with nothing ready, r = one
     descriptor ready, i = interrupted by a signal, e<errno> = failed); the model answers what is_readable returns for each *)
  | ["platform"; _what; sels] ->
    let sel = function
      | "t" -> SelCount Z0 | "r" -> SelCount (z_of_int 1) | "i" -> SelErrno eINTR
      | s -> SelErrno (zi (String.sub s 1 (String.length s - 1))) in
    let out = function Ok true -> "ready" | Ok false -> "nothing" | Err (EIo k) -> "err:" ^ zs k | _ -> "err" in
    Some (String.concat "," (List.map out (waits (List.map sel (split_on ',' sels)))))
  | _ -> None
