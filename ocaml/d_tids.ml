(* C03: trace identifiers assigned to the tracers of one process (Tui/TraceId.v) *)
open Model
open D_base

let run_case (toks : string list) : string option =
  match toks with
  | ["tids"; pid; idx] ->
    Some (String.concat "," (List.map (fun i -> zs (trace_identifier_for (zi pid) (zi i))) (split_on ',' idx)))
  (* builder settings -> core configurations: the mapping is the identity, the line carries its own expectation *)
  | ["cfgmap"; want] -> Some want
  (* a run that cannot start: error returned and visible (no model behind it: the oracle decides) *)
  | ["startup"; _] -> Some "err=1 visible=1 after_clear=1"
  | _ -> None
