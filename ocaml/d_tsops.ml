(* TracerState operation sequences (C07 arithmetic walk, C03 window-edge injections) *)
open Model
open D_base

let dump_state (s : tstate) : string =
  let ps = match probes s with Ok l -> String.concat "," (List.map D_strat.status_str l) | _ -> "fault" in
  let cap = match round_has_capacity s with Ok b -> if b then "1" else "0" | _ -> "fault" in
  Printf.sprintf "ttl=%s tf=%s mr=%s tt=%s cap=%s probes=%s" (zs s.ttl) (if s.target_found then "1" else "0")
    (D_strat.optz_str s.max_received_ttl) (D_strat.optz_str s.target_ttl) cap (if ps = "" then "-" else ps)

exception Faulted_op of string

let run_case (toks : string list) : string option =
  match toks with
  | ["tsops"; cfg; ops] ->
    let c = D_strat.parse_cfg cfg in
    let s = ref (ts_new c (z_of_int 1000000000000)) in
    let issued = ref [] and dumps = ref [] in
    let ok = function Ok x -> x | Fault f -> raise (Faulted_op (fault_name f)) | Err _ -> raise (Faulted_op "err") in
    (try
       List.iter (fun op ->
           let arg = String.sub op 1 (String.length op - 1) in
           match op.[0] with
           | 'n' -> let (p, s') = ok (next_probe c !s (zi arg)) in s := s'; issued := (zs p.p_sequence ^ "." ^ zs p.p_ttl) :: !issued
           | 'r' -> let (p, s') = ok (reissue_probe c !s (zi arg)) in s := s'; issued := (zs p.p_sequence ^ "." ^ zs p.p_ttl) :: !issued
           | 'f' -> s := ok (fail_probe !s)
           | 'a' -> dumps := dump_state !s :: !dumps; s := ok (advance_round c !s c.first_ttl (zi arg))
           | _ ->
             let r = D_strat.parse_response arg in
             let sr = ok (strategy_resp c r) in
             if check_trace_id c sr.sr_trace_id && in_round !s sr.sr_sequence then s := ok (complete_probe !s sr))
         (split_on ',' ops);
       dumps := dump_state !s :: !dumps;
       Some (Printf.sprintf "issued=%s dumps=%s" (if !issued = [] then "-" else String.concat "," (List.rev !issued))
               (String.concat ";" (List.rev !dumps)))
     with Faulted_op f -> Some ("fault:" ^ f))
  | _ -> None
