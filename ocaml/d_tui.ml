(* C17 / C18: the TuiApp selection state machine (Tui/App.v) and the privacy decisions (Tui/Privacy.v).
   Case: c17|c18 nt=N cs=.. cols0=<char><0|1>.. p=<n|-> ma=<n|-> w0=<shape>,<shape> ops=<op>;<op>..
   (format described in harness/htui/src/tuikit.rs) *)
open Model
open D_base
open TuiApp
open TuiPrivacy

let oz s = if s = "-" then None else Some (zi s)

let parse_hop s =
  match String.split_on_char '@' s with
  | [a; t] -> { hs_addrs = zi a; hs_ttl = zi t }
  | _ -> failwith "hop"

let parse_flow s =
  match String.split_on_char '~' s with
  | [id; rc; hs] ->
    { fs_id = zi id; fs_rounds = zi rc;
      fs_hops = (if hs = "-" then [] else List.map parse_hop (String.split_on_char '.' hs)) }
  | _ -> failwith "flow"

let parse_shape s =
  match String.split_on_char '/' s with
  | [mf; err; reg; fl] ->
    { sh_max_flows = zi mf; sh_error = (err = "1");
      sh_registry = (if reg = "-" then [] else List.map zi (String.split_on_char '.' reg));
      sh_flows = (if fl = "-" then [] else List.map parse_flow (String.split_on_char '+' fl)) }
  | _ -> failwith "shape"

let parse_cols s =
  List.init (String.length s / 2) (fun i -> (z_of_int (Char.code s.[2 * i]), s.[2 * i + 1] = '1'))

let meth = function
  | "next_hop" -> MNextHop | "previous_hop" -> MPreviousHop | "next_trace" -> MNextTrace
  | "previous_trace" -> MPreviousTrace | "next_hop_address" -> MNextHopAddress
  | "previous_hop_address" -> MPreviousHopAddress | "next_flow" -> MNextFlow | "previous_flow" -> MPreviousFlow
  | "next_settings_tab" -> MNextSettingsTab | "previous_settings_tab" -> MPreviousSettingsTab
  | "next_settings_item" -> MNextSettingsItem | "previous_settings_item" -> MPreviousSettingsItem
  | "toggle_column_visibility" -> MToggleColumnVisibility | "move_column_down" -> MMoveColumnDown
  | "move_column_up" -> MMoveColumnUp | "clear" -> MClear | "toggle_help" -> MToggleHelp
  | "toggle_settings" -> MToggleSettings | "toggle_hop_details" -> MToggleHopDetails
  | "toggle_freeze" -> MToggleFreeze | "toggle_chart" -> MToggleChart | "toggle_map" -> MToggleMap
  | "toggle_flows" -> MToggleFlows | "expand_privacy" -> MExpandPrivacy | "contract_privacy" -> MContractPrivacy
  | "toggle_asinfo" -> MToggleAsinfo | "expand_hosts" -> MExpandHosts | "contract_hosts" -> MContractHosts
  | "zoom_in" -> MZoomIn | "zoom_out" -> MZoomOut | "expand_hosts_max" -> MExpandHostsMax
  | "contract_hosts_min" -> MContractHostsMin | "clear_trace_data" -> MClearTraceData
  | s when String.length s > 22 && String.sub s 0 22 = "show_settings_columns_" ->
    MShowSettingsColumns (zi (String.sub s 22 (String.length s - 22)))
  | s -> failwith ("method " ^ s)

let key = function
  | "toggle_help" -> KToggleHelp | "toggle_help_alt" -> KToggleHelpAlt | "toggle_settings" -> KToggleSettings
  | "toggle_settings_tui" -> KToggleSettingsTab (z_of_int 0) | "toggle_settings_trace" -> KToggleSettingsTab (z_of_int 1)
  | "toggle_settings_dns" -> KToggleSettingsTab (z_of_int 2) | "toggle_settings_geoip" -> KToggleSettingsTab (z_of_int 3)
  | "toggle_settings_bindings" -> KToggleSettingsTab (z_of_int 4) | "toggle_settings_theme" -> KToggleSettingsTab (z_of_int 5)
  | "toggle_settings_columns" -> KToggleSettingsTab (z_of_int 6)
  | "previous_hop" -> KPreviousHop | "next_hop" -> KNextHop | "previous_trace" -> KPreviousTrace
  | "next_trace" -> KNextTrace | "previous_hop_address" -> KPreviousHopAddress | "next_hop_address" -> KNextHopAddress
  | "address_mode_ip" -> KAddressMode (z_of_int 0) | "address_mode_host" -> KAddressMode (z_of_int 1)
  | "address_mode_both" -> KAddressMode (z_of_int 2) | "toggle_freeze" -> KToggleFreeze
  | "toggle_chart" -> KToggleChart | "toggle_map" -> KToggleMap | "toggle_flows" -> KToggleFlows
  | "expand_privacy" -> KExpandPrivacy | "contract_privacy" -> KContractPrivacy | "expand_hosts" -> KExpandHosts
  | "contract_hosts" -> KContractHosts | "expand_hosts_max" -> KExpandHostsMax
  | "contract_hosts_min" -> KContractHostsMin | "chart_zoom_in" -> KChartZoomIn | "chart_zoom_out" -> KChartZoomOut
  | "clear_trace_data" -> KClearTraceData | "clear_dns_cache" -> KClearDnsCache
  | "clear_selection" -> KClearSelection | "toggle_as_info" -> KToggleAsInfo
  | "toggle_hop_details" -> KToggleHopDetails | "quit" -> KQuit | "quit_preserve_screen" -> KQuitPreserveScreen
  | s -> failwith ("key " ^ s)

(* None for an op the model has no counterpart of (a data op without a recorded shape) *)
let parse_op s =
  let body, shape =
    match String.index_opt s '=' with
    | Some i -> (String.sub s 0 i, Some (String.sub s (i + 1) (String.length s - i - 1)))
    | None -> (s, None) in
  let f = String.split_on_char ':' body in
  match body.[0], f, shape with
  | ('R' | 'X' | 'E'), (h :: _), Some sh ->
    Some (OData (zi (String.sub h 1 (String.length h - 1)), parse_shape sh))
  | ('R' | 'X' | 'E'), _, None -> None
  | 'M', [_; m], _ -> Some (OMethod (meth m))
  | 'K', [_; k], _ -> Some (OKey (key k))
  | 'F', _, _ -> Some OFrame
  | 'T', _, _ -> None (* a step of the wall clock: no operation of the application, no output *)
  | _ -> failwith ("op " ^ s)

let is_frame s = String.length s > 0 && s.[0] = 'F'

let oi = function None -> "-" | Some z -> zs z
let b01 b = if b then "1" else "0"

let state_string (a : app) =
  let s = a.a_sel and st = a.a_sett and v = a.a_view in
  let fc = if s.flow_counts = [] then "-"
    else String.concat "." (List.map (fun (id, c) -> zs id ^ "~" ^ zs c) s.flow_counts) in
  let cols = String.concat "" (List.map (fun (c, sh) -> String.make 1 (Char.chr (int_of_z c)) ^ b01 sh) st.columns) in
  String.concat "," [
    zs s.trace_selected; zs s.sel_flow; oi s.table_sel; zs s.hop_addr; b01 s.show_flows; fc;
    zs st.settings_tab; oi st.setting_sel; b01 v.frozen; oi v.privacy; oi v.max_addrs;
    b01 v.show_help ^ b01 v.show_settings ^ b01 v.show_details ^ b01 v.show_chart ^ b01 v.show_map;
    zs v.zoom; zs v.addr_mode; b01 v.as_info; cols ]

let kv toks =
  List.filter_map (fun t -> match String.index_opt t '=' with
      | Some i -> Some (String.sub t 0 i, String.sub t (i + 1) (String.length t - i - 1))
      | None -> None) toks

let setup toks =
  let m = kv toks in
  let get k = List.assoc k m in
  let w0 = List.map parse_shape (String.split_on_char ',' (get "w0")) in
  let app0 = tui_new (parse_cols (get "cols0")) (oz (get "p")) (oz (get "ma")) Z0 false true in
  let ops_s = if get "ops" = "-" then [] else String.split_on_char ';' (get "ops") in
  let ops = List.filter_map (fun s -> match parse_op s with Some o -> Some (s, o) | None -> None) ops_s in
  (w0, app0, ops)

let c17 toks =
  let (w0, app0, ops) = setup toks in
  let res = run_trace (List.map snd ops) w0 app0 in
  let prev = ref "" in
  let outs = List.map (function
      | Ok a -> let s = state_string a in if s = !prev then "=" else (prev := s; s)
      | Fault f -> "fault:" ^ fault_name f
      | Err _ -> "error") res in
  if outs = [] then "-" else String.concat ";" outs


(* ---- C18, text of the frames: Tui/Views.v through Tui/Frames.v (TuiFrames.frame_body).
   A frame op of a c18 line carries, after `=`, what the application model does not keep and the reference
   screens the harness drew of the real TuiApp (harness/htui/src/m_c18.rs `text_reference`):
     F:<w>:<h>=<hops>/<target>/<draw>+<draw>..
     hops   = hop.hop..  | -        hop = <ttl>r<total_recv>{a<addr id>x<count>}   (addresses in IndexMap order)
     target = hop | -               (Hop of selected_hop_or_target when nothing is selected)
     draw   = <t|w>,a<k|0-2>,i<k|0-6>,g<0-3>,m<k|n|N>,d<k|0|1>,s<k|n|ROW>   (k: as the application state has it)
   The output starts with the "Target: source -> destination" line of the header.
   The seeded resolver / GeoIP answers are functions of the address id (m_c18.rs seed_sentinel), replicated here. *)
module V = TuiViews
module F = TuiFrames

let lit = function
  | 1 -> "**Hidden**" | 2 -> "No response" | 3 -> "Failed" | 4 -> "Timeout" | 5 -> "Error: no addr for index "
  | 6 -> "not found" | 7 -> "awaited" | 8 -> "not enabled" | 10 -> "\n" | 11 -> " " | 12 -> " [" | 13 -> "]"
  | 14 -> " (" | 15 -> ")" | 16 -> ": " | 17 -> "<" | 18 -> ">" | 19 -> " of " | 20 -> ", " | 21 -> "AS "
  | 22 -> "Name" | 23 -> "Info" | 24 -> "Host" | 25 -> "Geo" | 26 -> "Pos" | 27 -> "Ext" | 28 -> "none" | 29 -> "Hop"
  | 30 -> "GeoIp not enabled" | 31 -> "No GeoIp data for hop" | 32 -> "Multiple GeoIp locations for hop"
  | 33 -> "Target" | 34 -> " -> "
  | n -> Printf.sprintf "<lit%d>" n

let geo_group a = a / 4 * 4
let lat g = -70.25 +. 1.5 *. float_of_int g
let long g = -170.25 +. 3.5 *. float_of_int g
let fl x = if Float.is_integer x then Printf.sprintf "%.0f" x else Printf.sprintf "%.2f" x
let sent_dns a : V.dns_entry = match a mod 12 with
  | 5 -> V.DNotFound (Some false) | 7 -> V.DResolved None | 8 -> V.DResolved (Some true) | 9 -> V.DNotFound None
  | 10 -> V.DFailed | 11 -> V.DPending | _ -> V.DResolved (Some false)
let sent_geo a = if a mod 3 = 1 then None else Some (z_of_int (geo_group a), a mod 3 = 0)

let txt as_mode (f : V.frag) : string =
  let i = int_of_z in
  match f with
  | V.FLit n -> lit (i n)
  | V.FNum n -> string_of_int (i n)
  | V.FPct (n, d) -> Printf.sprintf "%.1f%%" (float_of_int (i n) /. float_of_int (i d) *. 100.)
  | V.FAddr (_, a) -> Printf.sprintf "%d.77.77.77" (100 + i a)
  | V.FHost (_, a) -> Printf.sprintf "hq%dz.example.net" (i a)
  | V.FAs (_, a, k) ->
    let a = i a in
    let asn = Printf.sprintf "AS64%03d" (500 + a) in
    (match i k with
     | 0 -> (match as_mode with
         | 1 -> asn
         | m -> Printf.sprintf "%s [%cQ%dZ]" asn (match m with 2 -> 'P' | 3 -> 'C' | 4 -> 'R' | 5 -> 'L' | _ -> 'N') a)
     | 10 -> Printf.sprintf "%s NQ%dZ" asn a
     | _ -> Printf.sprintf "PQ%dZ RQ%dZ LQ%dZ" a a a)
  | V.FGeo (_, a, k) ->
    let a = i a in
    let g = geo_group a and located = a mod 3 = 0 in
    (match i k with
     | 1 -> Printf.sprintf "GC%dZ, GD%dZ, GK%dZ" g g g
     | 2 -> Printf.sprintf "GC%dZ, GS%dZ, GL%dZ, GN%dZ" g g g g
     | 3 -> if located then Printf.sprintf "%s, %s (~%dkm)" (fl (lat g)) (fl (long g)) (300 + g) else Printf.sprintf "0, 0 (~%dkm)" (300 + g)
     | _ -> if located then Printf.sprintf "%s, %s (~%dkm)" (fl (lat g)) (fl (long g)) (300 + g) else "0, 0 (~0km)")
  | V.FLoc (_, name) ->
    let g = i name in
    Printf.sprintf "GC%dZ, GS%dZ, GL%dZ, GN%dZ [%s, %s ~%dkm]" g g g g (fl (lat g)) (fl (long g)) (300 + g)
  | V.FSrc -> "<src>" (* address, or address and host name: the resolver cache decides (m_c18.rs text_reference) *)
  | V.FDest t -> Printf.sprintf "%d.77.77.77 (target%d.example)" (190 + i t) (i t)

(* lines trimmed, trailing empty lines dropped, ' ' -> '_', '~' -> '$', joined by '~' *)
let canon (s : string) : string =
  let ls = List.map String.trim (String.split_on_char '\n' s) in
  let rec drop = function "" :: r -> drop r | l -> l in
  let ls = List.rev (drop (List.rev ls)) in
  String.map (function ' ' -> '_' | c -> c)
    (String.concat "~" (List.map (String.map (function '~' -> '$' | c -> c)) ls))

let parse_vhop (s : string) : V.vhop =
  (* <ttl>r<recv>{a<id>x<cnt>} *)
  match String.split_on_char 'a' s with
  | head :: addrs ->
    (match String.split_on_char 'r' head with
     | [t; r] ->
       { h_ttl = zi t; h_total_recv = zi r;
         h_info = List.map (fun x -> match String.split_on_char 'x' x with [a; c] -> (zi a, zi c) | _ -> failwith "addr") addrs }
     | _ -> failwith "vhop")
  | [] -> failwith "vhop"

let parse_draw (s : string) : F.draw * int =
  let get c = List.find (fun t -> String.length t > 0 && t.[0] = c) (String.split_on_char ',' s) in
  let v c = let t = get c in String.sub t 1 (String.length t - 1) in
  let opt f x = if x = "k" then None else Some (f x) in
  let view = List.hd (String.split_on_char ',' s) in
  let asm = v 'i' in
  ({ F.d_map = (view = "w");
     d_addr_mode = opt zi (v 'a');
     d_as_info = opt (fun x -> x <> "0") asm;
     d_max_addrs = opt (fun x -> if x = "n" then None else Some (zi x)) (v 'm');
     d_details = opt (fun x -> x = "1") (v 'd');
     d_sel = opt (fun x -> if x = "n" then None else Some (zi x)) (v 's') },
   (if asm = "k" || asm = "0" then 1 else int_of_string asm))

let geo_mode_of (s : string) : int =
  let t = List.find (fun t -> String.length t > 0 && t.[0] = 'g') (String.split_on_char ',' s) in
  int_of_string (String.sub t 1 (String.length t - 1))

let stable_rev_order (l : (z * z) list) = List.rev (List.stable_sort (fun (_, c1) (_, c2) -> compare (int_of_z c1) (int_of_z c2)) l)

(* the text of the reference screens of one frame op: "!<draw>!<draw>.." *)
let frame_text (a : app) (nt : int) (op : string) : string =
  match String.index_opt op '=' with
  | None -> ""
  | Some i ->
    let suffix = String.sub op (i + 1) (String.length op - i - 1) in
    (match String.split_on_char '/' suffix with
     | [hs; tg; ds] ->
       let hops = if hs = "-" then [] else List.map parse_vhop (String.split_on_char '.' hs) in
       let target = if tg = "-" then { h_ttl = Z0; h_total_recv = Z0; h_info = [] } else parse_vhop tg in
       "!" ^ canon (String.concat "" (List.map (txt 1) (F.frame_target_line a))) ^
       String.concat "" (List.map (fun d ->
           let (dr, as_mode) = parse_draw d in
           let o = { F.o_geo_mode = z_of_int (geo_mode_of d); o_mmdb = true;
                     o_dns = (fun _ a -> sent_dns (int_of_z a)); o_geo = (fun a -> sent_geo (int_of_z a)); o_order = stable_rev_order } in
           let render l = canon (String.concat "" (List.map (txt as_mode) l)) in
           "!" ^ (match F.frame_body a (z_of_int nt) o dr hops target with
               | Ok V.BError -> "?"
               | Ok V.BSplash -> "-"
               | Ok (V.BChart _) -> "chart"
               | Ok (V.BMap (info, marks)) ->
                 (* the marks are graphics: number of pins, and whether a selection box is drawn *)
                 render info ^ "#" ^ string_of_int (List.length (List.filter (function V.MPin _ -> true | _ -> false) marks))
                 ^ (if List.exists (function V.MSelBox _ -> true | _ -> false) marks then "b" else "-")
               | Ok (V.BTable rows) ->
                 let n = List.length rows in
                 String.concat "|" (List.mapi (fun k (l, h) -> render l ^ (if k + 1 < n then "^" ^ zs h else "")) rows)
               | Fault f -> "fault:" ^ fault_name f
               | Err _ -> "shape_mismatch")) (String.split_on_char '+' ds))
     | _ -> "")

(* C18 projection: the privacy value after every op; at a frame also what the Host cell of every row
   of the selected flow shows (H hidden, N no response, V normal) *)
let c18 toks =
  let (w0, app0, ops) = setup toks in
  let res = run_trace (List.map snd ops) w0 app0 in
  let rec zip a b = match a, b with x :: a', y :: b' -> (x, y) :: zip a' b' | _ -> [] in
  let outs = List.map (fun ((s, _), r) -> match r with
      | Ok a ->
        let p = a.a_view.privacy in
        if is_frame s then begin
          let hs = match hops_for_flow a.data a.a_sel.sel_flow with Ok h -> h | _ -> [] in
          let cls = String.concat "" (List.map (fun h ->
              match int_of_z (host_cell_class p h.hs_ttl h.hs_addrs) with 0 -> "H" | 1 -> "N" | _ -> "V") hs) in
          oi p ^ ":" ^ (if cls = "" then "-" else cls) ^ frame_text a (List.length w0) s
        end else oi p
      | Fault f -> "fault:" ^ fault_name f
      | Err _ -> "error") (zip ops res) in
  if outs = [] then "-" else String.concat ";" outs

let run_case (toks : string list) : string option =
  match toks with
  | "c17" :: rest -> Some (c17 rest)
  | "c18" :: rest -> Some (c18 rest)
  | _ -> None
