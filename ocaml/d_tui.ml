(* C17 / C18: the TuiApp selection state machine (Tui/App.v) and the privacy decisions (Tui/Privacy.v).
   Case: c17|c18 nt=N cs=.. cols0=<char><0|1>.. p=<n|-> ma=<n|-> w0=<shape>,<shape> ops=<op>;<op>..
   (format described in harness/htui/src/tuikit.rs) *)
open Model
open D_base
open TuiApp
open TuiPrivacy

let oz s = if s = "-" then None else Some (zi s)

let parse_hop s =
  match String.split_on_char '@' s with
  | [a; t] -> { hs_addrs = zi a; hs_ttl = zi t }
  | _ -> failwith "hop"

let parse_flow s =
  match String.split_on_char '~' s with
  | [id; rc; hs] ->
    { fs_id = zi id; fs_rounds = zi rc;
      fs_hops = (if hs = "-" then [] else List.map parse_hop (String.split_on_char '.' hs)) }
  | _ -> failwith "flow"

let parse_shape s =
  match String.split_on_char '/' s with
  | [mf; err; reg; fl] ->
    { sh_max_flows = zi mf; sh_error = (err = "1");
      sh_registry = (if reg = "-" then [] else List.map zi (String.split_on_char '.' reg));
      sh_flows = (if fl = "-" then [] else List.map parse_flow (String.split_on_char '+' fl)) }
  | _ -> failwith "shape"

let parse_cols s =
  List.init (String.length s / 2) (fun i -> (z_of_int (Char.code s.[2 * i]), s.[2 * i + 1] = '1'))

let meth = function
  | "next_hop" -> MNextHop | "previous_hop" -> MPreviousHop | "next_trace" -> MNextTrace
  | "previous_trace" -> MPreviousTrace | "next_hop_address" -> MNextHopAddress
  | "previous_hop_address" -> MPreviousHopAddress | "next_flow" -> MNextFlow | "previous_flow" -> MPreviousFlow
  | "next_settings_tab" -> MNextSettingsTab | "previous_settings_tab" -> MPreviousSettingsTab
  | "next_settings_item" -> MNextSettingsItem | "previous_settings_item" -> MPreviousSettingsItem
  | "toggle_column_visibility" -> MToggleColumnVisibility | "move_column_down" -> MMoveColumnDown
  | "move_column_up" -> MMoveColumnUp | "clear" -> MClear | "toggle_help" -> MToggleHelp
  | "toggle_settings" -> MToggleSettings | "toggle_hop_details" -> MToggleHopDetails
  | "toggle_freeze" -> MToggleFreeze | "toggle_chart" -> MToggleChart | "toggle_map" -> MToggleMap
  | "toggle_flows" -> MToggleFlows | "expand_privacy" -> MExpandPrivacy | "contract_privacy" -> MContractPrivacy
  | "toggle_asinfo" -> MToggleAsinfo | "expand_hosts" -> MExpandHosts | "contract_hosts" -> MContractHosts
  | "zoom_in" -> MZoomIn | "zoom_out" -> MZoomOut | "expand_hosts_max" -> MExpandHostsMax
  | "contract_hosts_min" -> MContractHostsMin | "clear_trace_data" -> MClearTraceData
  | s when String.length s > 22 && String.sub s 0 22 = "show_settings_columns_" ->
    MShowSettingsColumns (zi (String.sub s 22 (String.length s - 22)))
  | s -> failwith ("method " ^ s)

let key = function
  | "toggle_help" -> KToggleHelp | "toggle_help_alt" -> KToggleHelpAlt | "toggle_settings" -> KToggleSettings
  | "toggle_settings_tui" -> KToggleSettingsTab (z_of_int 0) | "toggle_settings_trace" -> KToggleSettingsTab (z_of_int 1)
  | "toggle_settings_dns" -> KToggleSettingsTab (z_of_int 2) | "toggle_settings_geoip" -> KToggleSettingsTab (z_of_int 3)
  | "toggle_settings_bindings" -> KToggleSettingsTab (z_of_int 4) | "toggle_settings_theme" -> KToggleSettingsTab (z_of_int 5)
  | "toggle_settings_columns" -> KToggleSettingsTab (z_of_int 6)
  | "previous_hop" -> KPreviousHop | "next_hop" -> KNextHop | "previous_trace" -> KPreviousTrace
  | "next_trace" -> KNextTrace | "previous_hop_address" -> KPreviousHopAddress | "next_hop_address" -> KNextHopAddress
  | "address_mode_ip" -> KAddressMode (z_of_int 0) | "address_mode_host" -> KAddressMode (z_of_int 1)
  | "address_mode_both" -> KAddressMode (z_of_int 2) | "toggle_freeze" -> KToggleFreeze
  | "toggle_chart" -> KToggleChart | "toggle_map" -> KToggleMap | "toggle_flows" -> KToggleFlows
  | "expand_privacy" -> KExpandPrivacy | "contract_privacy" -> KContractPrivacy | "expand_hosts" -> KExpandHosts
  | "contract_hosts" -> KContractHosts | "expand_hosts_max" -> KExpandHostsMax
  | "contract_hosts_min" -> KContractHostsMin | "chart_zoom_in" -> KChartZoomIn | "chart_zoom_out" -> KChartZoomOut
  | "clear_trace_data" -> KClearTraceData | "clear_dns_cache" -> KClearDnsCache
  | "clear_selection" -> KClearSelection | "toggle_as_info" -> KToggleAsInfo
  | "toggle_hop_details" -> KToggleHopDetails | "quit" -> KQuit | "quit_preserve_screen" -> KQuitPreserveScreen
  | s -> failwith ("key " ^ s)

(* None for an op the model has no counterpart of (a data op without a recorded shape) *)
let parse_op s =
  let body, shape =
    match String.index_opt s '=' with
    | Some i -> (String.sub s 0 i, Some (String.sub s (i + 1) (String.length s - i - 1)))
    | None -> (s, None) in
  let f = String.split_on_char ':' body in
  match body.[0], f, shape with
  | ('R' | 'X' | 'E'), (h :: _), Some sh ->
    Some (OData (zi (String.sub h 1 (String.length h - 1)), parse_shape sh))
  | ('R' | 'X' | 'E'), _, None -> None
  | 'M', [_; m], _ -> Some (OMethod (meth m))
  | 'K', [_; k], _ -> Some (OKey (key k))
  | 'F', _, _ -> Some OFrame
  | 'T', _, _ -> None (* a step of the wall clock: no operation of the application, no output *)
  | _ -> failwith ("op " ^ s)

let is_frame s = String.length s > 0 && s.[0] = 'F'

let oi = function None -> "-" | Some z -> zs z
let b01 b = if b then "1" else "0"

let state_string (a : app) =
  let s = a.a_sel and st = a.a_sett and v = a.a_view in
  let fc = if s.flow_counts = [] then "-"
    else String.concat "." (List.map (fun (id, c) -> zs id ^ "~" ^ zs c) s.flow_counts) in
  let cols = String.concat "" (List.map (fun (c, sh) -> String.make 1 (Char.chr (int_of_z c)) ^ b01 sh) st.columns) in
  String.concat "," [
    zs s.trace_selected; zs s.sel_flow; oi s.table_sel; zs s.hop_addr; b01 s.show_flows; fc;
    zs st.settings_tab; oi st.setting_sel; b01 v.frozen; oi v.privacy; oi v.max_addrs;
    b01 v.show_help ^ b01 v.show_settings ^ b01 v.show_details ^ b01 v.show_chart ^ b01 v.show_map;
    zs v.zoom; zs v.addr_mode; b01 v.as_info; cols ]

let kv toks =
  List.filter_map (fun t -> match String.index_opt t '=' with
      | Some i -> Some (String.sub t 0 i, String.sub t (i + 1) (String.length t - i - 1))
      | None -> None) toks

let setup toks =
  let m = kv toks in
  let get k = List.assoc k m in
  let w0 = List.map parse_shape (String.split_on_char ',' (get "w0")) in
  let app0 = tui_new (parse_cols (get "cols0")) (oz (get "p")) (oz (get "ma")) Z0 false true in
  let ops_s = if get "ops" = "-" then [] else String.split_on_char ';' (get "ops") in
  let ops = List.filter_map (fun s -> match parse_op s with Some o -> Some (s, o) | None -> None) ops_s in
  (w0, app0, ops)

let c17 toks =
  let (w0, app0, ops) = setup toks in
  let res = run_trace (List.map snd ops) w0 app0 in
  let prev = ref "" in
  let outs = List.map (function
      | Ok a -> let s = state_string a in if s = !prev then "=" else (prev := s; s)
      | Fault f -> "fault:" ^ fault_name f
      | Err _ -> "error") res in
  if outs = [] then "-" else String.concat ";" outs

(* C18 projection: the privacy value after every op; at a frame also what the Host cell of every row
   of the selected flow shows (H hidden, N no response, V normal) *)
let c18 toks =
  let (w0, app0, ops) = setup toks in
  let res = run_trace (List.map snd ops) w0 app0 in
  let rec zip a b = match a, b with x :: a', y :: b' -> (x, y) :: zip a' b' | _ -> [] in
  let outs = List.map (fun ((s, _), r) -> match r with
      | Ok a ->
        let p = a.a_view.privacy in
        if is_frame s then begin
          let hs = match hops_for_flow a.data a.a_sel.sel_flow with Ok h -> h | _ -> [] in
          let cls = String.concat "" (List.map (fun h ->
              match int_of_z (host_cell_class p h.hs_ttl h.hs_addrs) with 0 -> "H" | 1 -> "N" | _ -> "V") hs) in
          oi p ^ ":" ^ (if cls = "" then "-" else cls)
        end else oi p
      | Fault f -> "fault:" ^ fault_name f
      | Err _ -> "error") (zip ops res) in
  if outs = [] then "-" else String.concat ";" outs

let run_case (toks : string list) : string option =
  match toks with
  | "c17" :: rest -> Some (c17 rest)
  | "c18" :: rest -> Some (c18 rest)
  | _ -> None
