(* Correspondence driver: reads "ID FN ARGS..." lines on stdin, runs the extracted model,
   prints "ID RESULT".  Integers decimal, byte strings lower-case hex ("-" = empty), lists comma-separated.
   Each area contributes a module D_<area> with  run_case : string list -> string option. *)
let areas : (string list -> string option) list = [
  D_c13.run_case;
  D_strat.run_case;
  D_state.run_case;
  D_tsops.run_case;
  D_c20.run_case;
  D_c11.run_case;
  D_c12.run_case;
  D_pkt.run_case;
  D_c16.run_case;
  D_recv.run_case;
  D_tui.run_case;
  D_tids.run_case;
]

let run_case toks =
  let rec go = function
    | [] -> "?unknown-case"
    | f :: rest -> (match f toks with Some r -> r | None -> go rest) in
  go areas

let () =
  try
    while true do
      let line = input_line stdin in
      if String.length line > 0 && line.[0] <> '#' then begin
        match String.split_on_char ' ' line with
        | id :: toks ->
          let r = try run_case toks with e -> "?exception:" ^ Printexc.to_string e in
          print_string id; print_char ' '; print_endline r
        | [] -> ()
      end
    done
  with End_of_file -> ()
