(* Correspondence driver: reads "ID FN ARGS..." lines on stdin, runs the extracted model,
   prints "ID RESULT".  Integers decimal, byte strings lower-case hex ("-" = empty), lists comma-separated. *)
open Model

let rec pos_of_int n =
  if n = 1 then XH else if n land 1 = 0 then XO (pos_of_int (n lsr 1)) else XI (pos_of_int (n lsr 1))
let z_of_int n = if n = 0 then Z0 else if n > 0 then Zpos (pos_of_int n) else Zneg (pos_of_int (-n))
let rec int_of_pos = function XH -> 1 | XO p -> 2 * int_of_pos p | XI p -> 2 * int_of_pos p + 1
let int_of_z = function Z0 -> 0 | Zpos p -> int_of_pos p | Zneg p -> - (int_of_pos p)
let rec nat_of_int n = if n <= 0 then O else S (nat_of_int (n - 1))
let rec int_of_nat = function O -> 0 | S n -> 1 + int_of_nat n

let zi s = z_of_int (int_of_string s)
let unhex s =
  if s = "-" then [] else
  List.init (String.length s / 2) (fun i -> z_of_int (int_of_string ("0x" ^ String.sub s (2 * i) 2)))
let hex l =
  if l = [] then "-" else String.concat "" (List.map (fun z -> Printf.sprintf "%02x" (int_of_z z)) l)
let split_on c s = if s = "" || s = "-" then [] else String.split_on_char c s
let zs z = string_of_int (int_of_z z)

let fault_name = function
  | OutOfBounds -> "OutOfBounds" | Overflow -> "Overflow" | Underflow -> "Underflow"
  | Unimplemented -> "Unimplemented" | Unreachable -> "Unreachable"
  | CapacityExceeded -> "CapacityExceeded" | MissingKey -> "MissingKey" | OutOfFuel -> "OutOfFuel"

let run_case (toks : string list) : string =
  match toks with
  | ["cksum"; kind; d; src; dst] ->
    let d = unhex d and src = unhex src and dst = unhex dst in
    zs (match kind with
        | "ipv4hdr" -> ipv4_header_checksum d
        | "icmp4" -> icmp_ipv4_checksum d
        | "icmp6" -> icmp_ipv6_checksum d src dst
        | "udp4" -> udp_ipv4_checksum d src dst
        | "tcp4" -> tcp_ipv4_checksum d src dst
        | "udp6" -> udp_ipv6_checksum d src dst
        | _ -> failwith "kind")
  | ["paris"; _fam; sp; dp; seq; src; dst] ->
    hex (paris_udp (zi sp) (zi dp) (zi seq) (unhex src) (unhex dst))
  | _ -> "?unknown-case"

let () =
  try
    while true do
      let line = input_line stdin in
      if String.length line > 0 && line.[0] <> '#' then begin
        match String.split_on_char ' ' line with
        | id :: toks ->
          let r = try run_case toks with e -> "?exception:" ^ Printexc.to_string e in
          print_string id; print_char ' '; print_endline r
        | [] -> ()
      end
    done
  with End_of_file -> ()
